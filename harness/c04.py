"""C04 — downsampling and channel arithmetic: correspondence + oracle (see DESIGN.md 6/C04)."""
import itertools
import math
import warnings
from fractions import Fraction

import numpy as np

from common import enc_float, enc_list, errname

PROP = "C04"
THEOREMS = [
    "Verif.C04.getitem_samples",
    "Verif.C04.over_spec",
    "Verif.C04.over_sound",
    "Verif.C04.over_complete",
    "Verif.C04.over_errors",
    "Verif.C04.over_factors",
    "Verif.C04.over_unordered_witness",
    "Verif.C04.by_spec",
    "Verif.C04.by_all_full_windows",
    "Verif.C04.by_by",
    "Verif.C04.by_by_sum",
    "Verif.C04.by_by_compat",
    "Verif.C04.by_ts_refused",
    "Verif.C04.by_window_spec",
    "Verif.C04.to_is_over",
    "Verif.C04.to_windows",
    "Verif.C04.to_windows_disjoint",
    "Verif.C04.to_all_full_windows",
    "Verif.C04.to_missing_last",
    "Verif.C04.to_eq_by",
    "Verif.C04.to_multiple_eq_by_dropLast",
    "Verif.C04.to_single_block_refused",
    "Verif.C04.to_step_force",
    "Verif.C04.to_step_safe_ceil",
    "Verif.C04.to_step_ceil_largest_multiple",
    "Verif.C04.to_answers_iff",
    "Verif.C04.to_freq_is_to",
    "Verif.C04.step_of_exact_freq",
    "Verif.C04.to_freq_eq_by",
    "Verif.C04.to_window_spec",
    "Verif.C04.F3_witness",
    "Verif.C04.like_same_timestamps",
    "Verif.C04.like_value_spec",
    "Verif.C04.like_kept_spec",
    "Verif.C04.like_within_span",
    "Verif.C04.like_repaired_kept_spec",
    "Verif.C04.like_windows_disjoint",
    "Verif.C04.like_kept_inside_span",
    "Verif.C04.like_spec",
    "Verif.C04.like_overlap_witness",
    "Verif.C04.isolatedGrowth_flag",
    "Verif.C04.like_refusals",
    "Verif.C04.like_answers_iff",
    "Verif.C04.repair_spec",
    "Verif.C04.arith_spec",
    "Verif.C04.arith_refused",
    "Verif.C04.neg_scalar_spec",
    "Verif.C04.arith_chain",
    "Verif.C04.sub_eq_add_neg",
    "Verif.C04.applyX_finite",
    "Verif.C04.div_zero_spec",
    "Verif.C04.arithX_spec",
    "Verif.C04.arithX_refused",
    "Verif.C04.arithX_eq_arith",
    "Verif.C04.F9_witness",
]
RULE = (
    "corpus (F3 inputs for a continuous channel and a time series, the F9 like/partial-window input, pylake's own like "
    "test) + exhaustive small scope (continuous n<=12, k<=5, dt in {1,2,3} (quick: n<=9, k<=4, dt in {1,3}) for "
    "by/to/to-vs-by, mean and median always, sum/min/max on every third case; every step 1..4dt+1 with safe/ceil/force; "
    "small irregular time series at every step; every single window and every list of 2 windows (quick: every fifth) "
    "with edges in [start-2, stop+2] on 5 (thorough: 8) small continuous channels / time series, thorough also every "
    "list of 3 windows on a grid of step 2; like: constant-rate references of period 2..6 at every offset; arithmetic "
    "on all kind pairs with equal / shifted / truncated timestamps) "
    "+ seeded random (variable-spacing time series with force, ceil/safe on non-divisors, ordered range lists drawn around "
    "sample boundaries, references with one frame-rate change in either direction with or without the long frame, "
    "arbitrary strictly increasing references for correspondence only, channel arithmetic with equal / shifted / "
    "truncated timestamps) + long recordings (stream long: continuous channels given by a value rule, a few blocks or "
    "an arbitrary stretch longer than a round length j*2^p / 10^e; quick: one of 2^23+ samples downsampled_by a factor "
    "coprime to 10 with all five reducers on the same object, one of j*2^p, p in 10..21, and one to-vs-by with a large "
    "factor; thorough: p = 10..24, round decimal and random lengths; the WHOLE answer is judged by a NumPy oracle that "
    "finds every window from the timestamps, the model answers windows of it at both ends, beyond the end and around "
    "every round source offset: ops c04.bywin / c04.towin) + malformed stream (non-list or empty range lists, rows of wrong length, invalid where/method, "
    "upsampling, variable spacing without force, time-series / time-tag by, wrong reference kinds, factor 0, different masks, non-channel operands). Values are integers "
    "or dyadic rationals (exact in double). Deepening round D: every second small-scope / random downsampling call leaves out "
    "the arguments that have their default value; over / by / like are called a second time with a reduce callable that "
    "records what it is handed (ops c04.overwins, c04.bywins, c04.likewins); self[a:b] for every pair of bounds around small "
    "sources (c04.getitem); downsampled_by twice for n <= 14, k1, k2 <= 4 and random (c04.byby); references with every "
    "pattern of 4 periods from {2, 3, 5}; frequencies as Python ints, 0, -0.0, nan, +-inf, negative, huge, tiny and "
    "arbitrary random floats (the model converts the frequency itself, c04.tof), the conversion alone for every period "
    "<= 300 (thorough 3000) with its neighbouring doubles (c04.step); negation, scalar operands on both sides, chains "
    "(a op b) op c (c04.neg, c04.ariths, c04.arith3). Strengthening round H: divisors keep their zeros (x/0 = +-inf, 0/0 = nan, "
    "judged element-wise and through chains by the model's extended values and an IEEE oracle): every pair of two-sample "
    "channels over {-1, 0, 2} for /, scalar 0 (int / float) on either side, all 16 operator chains over operands full of "
    "zeros, 35% of the random arithmetic cases count-like (mostly zeros), half of those stored as int64; operands that went "
    "through a boolean mask first (every mask pair on 3 samples, 15% of the random cases); operands that are neither channel "
    "nor number and downsampled_by on time tags (malformed stream); the public start of a result is its first timestamp. Non-trivial: a successful answer with at least one output sample from a "
    "source that holds more samples than the output (so some window reduced several samples or samples were left "
    "out); by: k>=2 and at least one block; arithmetic: at least one sample; malformed stream: a refusal."
)
TRUSTED = [
    "values: implementation doubles are converted exactly and compared with the model's exact rational within 1e-9*max(1,|v|) (data are small integers / dyadics, so sums are exact and mean/median/division round once)",
    "the Hz -> ns conversion int(1e9/frequency) is done by the model itself, twice: on the same double (Lean Float = IEEE binary64 division, truncation toward zero) and exactly on the rational value of the double (targetOfFreqQ: round to nearest even at 53 bits, then truncation); the driver reports a mismatch between the two; for the long-recording op c04.towin the harness still checks int(1e9/f) == k*dt itself; quotients beyond 2^62 and subnormal quotients are outside the exact model",
    "numpy's treatment of reduce on an empty window in downsampled_like (nan for mean/median, 0 for sum, ValueError for min/max) is canonicalised by the harness, not modelled",
    "timestamps below 2^62 (np.int64 overflow is outside the model)",
    "the period of a downsampled_by result is read through the public Slice.sample_rate (documented data frequency, 1e9/period): round(1e9/rate), exact for periods below 2^51 ns; no private attribute of pylake is read by the harness",
    "long recordings: source values are generated from the rule ((a*i + b*(i//w)) % m - c) / den by NumPy int64 arithmetic in the harness and by Nat/Int arithmetic in the model (Rule.val); the whole answer is judged by harness/c04.py judge_long (NumPy searchsorted / reduceat / sort on exact int64 numerators), the model is compared on windows only",
]
ASSUMPTIONS = [
    "continuous channels have dt >= 1; time-series timestamps are int64, strictly increasing for downsampled_to and for reference channels, non-decreasing elsewhere",
    "reduce is one of np.mean, np.sum, np.min, np.max, np.median (the theorems hold for an arbitrary function of the window's values)",
    "range lists handed to downsampled_over are judged for refusals by the code's own hull criterion (first start / last stop); for lists that are not ordered in time a RuntimeError can be raised although an inner window lies inside the channel (observation, not asserted)",
    "division by zero: every divisor (source channel or scalar) holds +0.0, never -0.0 (sources are built from Fractions); signed zeros are not modelled -- a numerator -0.0 gives the same nan / finite answers",
    "downsampled_like: the oracle's disjointness / within-span clauses are asserted for references with a constant period or isolated frame-rate changes; arbitrary increasing references (period growing twice in a row makes the repaired windows overlap) are checked against the model and for the value/timestamp clauses only",
]

REDUCERS = ["mean", "sum", "min", "max", "median"]


# ------------------------------------------------------------------ helpers


def _ch():
    from lumicks.pylake import channel

    return channel


def fr(v):
    """case value -> Fraction (ints or 'p/q' strings)"""
    if isinstance(v, str):
        p, q = v.split("/")
        return Fraction(int(p), int(q))
    return Fraction(v)


def np_reduce(name):
    return {"mean": np.mean, "sum": np.sum, "min": np.min, "max": np.max, "median": np.median}[name]


def py_reduce(name, vals):
    """independent exact reduction"""
    vals = list(vals)
    if name == "sum":
        return sum(vals, Fraction(0))
    if name == "mean":
        return sum(vals, Fraction(0)) / len(vals)
    if name == "min":
        return min(vals)
    if name == "max":
        return max(vals)
    if name == "median":
        s = sorted(vals)
        n = len(s)
        return s[n // 2] if n % 2 else (s[n // 2 - 1] + s[n // 2]) / 2
    raise ValueError(name)


def build(src):
    channel = _ch()
    if src.get("dtype") == "int" and all(fr(v).denominator == 1 for v in src["vals"]):
        vals = np.array([int(fr(v)) for v in src["vals"]], dtype=np.int64)  # photon counts are stored as integers
    else:
        vals = np.array([float(fr(v)) for v in src["vals"]], dtype=float)
    if src["kind"] == "cont":
        return channel.Slice(channel.Continuous(vals, src["start"], src["dt"]))
    if src["kind"] == "ts":
        return channel.Slice(channel.TimeSeries(vals, np.array(src["ts"], dtype=np.int64)))
    if src["kind"] == "tags":
        return channel.Slice(channel.TimeTags(np.array(src["ts"], dtype=np.int64)))
    raise ValueError(src["kind"])


def src_tokens(src):
    vals = enc_list(src["vals"], lambda v: f"{fr(v).numerator}/{fr(v).denominator}")
    if src["kind"] == "cont":
        return f"cont {src['start']} {src['dt']} {vals}"
    return f"ts {enc_list(src['ts'])} {vals}"


def src_samples(src):
    if src["kind"] == "cont":
        ts = [src["start"] + i * src["dt"] for i in range(len(src["vals"]))]
    else:
        ts = list(src["ts"])
    return list(zip(ts, [fr(v) for v in src["vals"]]))


def src_span(src):
    """[start, stop) as the property reads it: a continuous channel spans n periods, a time series ends one
    nanosecond after its last sample; None for an empty time series"""
    if src["kind"] == "cont":
        return src["start"], src["start"] + len(src["vals"]) * src["dt"]
    if not src["ts"]:
        return None
    return src["ts"][0], src["ts"][-1] + 1


def enc_val(v):
    v = float(v)
    if math.isnan(v):
        return "nan"
    if math.isinf(v):
        return "inf" if v > 0 else "-inf"
    f = Fraction(v)
    return f"{f.numerator}/{f.denominator}"


def show(ts, data):
    ts = np.asarray(ts)
    data = np.asarray(data)
    if len(ts) != len(data):
        return f"length-mismatch {len(ts)} {len(data)}"
    return "[" + ",".join(f"{int(t)}:{enc_val(v)}" for t, v in zip(ts, data)) + "]"


def show_r(r):
    """a returned channel: its samples, and -- when it holds any -- that its public `start` is its first timestamp (the
    result keeps the timestamps: a channel that starts elsewhere than its first sample is shown as such)"""
    ts = np.asarray(r.timestamps)
    if len(ts):
        st = r.start
        if st is None or int(st) != int(ts[0]):
            return f"start-is-not-the-first-timestamp:{st}:{int(ts[0])}"
    return show(ts, r.data)


def masked(src, mask):
    """the channel `s[mask]` as the documentation defines it: exactly the samples whose mask entry is true, with their
    own timestamps (always a time series)"""
    if mask is None:
        return src
    kept = [(t, v) for (t, _), v, m in zip(src_samples(src), src["vals"], mask) if m]
    out = {"kind": "ts", "ts": [t for t, _ in kept], "vals": [v for _, v in kept]}
    return out


def build_masked(src, mask):
    s = build(src)
    return s if mask is None else s[np.array([bool(m) for m in mask], dtype=bool)]


def parse_samples(s):
    """'[t:p/q,...]' -> list of (int, Fraction | 'nan' | 'inf' | '-inf' | 'E')"""
    s = s.strip()
    if not (s.startswith("[") and s.endswith("]")):
        return [(-1, "not-a-sample-list:" + s[:80])]  # equal to no expected answer
    inner = s[1:-1]
    out = []
    if inner == "":
        return out
    for item in inner.split(","):
        t, v = item.split(":")
        if "/" in v:
            p, q = v.split("/")
            v = Fraction(int(p), int(q))
        out.append((int(t), v))
    return out


def val_close(a, b):
    if isinstance(a, str) or isinstance(b, str):
        return a == b
    return abs(a - b) <= Fraction(1, 10**9) * max(1, abs(b))


def samples_close(xs, ys):
    return len(xs) == len(ys) and all(tx == ty and val_close(vx, vy) for (tx, vx), (ty, vy) in zip(xs, ys))


def target_of(freq):
    return int(1e9 / freq)


def period_of(r):
    """Sampling period (ns) of a downsampled channel, as a protocol token, read through the PUBLIC interface only (the
    data source behind a Slice is a private attribute; a refactoring may rename it).  `Slice.sample_rate` is documented
    as the data frequency: 1e9 / period for a constant-rate channel, so the integer period is round(1e9 / rate)
    (exact below 2^51 ns; the rate itself is accepted within the property's 1e-9 relative precision, a last-bit
    difference in how the rate is computed does not matter).  A rate that is not 1e9 / integer is shown as it is -- it
    never equals the expected period.  '?' when the public interface does not give a rate (None: it does not call
    the result a constant-rate channel; its samples and timestamps are judged all the same): agree() and the oracle
    ignore a '?'."""
    try:
        sr = r.sample_rate
    except Exception:
        sr = None
    if sr is None:
        return "?"
    sr = float(sr)
    if math.isfinite(sr) and sr > 0:
        d = int(round(1e9 / sr))
        if d >= 1 and abs(1e9 / d - sr) <= 1e-9 * sr:
            return str(d)
    return f"rate:{sr!r}"


# ------------------------------------------------------------------ long channels given by a rule
#
# A recording of a minute at 78.125 kHz holds millions of samples.  Such a source is described by a RULE instead of a
# value list:  {"kind": "rule", "start", "dt", "n", "rule": [a, b, w, m, c, den]}  with
# sample i = ((a*i + b*(i // w)) % m - c) / den   (small integers / dyadics: sums are exact in double).
# The whole answer of the implementation is judged by `judge_long` (NumPy, written from the property text: windows
# are found from the TIMESTAMPS); the Lean model answers windows of it (ops c04.bywin / c04.towin,
# theorems by_window_spec / to_window_spec) around round source offsets, at both ends and beyond the end.

LONG = 1 << 16  # sources longer than this are counted as "long" in the coverage


def is_rule(src):
    return src.get("kind") == "rule"


def src_len(src):
    return src["n"] if is_rule(src) else len(src["vals"])


def rule_numerators(src):
    """int64 numerators of the samples of a rule source (values are numerators / den)"""
    a, b, w, m, c, den = src["rule"]
    i = np.arange(src["n"], dtype=np.int64)
    num = a * i
    if b:
        num += b * (i // w)
    num %= m
    num -= c
    return num


def build_long(src):
    channel = _ch()
    data = rule_numerators(src).astype(float)
    den = src["rule"][5]
    if den != 1:
        data /= den
    return channel.Slice(channel.Continuous(data, src["start"], src["dt"]))


def rule_tokens(src):
    return f"{src['start']} {src['dt']} {src['n']} {enc_list(src['rule'])}"


def round_offsets(n):
    """source offsets at which an implementation could plausibly switch buffers / chunks: powers of two and of ten and
    the multiples of the largest ones below n, most important first"""
    out = []
    p = n.bit_length() - 1
    while p >= 8:
        out.append(1 << p)
        p -= 1
    big = 1 << max(16, n.bit_length() - 4)
    out += [j * big for j in range(1, 17) if j * big < n]
    e = 10 ** (len(str(n)) - 1)
    while e >= 1000:
        out += [j * e for j in range(1, 10) if j * e < n]
        e //= 10
        if len(out) > 60:
            break
    seen, res = set(), []
    for o in out:
        if 0 < o < n and o not in seen:
            seen.add(o)
            res.append(o)
    return res


def long_windows(n, k, budget=600000):
    """[(i0, cnt)] windows of the downsampled channel the model is asked for: both ends, one sample beyond the end, and
    the samples whose blocks touch a round source offset (block before / containing / after); at most `budget` source
    samples in total"""
    q = n // k
    wins = [(max(q - 2, 0), 4), (0, 2)]
    for o in round_offsets(n):
        b = o // k
        wins.append((max(b - 1, 0), 3))
    out, seen, cost = [], set(), 0
    for w in wins:
        if w in seen:
            continue
        c = w[1] * k
        if out and len(out) >= 2 and cost + c > budget:
            continue
        seen.add(w)
        out.append(w)
        cost += c
    return sorted(out)


def show_windows(ts, data, wins):
    return " ".join(show(ts[i0 : i0 + cnt], data[i0 : i0 + cnt]) for i0, cnt in wins)


def judge_long(src, step, reduce, where, ts_out, data_out, what, memo=None):
    """The property, evaluated on the WHOLE answer for windows of `step` ns on a rule source.
    Returns (clause | None, deviation).  Every window [start + i*step, start + (i+1)*step) lying inside the span
    [start, start + n*dt) must be represented by one sample: the reduction of exactly the source samples whose
    timestamps lie inside it, stamped with the midpoint of the first and last of them (center) or the window start."""
    start, dt, n = src["start"], src["dt"], src["n"]
    den = src["rule"][5]
    ts_out = np.asarray(ts_out)
    data_out = np.asarray(data_out, dtype=float)
    if len(ts_out) != len(data_out):
        return f"{what}: {len(ts_out)} timestamps for {len(data_out)} values", "other"
    memo = {} if memo is None else memo  # source values and window geometry are shared by the calls of one case
    stop = start + n * dt
    q = (stop - start) // step  # windows lying entirely inside the span
    if ("geometry", step) not in memo:
        ts_src = start + dt * np.arange(n, dtype=np.int64)
        edges = start + step * np.arange(q + 1, dtype=np.int64)
        lo = np.searchsorted(ts_src, edges[:-1], "left")  # first source sample with t >= window start
        hi = np.searchsorted(ts_src, edges[1:], "left")  # first source sample with t >= window stop
        mid = (ts_src[lo] + ts_src[hi - 1]) // 2 if q else np.zeros(0, dtype=np.int64)
        memo["geometry", step] = (edges, lo, hi, mid)
        del ts_src
    edges, lo, hi, mid = memo["geometry", step]
    cnt = hi - lo
    if q and cnt.min() <= 0:
        return "harness-bug: empty window on a long source", "other"
    if "num" not in memo:
        memo["num"] = rule_numerators(src)
    num = memo["num"]
    used = int(hi[-1]) if q else 0
    if q == 0:
        exp = np.zeros(0)
        exp_ts = np.zeros(0, dtype=np.int64)
    else:
        exp_ts = mid if where == "center" else edges[:-1]
        if reduce in ("sum", "mean"):
            tot = np.add.reduceat(num[:used], lo)
            exp = tot / den if reduce == "sum" else tot / (cnt * den)
        elif reduce == "min":
            exp = np.minimum.reduceat(num[:used], lo) / den
        elif reduce == "max":
            exp = np.maximum.reduceat(num[:used], lo) / den
        elif reduce == "median":
            # sort the samples inside every window: one sort on (window, value)
            base = int(num[:used].min())
            width = int(num[:used].max()) - base + 1
            key = np.repeat(np.arange(q, dtype=np.int64), cnt) * width + (num[:used] - base)
            key.sort()
            a = key[lo + (cnt - 1) // 2] % width + base
            b = key[lo + cnt // 2] % width + base
            del key
            exp = (a + b) / (2 * den)
        else:
            raise ValueError(reduce)

    def bad_index(ts_g, v_g, ts_e, v_e):
        m = min(len(v_g), len(v_e))
        bad = (ts_g[:m] != ts_e[:m]) | ~(np.abs(v_g[:m] - v_e[:m]) <= 1e-9 * np.maximum(1.0, np.abs(v_e[:m])))
        idx = np.flatnonzero(bad)
        return idx

    if len(data_out) == q:
        idx = bad_index(ts_out, data_out, exp_ts, exp)
        if idx.size == 0:
            return None, "none"
    dev = "other"
    if q and len(data_out) == q - 1 and bad_index(ts_out, data_out, exp_ts[:-1], exp[:-1]).size == 0:
        dev = "only_last_full_window_missing"
    idx = bad_index(ts_out, data_out, exp_ts, exp)
    detail = ""
    if idx.size:
        i = int(idx[0])
        a = start + i * step
        detail = (
            f"; {idx.size} of the first {min(len(data_out), q)} samples are wrong, the first is sample {i}: "
            f"({int(ts_out[i])}, {float(data_out[i])!r}) but {reduce} of the {int(cnt[i])} source samples inside "
            f"[{a}, {a + step}) (source indices {int(lo[i])}..{int(hi[i]) - 1}) is {float(exp[i])!r} at {int(exp_ts[i])}"
        )
    return (
        f"{what}: every window of {step} ns inside [start, stop) must be represented by the {reduce} of exactly its "
        f"source samples: expected {q} samples, implementation returned {len(data_out)}{detail}",
        dev,
    )


def _call_long(case):
    """by / to on a long rule source.  One object serves all the calls of the case (several reducers one after the
    other), the whole answers are judged right away (`_long`: clause and deviation per answer) and only the
    windows the model is asked for are kept as strings."""
    src, k = case["src"], case["k"]
    s = build_long(src)
    wins = long_windows(src["n"], k)
    verdicts, out, memo = [], [], {}
    if case["op"] == "bylong":
        _warm(lambda: s.downsampled_by(k, reduce=_other_reduce(case["reducers"][0])))
        for red in case["reducers"]:
            try:
                r = s.downsampled_by(k, reduce=np_reduce(red))
                ts, data = r.timestamps, r.data
                clause, dev = judge_long(src, k * src["dt"], red, "center", ts, data, "bylong", memo)
                per = period_of(r)
                if clause is None and per not in ("?", str(k * src["dt"])):
                    clause = f"bylong: period of the result is {per}, expected {k * src['dt']}"
                verdicts.append((clause, dev))
                out.append(f"ok {per} {len(data)} " + show_windows(ts, data, wins))
            except Exception as e:
                verdicts.append((f"bylong: refused a valid factor: {errname(e)}", "other"))
                out.append(errname(e))
    else:  # tobylong
        red = case["reduce"]
        _warm(lambda: s.downsampled_by(k, reduce=_other_reduce(red)))
        try:
            r = s.downsampled_to(case["freq"], reduce=np_reduce(red), where=case["where"], method=case["method"])
            ts_to, d_to = np.asarray(r.timestamps), np.asarray(r.data)
            verdicts.append(judge_long(src, target_of(case["freq"]), red, case["where"], ts_to, d_to, "to", memo))
            out.append(f"ok {len(d_to)} " + show_windows(ts_to, d_to, wins))
        except Exception as e:
            ts_to = None
            span, step = src["n"] * src["dt"], target_of(case["freq"])
            if errname(e) == "ValueError" and span < step:
                verdicts.append((None, "none"))  # no complete window at all: a refusal is as good as an empty result
            elif errname(e) == "ValueError" and span == step:
                verdicts.append((f"to: the single window of {step} ns inside [start, stop) must be represented, got ValueError", "only_last_full_window_missing"))
            else:
                verdicts.append((f"to: a valid target frequency was refused: {errname(e)}", "other"))
            out.append(errname(e))
        try:
            r = s.downsampled_by(k, reduce=np_reduce(red))
            ts, data = np.asarray(r.timestamps), np.asarray(r.data)
            clause, dev = judge_long(src, k * src["dt"], red, "center", ts, data, "bylong", memo)
            verdicts.append((clause, dev))
            out.append(f"ok {period_of(r)} {len(data)} " + show_windows(ts, data, wins))
            # consistency of the two methods (whatever the expected values are)
            if ts_to is not None and case["where"] == "center":
                m = min(len(ts), len(ts_to))

                def eq(x, y):
                    return len(x) == len(y) and bool(np.all(np.abs(x - y) <= 1e-9 * np.maximum(1.0, np.abs(y))))

                same = len(ts) == len(ts_to) and np.array_equal(ts, ts_to) and eq(data, d_to)
                if not same:
                    missing_last = len(ts_to) == len(ts) - 1 and np.array_equal(ts[:m], ts_to) and eq(data[:m], d_to)
                    verdicts.append(
                        (f"to-vs-by: downsampled_to(f_s/{k}) returned {len(ts_to)} samples, downsampled_by({k}) {len(ts)}"
                         + ("" if missing_last else "; they differ in samples present in both"),
                         "only_last_full_window_missing" if missing_last else "other")
                    )
        except Exception as e:
            verdicts.append((f"bylong: refused a valid factor: {errname(e)}", "other"))
            out.append(errname(e))
    case["_long"] = verdicts
    return out


def long_clause(case, ia):
    """first violated clause of a long case (by before to: a wrong block must not hide behind finding F3)"""
    if "_long" not in case:
        _call_long(case)  # the scratch entry is not serialised: a replayed / copied case is evaluated again
    v = case["_long"]
    for want_by in (True, False):
        for clause, dev in v:
            if clause and clause.startswith("bylong") == want_by:
                return clause, dev
    return None, "none"


# ------------------------------------------------------------------ impl / ops


def ref_kind_ts(ref):
    return ref["kind"] == "ts"


def isolated_growth(T):
    """frame-rate changes of the reference are isolated: a period longer than its predecessor (the long frame of a
    frame-rate change / the first frame of a slower rate) is not followed by a still longer one"""
    d = [b - a for a, b in zip(T, T[1:])]
    return all(not (d[j] > d[j - 1]) or d[j + 1] <= d[j] for j in range(1, len(d) - 1))


def freq_value(rep):
    """'int:<n>' -> Python int, anything else -> float (nan, inf, -inf, 0, -0.0, decimal literals)"""
    return int(rep[4:]) if rep.startswith("int:") else float(rep)


def _other_reduce(name):
    """a different reducer for the warm-up call on the same object (results must not depend on call history)"""
    return np.min if name == "max" else np.max


def _kw(case, **kw):
    """keyword arguments of a call; a case flagged `defaults` leaves out every argument whose value is the documented
    default (reduce=np.mean, where="center", method="safe")"""
    if case.get("defaults"):
        if case.get("reduce") == "mean":
            kw.pop("reduce", None)
        if kw.get("where") == "center":
            kw.pop("where", None)
        if kw.get("method") == "safe":
            kw.pop("method", None)
    return kw


def _rows(ts, seen):
    return "[" + ";".join(f"{int(t)}|" + ",".join(enc_val(v) for v in w) for t, w in zip(ts, seen)) + "]"


def _warm(fn):
    try:
        fn()
    except Exception:
        pass


def _call(case):
    """run the real code; returns the canonical answer strings.  Every measured call is preceded by the same call
    with a different reducer ON THE SAME OBJECT, so that a result remembered from an earlier call (keyed on less than
    all arguments) shows up as a wrong value here."""
    k = case["op"]
    if k in ("bylong", "tobylong"):
        return _call_long(case)
    if k == "over":
        s = build(case["src"])
        rl = case["ranges"]
        shape = case.get("ranges_shape", "list")
        if shape == "list":
            arg = [tuple(r) for r in rl]
        elif shape == "tuple":
            arg = tuple(tuple(r) for r in rl)
        elif shape == "array":
            arg = np.array(rl)
        else:
            raise ValueError(shape)
        _warm(lambda: s.downsampled_over(arg, reduce=_other_reduce(case["reduce"]), where=case["where"]))
        r = s.downsampled_over(arg, **_kw(case, reduce=np_reduce(case["reduce"]), where=case["where"]))
        out = ["ok " + show(r.timestamps, r.data)]
        if in_model(case):
            # reduce is an arbitrary callable: record what it is handed
            seen = []

            def recorder(x, axis=None):
                seen.append(np.array(x, dtype=float).ravel())
                return 0.0

            r2 = s.downsampled_over(arg, reduce=recorder, where=case["where"])
            out.append("ok " + _rows(r2.timestamps, seen) if len(seen) == len(r2.timestamps) else f"length-mismatch {len(seen)}")
        return out
    if k in ("to", "toby"):
        s = build(case["src"])
        out = []
        _warm(lambda: s.downsampled_to(case["freq"], reduce=_other_reduce(case["reduce"]), where=case["where"], method=case["method"]))
        if k == "toby":
            _warm(lambda: s.downsampled_by(case["k"], reduce=_other_reduce(case["reduce"])))
        try:
            r = s.downsampled_to(case["freq"], **_kw(case, reduce=np_reduce(case["reduce"]), where=case["where"], method=case["method"]))
            out.append("ok " + show(r.timestamps, r.data))
        except Exception as e:
            out.append(errname(e))
        if k == "toby":
            try:
                r = s.downsampled_by(case["k"], **_kw(case, reduce=np_reduce(case["reduce"])))
                out.append(f"ok {period_of(r)} " + show(r.timestamps, r.data))
            except Exception as e:
                out.append(errname(e))
        return out
    if k == "by":
        s = build(case["src"])
        _warm(lambda: s.downsampled_by(case["k"], reduce=_other_reduce(case["reduce"])))
        r = s.downsampled_by(case["k"], **_kw(case, reduce=np_reduce(case["reduce"])))
        out = [f"ok {period_of(r)} " + show_r(r)]
        seen = []

        def recorder2d(x, axis=None):
            x = np.array(x, dtype=float)
            seen.append((x, axis))
            return np.zeros(x.shape[0])

        s.downsampled_by(case["k"], reduce=recorder2d)
        if len(seen) == 1 and seen[0][0].ndim == 2 and seen[0][1] in (1, -1):
            out.append("ok [" + ";".join(",".join(enc_val(v) for v in row) for row in seen[0][0]) + "]")
        else:
            out.append(f"reduce-called {len(seen)} times / axis {[a for _, a in seen][:3]}")
        return out
    if k == "like":
        s = build(case["src"])
        ref = build(case["ref"])
        _warm(lambda: s.downsampled_like(ref, reduce=_other_reduce(case["reduce"])))
        out = []
        try:
            a, b = s.downsampled_like(ref, **_kw(case, reduce=np_reduce(case["reduce"])))
            out.append("ok " + show(a.timestamps, a.data) + " " + enc_list(b.timestamps))
        except Exception as e:
            out.append(errname(e))
        # the windows themselves: a reduce callable that records what it is handed (and never fails on an empty one)
        seen = []

        def recorder(x, axis=None):
            seen.append(np.array(x, dtype=float).ravel())
            return 0.0

        try:
            a, _ = s.downsampled_like(ref, reduce=recorder)
            ts = [int(t) for t in a.timestamps]
            if len(ts) != len(seen):
                out.append(f"length-mismatch {len(ts)} {len(seen)}")
            else:
                iso = "T" if ref_kind_ts(case["ref"]) and isolated_growth(case["ref"]["ts"]) else "F"
                out.append(f"ok {iso} [" + ";".join(f"{t}|" + ",".join(enc_val(v) for v in w) for t, w in zip(ts, seen)) + "]")
        except Exception as e:
            out.append(errname(e))
        return out if in_model(case) else out[:1]
    if k == "neg":
        r = -build(case["a"])
        return ["ok " + show_r(r)]
    if k == "arithbad":
        # an operand that is neither a channel nor a number
        a = build(case["a"])
        x = {"none": None, "list": [1.0] * len(case["a"]["vals"]), "dict": {}, "array": np.ones(len(case["a"]["vals"]))}[case["operand"]]
        f = {"add": lambda x, y: x + y, "sub": lambda x, y: x - y, "mul": lambda x, y: x * y, "div": lambda x, y: x / y}[case["operator"]]
        r = f(x, a) if case["reversed"] else f(a, x)
        return ["ok " + (show_r(r) if hasattr(r, "timestamps") else type(r).__name__)]
    if k == "ariths":
        a = build(case["a"])
        x = float(fr(case["x"]))
        if case.get("x_form") == "int" and x == int(x):
            x = int(x)
        f = {"add": lambda x, y: x + y, "sub": lambda x, y: x - y, "mul": lambda x, y: x * y, "div": lambda x, y: x / y}[case["operator"]]
        r = f(x, a) if case["reversed"] else f(a, x)
        return ["ok " + show_r(r)]
    if k == "arith3":
        a, b, c = build(case["a"]), build(case["b"]), build(case["c"])
        f1 = {"add": lambda x, y: x + y, "sub": lambda x, y: x - y, "mul": lambda x, y: x * y, "div": lambda x, y: x / y}[case["operator"]]
        f2 = {"add": lambda x, y: x + y, "sub": lambda x, y: x - y, "mul": lambda x, y: x * y, "div": lambda x, y: x / y}[case["operator2"]]
        r = f2(f1(a, b), c)
        return ["ok " + show_r(r)]
    if k == "step":
        # the conversion alone, in Python's own double arithmetic (the expression the code evaluates)
        fv = freq_value(case["freq_repr"])
        try:
            t = str(int(1e9 / fv))
        except Exception as e:
            t = errname(e)
        return [f"ok {t} {t}"]
    if k == "byby":
        s = build(case["src"])
        _warm(lambda: s.downsampled_by(case["k1"], reduce=_other_reduce(case["reduce"])).downsampled_by(case["k2"], reduce=_other_reduce(case["reduce"])))
        r = s.downsampled_by(case["k1"], reduce=np_reduce(case["reduce"])).downsampled_by(case["k2"], reduce=np_reduce(case["reduce"]))
        return [f"ok {period_of(r)} " + show(r.timestamps, r.data)]
    if k == "getitem":
        s = build(case["src"])
        r = s[case["lo"] : case["hi"]]
        return ["ok " + show(r.timestamps, r.data)]
    if k == "tofx":
        s = build(case["src"])
        r = s.downsampled_to(freq_value(case["freq_repr"]), reduce=np_reduce(case["reduce"]), where=case["where"], method=case["method"])
        return ["ok " + show(r.timestamps, r.data)]
    if k == "arith":
        # operands may have passed through a boolean mask first (`s[mask]`): arithmetic then sees their kept timestamps
        a = build_masked(case["a"], case.get("mask_a"))
        b = build_masked(case["b"], case.get("mask_b"))
        o = case["operator"]
        r = {"add": lambda: a + b, "sub": lambda: a - b, "mul": lambda: a * b, "div": lambda: a / b}[o]()
        return ["ok " + show_r(r)]
    raise ValueError(k)


def impl(case):
    with warnings.catch_warnings():
        warnings.simplefilter("ignore")
        try:
            return _call(case)
        except Exception as e:  # mapped to the small enum; compared with the model's error answer
            return [errname(e)]


def in_model(case):
    """inputs the model's input space can express"""
    if case["op"] == "over" and case.get("ranges_shape", "list") != "list":
        return False
    if case["op"] == "over" and any(len(r) != 2 for r in case["ranges"]):
        return False
    if case["op"] == "arithbad":
        return False
    for key in ("src", "ref", "a", "b"):
        if key in case and case[key]["kind"] == "tags":
            return False
    return True


def _tok(v, valid):
    """protocol token of a `where` / `method` argument: anything the documentation does not list is sent as `invalid`"""
    return v if v in valid else "invalid"


def ops(case):
    k = case["op"]
    if not in_model(case):
        return ["c04.outside-the-model"]
    if k == "over":
        rg = "[" + ";".join(f"{a},{b}" for a, b in case["ranges"]) + "]"
        return [
            f"c04.over {src_tokens(case['src'])} {case['reduce']} {_tok(case['where'], ('center', 'left'))} {rg}",
            f"c04.overwins {src_tokens(case['src'])} {_tok(case['where'], ('center', 'left'))} {rg}",
        ]
    if k in ("to", "toby"):
        # the model converts the frequency itself (targetOfFreq: the same IEEE division and truncation)
        out = [
            f"c04.tof {src_tokens(case['src'])} {case['reduce']} {_tok(case['where'], ('center', 'left'))} "
            f"{_tok(case['method'], ('safe', 'ceil', 'force'))} {enc_float(case['freq'])}"
        ]
        if k == "toby":
            out.append(f"c04.by {src_tokens(case['src'])} {case['reduce']} {case['k']}")
        return out
    if k == "by":
        return [f"c04.by {src_tokens(case['src'])} {case['reduce']} {case['k']}", f"c04.bywins {src_tokens(case['src'])} {case['k']}"]
    if k in ("bylong", "tobylong"):
        src = case["src"]
        wins = "[" + ";".join(f"{a},{b}" for a, b in long_windows(src["n"], case["k"])) + "]"
        if k == "bylong":
            return [f"c04.bywin {rule_tokens(src)} {red} {case['k']} {wins}" for red in case["reducers"]]
        exact = case["where"] == "center" and case["method"] in ("safe", "ceil", "force") and target_of(case["freq"]) == case["k"] * src["dt"]
        return [
            f"c04.towin {rule_tokens(src)} {case['reduce']} {case['k']} {wins}" if exact else "c04.outside-the-model",
            f"c04.bywin {rule_tokens(src)} {case['reduce']} {case['k']} {wins}",
        ]
    if k == "like":
        return [
            f"c04.likepw {src_tokens(case['src'])} {case['reduce']} {src_tokens(case['ref'])}",
            f"c04.likewins {src_tokens(case['src'])} {src_tokens(case['ref'])}",
        ]
    if k == "neg":
        return [f"c04.neg {src_tokens(case['a'])}"]
    if k == "ariths":
        x = fr(case["x"])
        return [f"c04.ariths {case['operator']} {1 if case['reversed'] else 0} {x.numerator}/{x.denominator} {src_tokens(case['a'])}"]
    if k == "arith3":
        return [f"c04.arith3 {case['operator']} {case['operator2']} {src_tokens(case['a'])} {src_tokens(case['b'])} {src_tokens(case['c'])}"]
    if k == "step":
        return [f"c04.step {enc_float(float(freq_value(case['freq_repr'])))}"]
    if k == "byby":
        return [f"c04.byby {src_tokens(case['src'])} {case['reduce']} {case['k1']} {case['k2']}"]
    if k == "getitem":
        return [f"c04.getitem {src_tokens(case['src'])} {case['lo']} {case['hi']}"]
    if k == "tofx":
        return [
            f"c04.tof {src_tokens(case['src'])} {case['reduce']} {_tok(case['where'], ('center', 'left'))} "
            f"{_tok(case['method'], ('safe', 'ceil', 'force'))} {enc_float(float(freq_value(case['freq_repr'])))}"
        ]
    if k == "arith":
        return [f"c04.arith {case['operator']} {src_tokens(masked(case['a'], case.get('mask_a')))} {src_tokens(masked(case['b'], case.get('mask_b')))}"]
    raise ValueError(k)


def split_answer(ans):
    """'ok <tokens…>' -> list of tokens after ok; error -> None"""
    if not ans.startswith("ok "):
        return None
    return ans[3:].split(" ")


def agree(case, i, ia, ma):
    if case["op"] == "step":
        ti, tm = ia.split(" "), ma.split(" ")
        if len(ti) != 3 or len(tm) != 3:
            return False
        # the exact model has no nan / inf / overflow (they have no rational value): only the double's answer counts there
        fv = freq_value(case["freq_repr"])
        no_rational = isinstance(fv, float) and not math.isfinite(fv) or not ti[2].lstrip("-").isdigit() or abs(int(ti[2])) >= 2**62
        return (ti[1] == tm[1] or tm[1] == "outside" and abs(int(ti[1])) >= 2**62) and (tm[2] == ti[2] or tm[2] == "outside" and no_rational)
    if not in_model(case):
        return True  # judged by the oracle only (documented refusal)
    if case["op"] == "tobylong" and ops(case)[i] == "c04.outside-the-model":
        return True
    ti, tm = split_answer(ia), split_answer(ma)
    if ti is None or tm is None:
        if case["op"] == "like" and ti is None and tm is not None and ia == "ValueError" and case["reduce"] in ("min", "max"):
            # numpy refuses min/max of an empty window; the model marks such windows with E
            return any(v == "E" for _, v in parse_samples(tm[0]))
        return ia == ma
    if len(ti) != len(tm):
        return False
    for a, b in zip(ti, tm):
        if a.startswith("[") and ":" in a or b.startswith("[") and ":" in b:
            xs, ys = parse_samples(a), parse_samples(b)
            if case["op"] == "like":
                # empty windows: numpy's answer (nan / 0) against the model's marker
                empty = {"mean": "nan", "median": "nan", "sum": Fraction(0)}.get(case["reduce"], "E")
                ys = [(t, empty if v == "E" else v) for t, v in ys]
            if not samples_close(xs, ys):
                return False
        elif a != b and a != "?":  # '?': an observation the public interface did not determine (period_of)
            return False
    return True


# ------------------------------------------------------------------ oracle (plain Python from the property text)


def window_sample(samples, a, b, reduce, where):
    w = [(t, v) for t, v in samples if a <= t < b]
    if not w:
        return None
    stamp = (w[0][0] + w[-1][0]) // 2 if where == "center" else a
    return stamp, py_reduce(reduce, [v for _, v in w])


def expected_over(src, ranges, reduce, where):
    span = src_span(src)
    if span is None:
        return []
    start, stop = span
    samples = src_samples(src)
    out = []
    for a, b in ranges:
        if a >= start and b <= stop:
            s = window_sample(samples, a, b, reduce, where)
            if s is not None:
                out.append(s)
    return out


def to_step(case):
    """('ok', step) or ('refuse', reason) by the documentation of downsampled_to"""
    src = case["src"]
    target = target_of(case["freq"])
    if case["method"] not in ("safe", "ceil", "force"):
        return "refuse", "unknown method"
    ts = [t for t, _ in src_samples(src)]
    steps = {src["dt"]} if src["kind"] == "cont" else {b - a for a, b in zip(ts, ts[1:])}
    if any(target < d for d in steps):
        return "refuse", "upsampling"
    if case["method"] == "force":
        return "ok", target
    if len(steps) > 1:
        return "refuse", "variable spacing without force"
    if not steps:
        return "refuse", "no timestep"
    d = next(iter(steps))
    rem = target % d
    if rem == 0:
        return "ok", target
    if case["method"] == "ceil":
        return "ok", target - rem
    return "refuse", "not a multiple (safe)"


def to_windows(case, step):
    start, stop = src_span(case["src"])
    w = []
    i = 0
    while start + (i + 1) * step <= stop:
        w.append((start + i * step, start + (i + 1) * step))
        i += 1
    return w


def oracle_to(case, ans):
    """returns (clause | None, deviation) with deviation in none|only_last_full_window_missing|other"""
    src = case["src"]
    if src_span(src) is None:
        return (None, "none") if ans in ("IndexError", "ValueError") else (f"to: data from an empty time series: {ans[:100]}", "other")
    if case["where"] not in ("center", "left"):
        return (None, "none") if ans == "ValueError" else (f"to: invalid where accepted: {ans[:100]}", "other")
    verdict, step = to_step(case)
    if verdict == "refuse":
        if ans in ("ValueError", "IndexError"):
            return None, "none"
        return f"to: {step} must be refused with ValueError, got {ans[:200]}", "other"
    if step <= 0:
        return (None, "none") if not ans.startswith("ok") else (f"to: non-positive step accepted: {ans[:100]}", "other")
    windows = to_windows(case, step)
    samples = src_samples(src)

    def render(ws):
        out = []
        for a, b in ws:
            s = window_sample(samples, a, b, case["reduce"], case["where"])
            if s is not None:
                out.append(s)
        return out

    exp = render(windows)
    toks = split_answer(ans)
    got = parse_samples(toks[0]) if toks is not None else None
    if got is not None and samples_close(got, exp):
        return None, "none"
    if got is None and ans == "ValueError" and not windows:
        return None, "none"  # no complete window at all: a refusal is as good as an empty result
    # deviation class: exactly the last complete window is missing, everything else is right
    less = render(windows[:-1]) if windows else None
    dev = "other"
    if less is not None:
        if got is not None and samples_close(got, less):
            dev = "only_last_full_window_missing"
        elif got is None and ans == "ValueError" and len(windows) == 1:
            dev = "only_last_full_window_missing"
    return (
        f"to: every window of {step} ns lying inside [start, stop) must be represented: expected {len(exp)} samples "
        f"{str([(t, str(v)) for t, v in exp])[:300]}, implementation returned {ans[:300]}",
        dev,
    )


def expected_by(case):
    src = case["src"]
    k = case["k"]
    samples = src_samples(src)
    out = []
    for i in range(len(samples) // k):
        a = src["start"] + i * k * src["dt"]
        out.append(window_sample(samples, a, a + k * src["dt"], case["reduce"], "center"))
    return out


def oracle_by(case, ans):
    src = case["src"]
    if src["kind"] != "cont":
        return None if ans == "NotImplementedError" else f"by: time series must be refused, got {ans[:100]}"
    if case["k"] <= 0:
        return None if not ans.startswith("ok") else f"by: factor {case['k']} accepted: {ans[:100]}"
    toks = split_answer(ans)
    if toks is None:
        return f"by: refused a valid factor: {ans}"
    exp = expected_by(case)
    if None in exp:
        return "harness-bug: empty block"
    if toks[0] not in ("?", str(src["dt"] * case["k"])):
        return f"by: period of the result is {toks[0]}, expected {src['dt'] * case['k']}"
    got = parse_samples(toks[1])
    if not samples_close(got, exp):
        return f"by: expected {len(exp)} blocks {str([(t, str(v)) for t, v in exp])[:300]}, got {toks[1][:300]}"
    return None


def oracle_byby(case, ans):
    """downsampled_by(k1) then downsampled_by(k2), stage by stage from the property text: every stage reduces exactly
    the samples of its input inside the window and stamps the midpoint of the first and last of them"""
    src, k1, k2 = case["src"], case["k1"], case["k2"]
    if src["kind"] != "cont":
        return None if ans == "NotImplementedError" else f"by-by: time series must be refused, got {ans[:100]}"
    if k1 <= 0 or k2 <= 0:
        return None if not ans.startswith("ok") else f"by-by: factor 0 accepted: {ans[:100]}"
    toks = split_answer(ans)
    if toks is None:
        return f"by-by: refused valid factors: {ans}"

    def stage(samples, k):
        out = []
        for i in range(len(samples) // k):
            blk = samples[i * k : (i + 1) * k]
            out.append(((blk[0][0] + blk[-1][0]) // 2, py_reduce(case["reduce"], [v for _, v in blk])))
        return out

    exp = stage(stage(src_samples(src), k1), k2)
    if toks[0] not in ("?", str(src["dt"] * k1 * k2)):
        return f"by-by: period of the result is {toks[0]}, expected {src['dt'] * k1 * k2}"
    got = parse_samples(toks[1])
    if not samples_close(got, exp):
        return f"by-by: expected {str([(t, str(v)) for t, v in exp])[:300]}, got {toks[1][:300]}"
    # the windows of the composition are the windows of downsampled_by(k1*k2): same timestamps, and for sum / min /
    # max / mean (equal blocks) the same values
    direct = stage(src_samples(src), k1 * k2)
    if [t for t, _ in direct] != [t for t, _ in got]:
        return f"by-by: timestamps {[t for t, _ in got][:20]} differ from those of downsampled_by({k1 * k2}) {[t for t, _ in direct][:20]}"
    if case["reduce"] != "median" and not samples_close(got, direct):
        return f"by-by: {case['reduce']} over blocks of blocks differs from downsampled_by({k1 * k2})"
    return None


def like_deltas(T):
    """window lengths by the documentation: the reference's own period before each sample; the first sample takes
    the first period; a period longer than its predecessor (the long frame at a frame-rate change) defaults to the
    period that follows it, when there is one"""
    d = [b - a for a, b in zip(T, T[1:])]
    fixed = list(d)
    for j in range(1, len(d)):
        if d[j] > d[j - 1] and j + 1 < len(d):
            fixed[j] = d[j + 1]
    return [fixed[0]] + fixed


def oracle_like(case, ans):
    """returns (clause | None, tags)"""
    src, ref = case["src"], case["ref"]
    tg = {}
    if ref["kind"] != "ts":
        return (None if ans == "TypeError" else f"like: reference of kind {ref['kind']} must be refused with TypeError, got {ans[:100]}"), tg
    if src["kind"] != "cont":
        return (None if ans == "NotImplementedError" else f"like: a {src['kind']} source must be refused, got {ans[:100]}"), tg
    toks = split_answer(ans)
    if toks is None:
        if ans in ("RuntimeError", "IndexError"):
            return None, tg
        if ans == "ValueError" and case["reduce"] in ("min", "max"):
            return None, tg  # numpy on an empty window
        return f"like: undocumented refusal {ans}", tg
    got = parse_samples(toks[0])
    refc = [int(x) for x in toks[1][1:-1].split(",")] if toks[1] != "[]" else []
    T = list(ref["ts"])
    if [t for t, _ in got] != refc:
        return f"like: the two returned channels carry different timestamps: {[t for t, _ in got][:20]} vs {refc[:20]}", tg
    # contiguous run of the reference's timestamps
    if not got:
        return "like: empty result returned as data", tg
    try:
        i0 = T.index(refc[0])
    except ValueError:
        return f"like: timestamp {refc[0]} is not a reference timestamp", tg
    if T[i0 : i0 + len(refc)] != refc:
        return f"like: returned timestamps are not a contiguous run of the reference's: {refc[:20]}", tg
    delta = like_deltas(T)
    samples = src_samples(src)
    start, stop = src_span(src)
    prev_end = None
    for n_, (t, v) in enumerate(got):
        j = i0 + n_
        a, b = t - delta[j], t
        w = [x for tt, x in samples if a <= tt < b]
        if w:
            e = py_reduce(case["reduce"], w)
            if not val_close(v, e):
                return f"like: sample at {t} is {v}, reduce over [{a}, {b}) gives {e}", tg
        else:
            okv = {"mean": "nan", "median": "nan", "sum": Fraction(0)}.get(case["reduce"], "no value")
            if v != okv:
                return f"like: sample at {t} is {v} but its window [{a}, {b}) holds no source sample", tg
        if case.get("ref_class", "regular") == "regular":
            if prev_end is not None and a < prev_end:
                return f"like: window [{a}, {b}) overlaps the previous one ending at {prev_end}", tg
            if a < start or b > stop:
                tg = {
                    "window_starts_before_source": a < start and b <= stop,
                    "first_returned_sample": n_ == 0,
                    "reference_period_grows": delta[j] > delta[0],
                }
                return f"like: window [{a}, {b}) of the sample at {t} does not lie within the source span [{start}, {stop})", tg
        prev_end = b
    return None, tg


def oracle_like_windows(case, ans):
    """the arrays downsampled_like hands to `reduce` (recorded by a callable): sample j of the result is computed from
    exactly the source samples in [T - delta, T), windows of isolated frame-rate changes are disjoint and inside the span"""
    toks = split_answer(ans)
    if toks is None:
        return None  # refusals are judged on the first answer
    src, T = case["src"], list(case["ref"]["ts"])
    body = toks[1][1:-1]
    rows = [r.split("|") for r in body.split(";")] if body else []
    samples = src_samples(src)
    start, stop = src_span(src)
    delta = like_deltas(T)
    iso = isolated_growth(T)
    prev_end = None
    for t, vals in rows:
        t = int(t)
        if t not in T:
            return f"like: window recorded for {t}, which is not a reference timestamp"
        j = T.index(t)
        a, b = t - delta[j], t
        exp = [x for tt, x in samples if a <= tt < b]
        got = [fr(v) for v in vals.split(",")] if vals else []
        if got != exp:
            return f"like: reduce was handed {str([str(v) for v in got])[:200]} for the sample at {t}; the source samples in [{a}, {b}) are {str([str(v) for v in exp])[:200]}"
        if iso:
            if prev_end is not None and a < prev_end:
                return f"like: window [{a}, {b}) overlaps the previous one ending at {prev_end} (isolated frame-rate changes)"
            if a < start or b > stop or a > b:
                return f"like: window [{a}, {b}) does not lie within the source span [{start}, {stop})"
            prev_end = b
    if iso:
        # every reference sample whose window lies inside the span is represented
        want = [t for t, d in zip(T, delta) if start <= t - d and t < stop]
        if [int(t) for t, _ in rows] != want:
            return f"like: reference samples with a window inside the span are {want[:20]}, returned {[int(t) for t, _ in rows][:20]}"
    return None


def oracle(case, ia):
    k = case["op"]
    ans = ia[0]
    if k in ("bylong", "tobylong"):
        return long_clause(case, ia)[0]
    if k == "over":
        src = case["src"]
        shape = case.get("ranges_shape", "list")
        ranges = case["ranges"]
        if shape != "list":
            return None if ans == "TypeError" else f"over: a range list that is not a list must be refused with TypeError, got {ans[:100]}"
        if len(ranges) == 0 or len(ranges[0]) != 2:
            return None if ans == "ValueError" else f"over: an empty/ill-shaped range list must be refused with ValueError, got {ans[:100]}"
        if any(len(r) != 2 for r in ranges):
            return None if not ans.startswith("ok") else f"over: ill-shaped row accepted: {ans[:100]}"
        span = src_span(src)
        toks = split_answer(ans)
        if toks is None:
            allowed = set()
            if span is None:
                allowed.add("IndexError")
            else:
                if span[0] >= ranges[-1][1] or span[1] <= ranges[0][0]:
                    allowed.add("RuntimeError")
                if case["where"] not in ("center", "left"):
                    allowed.add("ValueError")
            return None if ans in allowed else f"over: refusal {ans} is not one of the documented ones {sorted(allowed)} for this input"
        if case["where"] not in ("center", "left"):
            return f"over: invalid where accepted: {ans[:100]}"
        exp = expected_over(src, ranges, case["reduce"], case["where"])
        got = parse_samples(toks[0])
        if not samples_close(got, exp):
            return (
                f"over: expected one sample per window inside the span with data: {str([(t, str(v)) for t, v in exp])[:300]}, "
                f"implementation returned {toks[0][:300]}"
            )
        if len(ia) > 1 and ia[1].startswith("ok "):
            # what an arbitrary reduce callable is handed: exactly the source samples of every window inside the span
            samples = src_samples(src)
            want = []
            for a_, b_ in ranges:
                w = [(t, v) for t, v in samples if a_ <= t < b_]
                if a_ >= span[0] and b_ <= span[1] and w:
                    want.append(((w[0][0] + w[-1][0]) // 2 if case["where"] == "center" else a_, [v for _, v in w]))
            body = ia[1][3:][1:-1]
            rows = [r_.split("|") for r_ in body.split(";")] if body else []
            have = [(int(t), [fr(v) for v in vs.split(",")] if vs else []) for t, vs in rows]
            if have != want:
                return f"over: reduce was handed {str(have)[:300]}, the windows inside the span hold {str(want)[:300]}"
        elif len(ia) > 1:
            return f"over: the call with a recording reduce callable gave {ia[1][:100]}"
        return None
    if k == "to":
        return oracle_to(case, ans)[0]
    if k == "by":
        c1 = oracle_by(case, ans)
        if c1 or len(ia) < 2 or not ans.startswith("ok"):
            return c1
        if not ia[1].startswith("ok "):
            return f"by: the call with a recording reduce callable gave {ia[1][:100]}"
        vals = [fr(v) for v in case["src"]["vals"]]
        kk = case["k"]
        want = [vals[i * kk : (i + 1) * kk] for i in range(len(vals) // kk)]
        body = ia[1][3:][1:-1]
        have = [[fr(v) for v in row.split(",")] for row in body.split(";")] if body else []
        if have != want:
            return f"by: reduce(axis=1) was handed rows {str(have)[:300]}, the consecutive blocks are {str(want)[:300]}"
        return None
    if k == "toby":
        c1 = oracle_to(case, ia[0])[0]
        if c1:
            return c1
        c2 = oracle_by(case, ia[1])
        if c2:
            return c2
        t1, t2 = split_answer(ia[0]), split_answer(ia[1])
        if t1 is not None and t2 is not None:
            if not samples_close(parse_samples(t1[0]), parse_samples(t2[1])):
                return f"to-vs-by: downsampled_to(f_s/{case['k']}) returned {t1[0][:200]} but downsampled_by({case['k']}) returned {t2[1][:200]}"
        return None
    if k == "like":
        c1 = oracle_like(case, ans)[0]
        if c1 or len(ia) < 2:
            return c1
        return oracle_like_windows(case, ia[1])
    if k in ("neg", "ariths", "arith3"):
        f = {o: (lambda x, y, o=o: x_op(o, x, y)) for o in ("add", "sub", "mul", "div")}
        sa = src_samples(case["a"])
        toks = split_answer(ans)
        if k == "arith3":
            sb, sc = src_samples(case["b"]), src_samples(case["c"])
            same = [t for t, _ in sa] == [t for t, _ in sb] == [t for t, _ in sc]
            if not same:
                return None if ans == "RuntimeError" else f"arith: different timestamps must be refused with RuntimeError, got {ans[:100]}"
            if toks is None:
                return f"arith: identical timestamps refused with {ans}"
            exp = [(t, f[case["operator2"]](f[case["operator"]](x, y), z)) for (t, x), (_, y), (_, z) in zip(sa, sb, sc)]
        else:
            if toks is None:
                return f"arith: {k} refused with {ans}"
            if k == "neg":
                exp = [(t, -x) for t, x in sa]
            else:
                s_ = fr(case["x"])
                exp = [(t, f[case["operator"]](s_, x) if case["reversed"] else f[case["operator"]](x, s_)) for t, x in sa]
        if not samples_close(parse_samples(toks[0]), exp):
            return f"arith ({k}): expected element-wise on the same timestamps {str([(t, str(v)) for t, v in exp])[:300]}, got {toks[0][:300]}"
        return None
    if k == "step":
        # the documented conversion Hz -> ns: a positive finite frequency f gives the whole number of nanoseconds in 1/f
        fv = freq_value(case["freq_repr"])
        t = ans.split(" ")[1]
        if isinstance(fv, float) and not math.isfinite(fv) or fv == 0:
            return None
        if fv > 0 and t.isdigit():
            exact = Fraction(10**9) / Fraction(fv)
            if abs(int(t) - exact) > 1 + exact / 2**52:
                return f"step: int(1e9 / {fv!r}) = {t}, the period is {float(exact)!r} ns"
        return None
    if k == "byby":
        return oracle_byby(case, ans)
    if k == "getitem":
        toks = split_answer(ans)
        if toks is None:
            return f"getitem: self[{case['lo']}:{case['hi']}] with integer bounds refused: {ans[:100]}"
        exp = [(t, v) for t, v in src_samples(case["src"]) if case["lo"] <= t < case["hi"]]
        if not samples_close(parse_samples(toks[0]), exp):
            return f"getitem: self[{case['lo']}:{case['hi']}] must hold exactly the samples with a <= t < b: expected {str([(t, str(v)) for t, v in exp])[:300]}, got {toks[0][:300]}"
        return None
    if k == "tofx":
        rep = case["freq_repr"]
        fv = freq_value(rep)
        bad = fv == 0 or fv < 0 or (isinstance(fv, float) and not math.isfinite(fv))
        if not bad and not math.isfinite(1e9 / float(fv)):
            bad = True
        if bad:
            return None if not ans.startswith("ok") else f"to: frequency {rep} accepted: {ans[:100]}"
        return oracle_to(dict(case, freq=float(fv)), ans)[0]
    if k == "arithbad":
        return None if ans == "TypeError" else f"arith: an operand that is neither a channel nor a number ({case['operand']}) must be refused with TypeError, got {ans[:100]}"
    if k == "arith":
        a, b = case["a"], case["b"]
        if "tags" in (a["kind"], b["kind"]):
            return None if ans == "NotImplementedError" else f"arith: time tags must be refused, got {ans[:100]}"
        sa, sb = src_samples(masked(a, case.get("mask_a"))), src_samples(masked(b, case.get("mask_b")))
        same = [t for t, _ in sa] == [t for t, _ in sb]
        toks = split_answer(ans)
        if not same:
            return None if ans == "RuntimeError" else f"arith: different timestamps must be refused with RuntimeError, got {ans[:100]}"
        if toks is None:
            return f"arith: identical timestamps refused with {ans}"
        exp = [(t, x_op(case["operator"], x, y)) for (t, x), (_, y) in zip(sa, sb)]
        if not samples_close(parse_samples(toks[0]), exp):
            return f"arith: expected element-wise {case['operator']} on the same timestamps {str([(t, str(v)) for t, v in exp])[:300]}, got {toks[0][:300]}"
        return None
    return None


def _xsign(v):
    return 1 if v == "inf" else -1 if v == "-inf" else (v > 0) - (v < 0)


def _xinf(sign):
    return "nan" if sign == 0 else "inf" if sign > 0 else "-inf"


def x_op(name, x, y):
    """one sample of `x <name> y` as element-wise array arithmetic defines it (IEEE): operands and result are exact
    Fractions or 'inf' / '-inf' / 'nan'.  x / 0 is the infinity with the sign of x, 0 / 0 is nan (a zero divisor is
    +0.0: sources are built from Fractions), and the non-finite values propagate through later operators."""
    if x == "nan" or y == "nan":
        return "nan"
    xi, yi = isinstance(x, str), isinstance(y, str)
    if name == "sub":
        name, y = "add", ({"inf": "-inf", "-inf": "inf"}[y] if yi else -y)
    if name == "add":
        if xi and yi:
            return x if x == y else "nan"
        return x if xi else y if yi else x + y
    if name == "mul":
        return _xinf(_xsign(x) * _xsign(y)) if xi or yi else x * y
    if name == "div":
        if xi and yi:
            return "nan"
        if yi:
            return Fraction(0)
        if xi:
            return _xinf(_xsign(x) * (-1 if y < 0 else 1))
        return _xinf(_xsign(x)) if y == 0 else x / y
    raise ValueError(name)


def zero_divisions(case):
    """number of samples of an arithmetic case whose divisor is zero (coverage)"""
    k = case["op"]
    z = lambda src: sum(1 for v in src["vals"] if fr(v) == 0)
    if k == "arith":
        return z(masked(case["b"], case.get("mask_b"))) if case["operator"] == "div" else 0
    if k == "ariths":
        if case["operator"] != "div":
            return 0
        return z(case["a"]) if case["reversed"] else (len(case["a"]["vals"]) if fr(case["x"]) == 0 else 0)
    if k == "arith3":
        return (z(case["b"]) if case["operator"] == "div" else 0) + (z(case["c"]) if case["operator2"] == "div" else 0)
    return 0


def nontrivial(case, ia):
    k = case["op"]
    if case.get("stream") == "malformed":
        return not ia[0].startswith("ok")
    toks = split_answer(ia[0])
    if toks is None:
        return False
    if k in ("bylong", "tobylong"):
        return case["k"] >= 2 and case["src"]["n"] >= case["k"]
    if k in ("over", "to", "toby", "like"):
        got = parse_samples(toks[0])
        n_src = len(case["src"]["vals"])
        return len(got) >= 1 and n_src >= 2 * 1 and n_src > len(got)
    if k == "by":
        return case["k"] >= 2 and len(parse_samples(toks[1])) >= 1
    if k in ("arith", "neg", "ariths", "arith3"):
        return len(parse_samples(toks[0])) >= 1
    if k == "step":
        return toks[0].isdigit() and int(toks[0]) >= 1
    if k == "byby":
        return case["k1"] >= 2 and case["k2"] >= 2 and len(parse_samples(toks[1])) >= 1
    if k == "getitem":
        got = len(parse_samples(toks[0]))
        return 1 <= got < len(case["src"]["vals"])
    if k == "tofx":
        return len(parse_samples(toks[0])) >= 1
    return False


def tags(case, r):
    t = {"op": case["op"]}
    k = case["op"]
    if k == "tofx":
        fv = freq_value(case["freq_repr"])
        if fv > 0 and math.isfinite(fv):  # an ordinary frequency given as a Python int: the input class of "to"
            return tags(dict(case, op="to", freq=float(fv)), r)
        return t
    if k == "tobylong":
        clause, dev = long_clause(case, r["impl"])
        src = case["src"]
        step = target_of(case["freq"])
        t.update({"op": "to", "kind": "cont", "span_multiple_of_step": step > 0 and (src["n"] * src["dt"]) % step == 0,
                  "deviation": dev if clause is None or clause.startswith("to") else "other"})
        return t
    if k in ("to", "toby") and in_model(case):
        src = case["src"]
        t["op"] = "to"
        t["kind"] = src["kind"]
        span = src_span(src)
        verdict, step = to_step(case) if span is not None and case["where"] in ("center", "left") else ("refuse", None)
        if verdict == "ok" and step > 0:
            t["span_multiple_of_step"] = (span[1] - span[0]) % step == 0
            t["deviation"] = oracle_to(case, r["impl"][0])[1]
            if k == "toby" and t["deviation"] == "none" and r["clause"]:
                t["deviation"] = "other"
        else:
            t["span_multiple_of_step"] = False
            t["deviation"] = "other" if r["clause"] else "none"
    if k == "like" and in_model(case):
        t.update(oracle_like(case, r["impl"][0])[1])
    return t


# ------------------------------------------------------------------ shrinking


def _shrink_src(src):
    n = len(src["vals"])
    if n > 1:
        for m in (n // 2, n - 1):
            s = dict(src)
            s["vals"] = src["vals"][:m]
            if src["kind"] != "cont":
                s["ts"] = src["ts"][:m]
            yield s
        s = dict(src)
        s["vals"] = src["vals"][1:]
        if src["kind"] == "cont":
            s["start"] = src["start"] + src["dt"]
        else:
            s["ts"] = src["ts"][1:]
        yield s
    if any(fr(v) != i for i, v in enumerate(src["vals"])):
        s = dict(src)
        s["vals"] = list(range(n))
        yield s


def failure_class(case):
    """(failed?, clause kind, known-finding tags) of a case on the implementation alone; shrinking stays inside the
    class so that an unknown failure can never be minimised into the input class of a known finding"""
    import json

    ia = impl(case)
    clause = oracle(case, ia)
    t = tags(case, {"impl": ia, "clause": clause})
    return bool(clause), (clause.split(":")[0] if clause else None), json.dumps(t, sort_keys=True)


def _candidates(case):
    k = case["op"]
    for key in ("src", "ref", "a", "b"):
        if key in case:
            for s in _shrink_src(case[key]):
                c = dict(case)
                c[key] = s
                if k == "arith" and key == "a":
                    continue
                yield c
    if k in ("arith", "arith3"):
        keys = [key for key in ("a", "b", "c") if key in case]
        n = len(case["a"]["vals"])
        if n > 1 and all(len(case[key]["vals"]) == n for key in keys):
            # the same positions of every operand (shrinking one operand alone turns the case into a refusal)
            for lo, hi in ((0, n // 2), (n // 2, n), (1, n), (0, n - 1)):
                c = dict(case)
                for key in keys:
                    src = dict(case[key])
                    src["vals"] = src["vals"][lo:hi]
                    if src["kind"] == "cont":
                        src["start"] = src["start"] + lo * src["dt"]
                    else:
                        src["ts"] = src["ts"][lo:hi]
                    c[key] = src
                for key in ("mask_a", "mask_b"):
                    if case.get(key) is not None:
                        c[key] = case[key][lo:hi]
                yield c
        for key in ("mask_a", "mask_b"):
            if case.get(key) is not None and not all(case[key]):
                yield dict(case, **{key: [1] * len(case[key])})
    if k == "over" and len(case["ranges"]) > 1:
        for i in range(len(case["ranges"])):
            c = dict(case)
            c["ranges"] = case["ranges"][:i] + case["ranges"][i + 1 :]
            yield c
    if case.get("reduce") not in (None, "sum"):
        c = dict(case)
        c["reduce"] = "sum"
        yield c


IDENTITY_RULE = [1, 0, 1, 1 << 40, 0, 1]  # sample i = i


def _shrink_long(case):
    """one reducer, the rule `sample i = i`, then the smallest failing length by bisection (every step runs the
    implementation on a long input, so the search is done here once and a single candidate is offered)"""
    if case.get("_shrunk"):
        return
    want = failure_class(case)
    if not want[0]:
        return

    def variant(c, **src_changes):
        d = {k: v for k, v in c.items() if not str(k).startswith("_")}
        d["src"] = dict(c["src"], **src_changes)
        return d

    cur = variant(case)
    if case["op"] == "bylong" and len(case["reducers"]) > 1:
        for red in case["reducers"]:
            c = dict(cur, reducers=[red])
            if failure_class(c) == want:
                cur = c
                break
    c = variant(cur, rule=list(IDENTITY_RULE))
    if failure_class(c) == want:
        cur = c
    lo, hi = 0, cur["src"]["n"]
    while hi - lo > 1:
        mid = (lo + hi) // 2
        if failure_class(variant(cur, n=mid)) == want:
            hi = mid
        else:
            lo = mid
    cur = variant(cur, n=hi)
    cur["_shrunk"] = True
    yield cur


def shrink(case):
    if case["op"] in ("bylong", "tobylong"):
        yield from _shrink_long(case)
        return
    want = failure_class(case)
    for c in _candidates(case):
        if not want[0]:
            yield c  # correspondence-only disagreement: common.shrink_case keeps "still disagrees"
        elif failure_class(c) == want:
            yield c


# ------------------------------------------------------------------ generators


def cont(start, dt, vals):
    return {"kind": "cont", "start": start, "dt": dt, "vals": list(vals)}


def tser(ts, vals):
    return {"kind": "ts", "ts": list(ts), "vals": list(vals)}


def rand_vals(rng, n):
    style = rng.randint(0, 3)
    if style == 0:
        return list(range(n))
    if style == 1:
        return [rng.randint(-50, 50) for _ in range(n)]
    if style == 2:
        return [rng.randint(0, 5) for _ in range(n)]
    return [f"{rng.randint(-400, 400)}/8" if rng.chance(0.5) else rng.randint(-50, 50) for _ in range(n)]


def rand_cont(rng, nmax=40):
    n = rng.randint(0, nmax) if rng.chance(0.9) else rng.randint(0, 400)
    dt = rng.choice([1, 2, 3, 7, 10, 12800, rng.randint(1, 10**6)])
    start = rng.choice([0, 1000, rng.randint(0, 2**40), rng.randint(2**60, 2**61)])
    return cont(start, dt, rand_vals(rng, n))


def rand_ts(rng, nmax=40, regular=None):
    n = rng.randint(0, nmax)
    t = rng.choice([0, 10**9, rng.randint(0, 2**60)])
    if regular is None:
        regular = rng.chance(0.3)
    base = rng.choice([1, 2, 5, 1000, 12800])
    ts = []
    for _ in range(n):
        ts.append(t)
        t += base if regular else rng.choice([1, base, base, 2 * base, rng.randint(1, 5 * base)])
    return tser(ts, rand_vals(rng, n))


def freq_for(step):
    """a frequency whose documented conversion int(1e9 / f) is exactly `step` (None when none is found)"""
    for f in (1e9 / step, float(np.nextafter(1e9 / step, 0)), float(np.nextafter(1e9 / step, np.inf)), 1e9 / (step + 0.5)):
        if f > 0 and math.isfinite(f) and int(1e9 / f) == step:
            return f
    return None


def boundary_points(src, rng):
    span = src_span(src)
    if span is None:
        return [0, 1, 5]
    start, stop = span
    ts = [t for t, _ in src_samples(src)]
    dt = src.get("dt", 1)
    pts = [start, stop, start - 1, stop + 1, start + 1, stop - 1, start - dt, stop + dt]
    for _ in range(6):
        if ts:
            t = rng.choice(ts)
            pts += [t, t + 1, t - 1, t + dt]
    return pts


def ordered_ranges(rng, src, nr):
    """windows ordered in time (non-decreasing starts and stops), possibly empty/inverted/overlapping the ends"""
    pts = boundary_points(src, rng)
    span = src_span(src) or (0, 10)
    width = max(span[1] - span[0], 1)
    edges = sorted(rng.choice(pts) if rng.chance(0.7) else rng.randint(span[0] - width // 4 - 2, span[1] + width // 4 + 2) for _ in range(nr + 1))
    style = rng.randint(0, 2)
    out = []
    if style == 0:  # consecutive
        out = [[a, b] for a, b in zip(edges, edges[1:])]
    elif style == 1:  # with gaps / overlaps
        for a, b in zip(edges, edges[1:]):
            out.append([a, b + rng.choice([0, 0, -1, 1, -(b - a) // 2])])
        for i in range(1, len(out)):
            out[i][1] = max(out[i][1], out[i - 1][1])
    else:  # fixed width frames with dead time
        w = max(1, (edges[-1] - edges[0]) // (nr + 1))
        dead = rng.randint(0, w)
        out = [[edges[0] + i * (w + dead), edges[0] + i * (w + dead) + w] for i in range(nr)]
    return out


def ref_with_rate_change(rng, lo, hi):
    """strictly increasing reference timestamps: constant period, or one frame-rate change (either direction), with or
    without one long frame in between"""
    p1 = rng.choice([4, 10, 16, 50, 1000, rng.randint(2, 200)])
    n1 = rng.randint(2, 12)
    t = rng.randint(lo - 3 * p1, lo + 3 * p1)
    T = []
    for _ in range(n1):
        T.append(t)
        t += p1
    t -= p1
    if rng.chance(0.6):
        p2 = rng.choice([p1 * 2, p1 * 3, max(1, p1 // 2), max(1, p1 // 3), rng.randint(1, 3 * p1)])
        long_frame = rng.choice([0, 0, rng.randint(1, 3 * max(p1, p2))])
        n2 = rng.randint(3, 10)
        t += max(p1, p2) + long_frame if long_frame else p2
        for _ in range(n2):
            T.append(t)
            t += p2
    return T


def small_cont_sources(quick):
    out = []
    for n in (range(0, 5) if quick else range(0, 7)):
        for dt in ((1, 3) if quick else (1, 2, 3)):
            out.append(cont(7, dt, list(range(1, n + 1))))
    return out


def window_starts_sorted(T):
    """the window starts T - delta (delta repaired the way downsampled_like does) are non-decreasing"""
    d = [b - a for a, b in zip(T, T[1:])]
    if not d:
        return True
    cps = [i for i in range(len(d) - 1) if d[i + 1] - d[i] > 0]
    for i in cps:
        if i + 2 < len(d):
            d[i + 1] = d[i + 2]
        else:
            break
    d = [d[0]] + d
    s = [t - x for t, x in zip(T, d)]
    return all(a <= b for a, b in zip(s, s[1:]))


def coprime10(k):
    """the nearest factor >= k that shares no divisor with 10: no round buffer size (2^a * 5^b) is a multiple of it"""
    while k % 2 == 0 or k % 5 == 0:
        k += 1
    return k


def rand_rule(rng, rich=False):
    if not rich and rng.chance(0.15):
        return list(IDENTITY_RULE)
    m = rng.choice([1 << 20, 1000003] if rich else [1 << 20, 1000003, 4093, 256, 7])
    a = rng.choice([3, 2654435, rng.randint(1, 1 << 22) | 1] + ([] if rich else [1]))
    b = rng.choice([0, 0, 31337, rng.randint(1, 1 << 16)])
    w = rng.choice([1, 977, rng.randint(2, 5000)])
    return [a, b, w, m, rng.choice([0, m // 2]), rng.choice([1, 1, 8])]


def rule_src(rng, n, rich=False):
    start = rng.choice([0, 1592916040906356300, rng.randint(0, 2**60)])
    dt = rng.choice([1, 3, 12800, 12800, rng.randint(1, 10**5)])
    return {"kind": "rule", "start": start, "dt": dt, "n": n, "rule": rand_rule(rng, rich)}


def by_long_case(rng, base_len, k, few_blocks_beyond, n_reducers, rich=False):
    """a channel a little longer than the round length `base_len`"""
    if few_blocks_beyond:  # at least one whole block lies beyond the round length
        extra = rng.choice([k, k + 1, 2 * k - 1, 2 * k, 3 * k + 1, rng.randint(k, 64 * k)])
    else:
        extra = rng.choice([0, 1, k - 1, k, k + 1, 2 * k, rng.randint(0, max(1, base_len // 4))])
    reducers = list(REDUCERS)
    rng.shuffle(reducers)
    return {"stream": "long", "op": "bylong", "src": rule_src(rng, base_len + extra, rich), "k": k, "reducers": reducers[:n_reducers]}


def toby_long_case(rng, base_len):
    """to(f_s/k) against by(k) on a long channel; k is large so that downsampled_to's Python loop stays short"""
    kmin = max(2, -(-base_len // 1500))
    k = rng.randint(kmin, 2 * kmin)
    if rng.chance(0.7):
        k = coprime10(k)
    n = base_len + rng.choice([0, 1, k - 1, k, k + 1, rng.randint(0, 3 * k)])
    if rng.chance(0.2):
        n -= n % k  # a whole number of blocks: the input class of finding F3
    for _ in range(20):
        src = rule_src(rng, n)
        f = freq_for(k * src["dt"])
        if f is not None:
            return {"stream": "long", "op": "tobylong", "src": src, "k": k, "reduce": rng.choice(REDUCERS),
                    "where": "center" if rng.chance(0.8) else "left", "method": rng.choice(["safe", "ceil", "force"]), "freq": f}
    return None


def long_cases(tier, rng):
    """long recordings (stream "long"): lengths a little beyond round sizes, up to 2^23 (quick) / 2^24 (thorough)"""
    r = rng.fork("c04-long")
    if tier == "quick":
        k = coprime10(r.choice([3, 7, 9, 11, 13, 21, 33, 77, 101, 999, r.randint(3, 400)]))
        yield by_long_case(r, 1 << 23, k, True, 5, rich=True)
        p = r.randint(10, 21)
        yield by_long_case(r, r.choice([1, 1, 2, 3]) << p, r.choice([1, 2, 3, 4, 5, 7, 8, 10, 16, 100, r.randint(1, 300)]), False, 2)
        c = toby_long_case(r, 1 << r.randint(16, 22))
        if c:
            yield c
        return
    for p in range(10, 25):
        for few in (True, False):
            j = r.choice([1, 1, 2, 3]) if p <= 22 else 1
            k = coprime10(r.randint(3, 400)) if few else r.choice([1, 2, 3, 4, 5, 7, 8, 10, 16, 100, r.randint(1, 300), r.randint(300, max(300, min(1 << 16, 1 << (p - 2))))])
            yield by_long_case(r, j << p, k, few, r.randint(2, 5), rich=few)
    for base in (10**4, 10**5, 10**6, 5 * 10**6, r.randint(1 << 16, 1 << 23), r.randint(1 << 16, 1 << 23)):
        yield by_long_case(r, base, coprime10(r.randint(3, 400)), True, 3, rich=True)
    for p in range(12, 24):
        c = toby_long_case(r, 1 << p)
        if c:
            yield c


def cases(tier, rng):
    """every second small-scope / random case of a downsampling method is called with its default arguments left out
    (reduce=np.mean, where="center", method="safe" are then the library's defaults, not values passed by the harness)"""
    n = 0
    for c in _cases(tier, rng):
        if c.get("stream") in ("small-scope", "random") and c["op"] in ("over", "to", "toby", "by", "like"):
            n += 1
            if n % 2 == 0:
                c["defaults"] = True
        yield c


def _cases(tier, rng):
    quick = tier == "quick"
    r_random = rng.fork("c04-random")  # drawn first: the random stream of a seed does not depend on the other streams
    # ---- corpus: finding inputs and minimised past disagreements
    c20 = cont(100, 10, list(range(20)))
    yield {"stream": "corpus", "op": "toby", "src": c20, "reduce": "mean", "where": "center", "method": "safe", "freq": 1e9 / 50, "k": 5}
    yield {"stream": "corpus", "op": "to", "src": cont(100, 10, list(range(5))), "reduce": "mean", "where": "center", "method": "safe", "freq": 1e9 / 50}
    yield {"stream": "corpus", "op": "to", "src": tser([0, 1, 2, 3], [0, 1, 2, 3]), "reduce": "mean", "where": "center", "method": "force", "freq": 1e9 / 2}
    yield {"stream": "corpus", "op": "to", "src": tser([0, 3, 5], [0, 1, 2]), "reduce": "sum", "where": "left", "method": "force", "freq": 1e9 / 6}
    yield {"stream": "corpus", "op": "toby", "src": cont(100, 10, list(range(23))), "reduce": "mean", "where": "center", "method": "safe", "freq": 1e9 / 50, "k": 5}
    yield {"stream": "corpus", "op": "like", "src": cont(65, 5, list(range(20))), "ref": tser([0, 10, 20, 50, 80, 110], list(range(6))), "reduce": "mean"}
    yield {"stream": "corpus", "op": "like", "src": cont(0, 2, [1, 1, 2, 2, 3, 3, 4, 4, 5, 5, 5, 5, 5, 5, 6, 6, 6, 7, 7, 7, 8, 8, 8, 9, 9, 9]),
           "ref": tser([0, 4, 8, 12, 16, 34, 40, 46, 50, 54], [0, 1, 2, 3, 4, 6, 7, 8, 9, 10]), "reduce": "mean"}

    # reference whose period grows twice in a row (10, 20, 30, 30): the repaired windows overlap (like_overlap_witness);
    # correspondence and value clauses only
    yield {"stream": "corpus", "op": "like", "src": cont(0, 5, list(range(20))), "ref": tser([0, 10, 30, 60, 90], list(range(5))), "reduce": "sum", "ref_class": "arbitrary"}

    # ---- malformed stream (documented refusals, never data)
    c8 = cont(100, 10, list(range(8)))
    t8 = tser([100, 110, 125, 130, 150, 155, 170, 180], list(range(8)))
    tags = {"kind": "tags", "ts": [100, 110, 120], "vals": [0, 0, 0]}
    mal = [
        {"op": "over", "src": c8, "reduce": "mean", "where": "center", "ranges": [[100, 120]], "ranges_shape": "tuple"},
        {"op": "over", "src": c8, "reduce": "mean", "where": "center", "ranges": [[100, 120]], "ranges_shape": "array"},
        {"op": "over", "src": c8, "reduce": "mean", "where": "center", "ranges": []},
        {"op": "over", "src": c8, "reduce": "mean", "where": "center", "ranges": [[100, 120, 130]]},
        {"op": "over", "src": c8, "reduce": "mean", "where": "center", "ranges": [[100]]},
        {"op": "over", "src": c8, "reduce": "mean", "where": "right", "ranges": [[100, 120]]},
        {"op": "over", "src": c8, "reduce": "mean", "where": "right", "ranges": [[0, 50]]},
        {"op": "over", "src": c8, "reduce": "mean", "where": "", "ranges": [[100, 120]]},
        {"op": "over", "src": c8, "reduce": "mean", "where": "center", "ranges": [[0, 100]]},
        {"op": "over", "src": c8, "reduce": "mean", "where": "center", "ranges": [[180, 1000]]},
        {"op": "over", "src": t8, "reduce": "mean", "where": "left", "ranges": [[181, 1000]]},
        {"op": "over", "src": tser([], []), "reduce": "mean", "where": "center", "ranges": [[0, 10]]},
        {"op": "to", "src": c8, "reduce": "mean", "where": "center", "method": "fast", "freq": 1e9 / 20},
        {"op": "to", "src": c8, "reduce": "mean", "where": "centre", "method": "safe", "freq": 1e9 / 20},
        {"op": "to", "src": c8, "reduce": "mean", "where": "center", "method": "safe", "freq": 1e9 / 5},
        {"op": "to", "src": c8, "reduce": "mean", "where": "center", "method": "ceil", "freq": 1e9 / 9},
        {"op": "to", "src": c8, "reduce": "mean", "where": "center", "method": "force", "freq": 1e9 / 9},
        {"op": "to", "src": c8, "reduce": "mean", "where": "center", "method": "safe", "freq": 1e9 / 25},
        {"op": "to", "src": t8, "reduce": "mean", "where": "center", "method": "safe", "freq": 1e9 / 40},
        {"op": "to", "src": t8, "reduce": "mean", "where": "center", "method": "ceil", "freq": 1e9 / 40},
        {"op": "to", "src": t8, "reduce": "mean", "where": "center", "method": "force", "freq": 1e9 / 10},
        {"op": "to", "src": tser([], []), "reduce": "mean", "where": "center", "method": "force", "freq": 1e9 / 10},
        {"op": "to", "src": tser([5], [1]), "reduce": "mean", "where": "center", "method": "safe", "freq": 1e9 / 10},
        {"op": "to", "src": tser([5], [1]), "reduce": "mean", "where": "center", "method": "force", "freq": 1e9 / 10},
        {"op": "by", "src": t8, "reduce": "mean", "k": 2},
        {"op": "by", "src": c8, "reduce": "mean", "k": 0},
        {"op": "byby", "src": c8, "reduce": "mean", "k1": 2, "k2": 0},
        {"op": "byby", "src": c8, "reduce": "mean", "k1": 0, "k2": 2},
        {"op": "byby", "src": t8, "reduce": "mean", "k1": 2, "k2": 2},
        {"op": "like", "src": c8, "ref": c8, "reduce": "mean"},
        {"op": "like", "src": t8, "ref": t8, "reduce": "mean"},
        {"op": "like", "src": c8, "ref": tags, "reduce": "mean"},
        {"op": "like", "src": c8, "ref": tser([120], [0]), "reduce": "mean"},
        {"op": "like", "src": c8, "ref": tser([], []), "reduce": "mean"},
        {"op": "like", "src": c8, "ref": tser([300, 320, 340], [0, 1, 2]), "reduce": "mean"},
        {"op": "like", "src": c8, "ref": tser([0, 20, 40], [0, 1, 2]), "reduce": "mean"},
        {"op": "like", "src": c8, "ref": tser([60, 130, 200], [0, 1, 2]), "reduce": "mean"},
        {"op": "arith", "operator": "add", "a": c8, "b": tags},
        {"op": "arith", "operator": "add", "a": c8, "b": cont(100, 10, list(range(7)))},
        {"op": "arith", "operator": "mul", "a": c8, "b": cont(101, 10, list(range(8)))},
        {"op": "arith", "operator": "sub", "a": t8, "b": c8},
        {"op": "arith", "operator": "div", "a": c8, "b": cont(100, 11, list(range(1, 9)))},
        {"op": "by", "src": tags, "reduce": "mean", "k": 2},
        {"op": "arith", "operator": "add", "a": c8, "b": c8, "mask_a": [1, 1, 0, 1, 1, 1, 1, 1], "mask_b": [1, 1, 1, 0, 1, 1, 1, 1]},
        {"op": "arith", "operator": "div", "a": c8, "b": t8, "mask_a": [1] * 8, "mask_b": [1] * 7 + [0]},
    ]
    for operand in ("none", "list", "dict", "array"):
        for o_ in ("add", "sub", "mul", "div"):
            for rev in (False, True):
                if not (rev and operand == "array"):  # ndarray <op> channel is numpy's own broadcasting, not the channel's
                    mal.append({"op": "arithbad", "operator": o_, "reversed": rev, "operand": operand, "a": c8 if o_ != "mul" else t8})
    for rep in ("0", "-0.0", "nan", "inf", "-inf", "-2e7", "int:0", "int:-5", "1e300", "5e-324"):
        for src_ in (c8, t8):
            mal.append({"op": "tofx", "src": src_, "reduce": "mean", "where": "center", "method": "force", "freq_repr": rep})
    for m in mal:
        m = dict(m)
        m["stream"] = "malformed"
        yield m

    # ---- long recordings
    yield from long_cases(tier, rng)

    # ---- exhaustive small scope
    # by / to / to-vs-by on continuous channels
    nmax, kmax = (9, 4) if quick else (12, 5)
    idx = 0
    for n in range(0, nmax + 1):
        for k in range(1, kmax + 1):
            for dt in ((1, 3) if quick else (1, 2, 3)):
                src = cont(7, dt, [((3 * i * i + i) % 11) - 4 for i in range(n)])
                for red in REDUCERS:
                    idx += 1
                    if red not in ("mean", "median") and idx % 3:
                        continue
                    yield {"stream": "small-scope", "op": "by", "src": src, "reduce": red, "k": k}
                    f = freq_for(k * dt)
                    if f is None:
                        continue
                    for where in ("center", "left"):
                        if where == "center":
                            yield {"stream": "small-scope", "op": "toby", "src": src, "reduce": red, "where": where, "method": "safe", "freq": f, "k": k}
                        else:
                            yield {"stream": "small-scope", "op": "to", "src": src, "reduce": red, "where": where, "method": "safe", "freq": f}
    # non-divisors: safe / ceil / force
    for n in (5, 8, 9):
        for dt in (2, 3):
            src = cont(7, dt, list(range(n)))
            for step in range(1, 4 * dt + 2):
                f = freq_for(step)
                if f is None:
                    continue
                for method in ("safe", "ceil", "force"):
                    yield {"stream": "small-scope", "op": "to", "src": src, "reduce": "mean", "where": "center", "method": method, "freq": f}
    # small irregular time series, force, every step
    for ts in ([3], [3, 4], [3, 5, 6], [3, 5, 6, 10], [0, 1, 2, 3], [0, 2, 4, 6, 8], [0, 2, 4, 6, 8, 9], [1, 2, 4, 8, 16]):
        src = tser(ts, list(range(len(ts))))
        for step in range(1, ts[-1] - ts[0] + 4):
            f = freq_for(step)
            if f is None:
                continue
            for method in ("force", "safe"):
                yield {"stream": "small-scope", "op": "to", "src": src, "reduce": "sum", "where": "left", "method": method, "freq": f}
    # over: every list of <= 2 windows (thorough: also 3 windows on a coarser grid) with edges in [start-2, stop+2]
    over_sources = [cont(7, 1, [1, 2, 3]), cont(7, 3, [1, 2, 3]), cont(7, 2, []), tser([3, 5, 6], [1, 2, 4]), tser([5], [1])]
    if not quick:
        over_sources += [cont(7, 2, [1, 2, 3, 4]), tser([3, 5, 5, 9], [1, 2, 4, 8]), tser([0, 1, 2, 3, 10], [1, 2, 3, 4, 5])]
    for src in over_sources:
        span = src_span(src)
        edges = list(range(span[0] - 2, span[1] + 3))
        wins = list(itertools.product(edges, edges))
        for w in wins:
            for where in ("center", "left"):
                yield {"stream": "small-scope", "op": "over", "src": src, "reduce": "mean", "where": where, "ranges": [list(w)]}
        stride = 5 if quick else 1
        for i, (w1, w2) in enumerate(itertools.product(wins, wins)):
            if i % stride:
                continue
            yield {"stream": "small-scope", "op": "over", "src": src, "reduce": "sum", "where": "center" if i % 2 else "left", "ranges": [list(w1), list(w2)]}
    if not quick:
        for src in (cont(7, 2, [1, 2, 3]), tser([3, 5, 6], [1, 2, 4])):
            span = src_span(src)
            edges = list(range(span[0] - 2, span[1] + 3, 2))
            wins = list(itertools.product(edges, edges))
            for i, ws in enumerate(itertools.product(wins, repeat=3)):
                yield {"stream": "small-scope", "op": "over", "src": src, "reduce": "median", "where": "center" if i % 2 else "left", "ranges": [list(w) for w in ws]}
    # the Hz -> ns conversion alone: every period s <= 300 (quick) / 3000 from the frequencies 1e9/s, its two neighbours,
    # 1e9/(s + 1/2), the integer frequencies round(1e9/s) +- 1, and the periods of real recordings
    periods = list(range(1, 301 if quick else 3001)) + [12800, 64000, 12800 * 7, 10**6, 10**9, 2**40 + 1, 10**15 + 3, 2**53 - 1, 2**53 + 2, 2**61]
    for s_ in periods:
        fs = [1e9 / s_, float(np.nextafter(1e9 / s_, 0)), float(np.nextafter(1e9 / s_, np.inf)), 1e9 / (s_ + 0.5)]
        reps = [repr(f_) for f_ in fs if f_ > 0]
        if 10**9 // s_ >= 1:
            reps += [f"int:{10**9 // s_}", f"int:{10**9 // s_ + 1}"]
        for rep in reps:
            yield {"stream": "small-scope", "op": "step", "freq_repr": rep}
    for rep in ("0", "-0.0", "nan", "inf", "-inf", "-2e7", "int:0", "int:-5", "1e300", "5e-324", "1e-12", "3e-10", "0.3", "1e9", "1000000000.0000001", "2e9", "int:3", "int:7"):
        yield {"stream": "small-scope", "op": "step", "freq_repr": rep}
    # downsampled_by twice: every n <= 14 (quick 12), k1, k2 <= 4
    idx = 0
    for n in range(0, 13 if quick else 15):
        for k1 in range(1, 5):
            for k2 in range(1, 5):
                for dt in (1, 3):
                    idx += 1
                    src = cont(7, dt, [((5 * i * i + 2 * i) % 13) - 5 for i in range(n)])
                    yield {"stream": "small-scope", "op": "byby", "src": src, "reduce": REDUCERS[idx % 5], "k1": k1, "k2": k2}
    # self[a:b] inside the loops: every pair of integer bounds in [start-2, stop+2] (theorem getitem_samples)
    gi_sources = [cont(7, 1, [1, 2, 3]), cont(7, 3, [1, 2, 3, 4]), cont(7, 2, []), tser([3, 5, 6], [1, 2, 4]), tser([5], [1]), tser([3, 5, 5, 9], [1, 2, 4, 8]), tser([], [])]
    for src in gi_sources:
        span = src_span(src) or (0, 2)
        edges = list(range(span[0] - 2, span[1] + 3))
        for a_, b_ in itertools.product(edges, edges):
            yield {"stream": "small-scope", "op": "getitem", "src": src, "lo": a_, "hi": b_}
    # frequencies given as Python ints (1e9/f exact or truncated), every method
    for fq in (10**9, 5 * 10**8, 3 * 10**8, 25 * 10**7, 2 * 10**8, 10**8, 7 * 10**7, 5 * 10**7):
        for src in (cont(7, 1, list(range(11))), cont(7, 2, list(range(9))), cont(7, 5, list(range(7))), tser([0, 2, 4, 6, 8, 9, 15, 31], list(range(8)))):
            for method in ("safe", "ceil", "force"):
                yield {"stream": "small-scope", "op": "tofx", "src": src, "reduce": "sum", "where": "left" if fq % 3 else "center", "method": method, "freq_repr": f"int:{fq}"}
    # like: references with every combination of 4 periods from {2, 3, 5} (81 period patterns: constant, isolated
    # changes, double growth with sorted window starts) at three offsets: windows handed to reduce (c04.likewins)
    for pat in itertools.product((2, 3, 5), repeat=4):
        for off in (14, 20, 23):
            T = [off]
            for p_ in pat:
                T.append(T[-1] + p_)
            if not window_starts_sorted(T):
                continue
            cls = "regular" if isolated_growth(T) else "arbitrary"
            if quick and (sum(pat) + off) % 2:
                continue
            yield {"stream": "small-scope", "op": "like", "src": cont(20, 1, list(range(1, 13))), "ref": tser(T, list(range(5))), "reduce": "sum", "ref_class": cls}
    # like: constant-rate references of period p at every offset against small continuous channels
    for n in ((6, 9) if quick else (4, 6, 9, 12)):
        for dt in (1, 2, 3):
            src = cont(20, dt, list(range(1, n + 1)))
            for p in ((2, 4) if quick else (2, 3, 4, 6)):
                for off in range(20 - 3 * p, 20 + n * dt + 2):
                    for m in (2, 3, 6):
                        T = [off + i * p for i in range(m)]
                        yield {"stream": "small-scope", "op": "like", "src": src, "ref": tser(T, list(range(m))), "reduce": "mean" if (off + m) % 2 else "sum"}
    # arithmetic on all kind pairs
    for op in ("add", "sub", "mul", "div"):
        for n in (0, 1, 3):
            a = cont(10, 5, list(range(1, n + 1)))
            b = cont(10, 5, [2 * i + 1 for i in range(n)])
            ta = tser([10 + 5 * i for i in range(n)], a["vals"])
            tb = tser([10 + 5 * i for i in range(n)], b["vals"])
            for x, y in ((a, b), (a, tb), (ta, b), (ta, tb)):
                yield {"stream": "small-scope", "op": "arith", "operator": op, "a": x, "b": y}
            # same single timestamp, different period; shifted; one sample fewer
            yield {"stream": "small-scope", "op": "arith", "operator": op, "a": a, "b": cont(10, 7, b["vals"])}
            yield {"stream": "small-scope", "op": "arith", "operator": op, "a": a, "b": cont(11, 5, b["vals"])}
            yield {"stream": "small-scope", "op": "arith", "operator": op, "a": ta, "b": tser([11 + 5 * i for i in range(n)], b["vals"])}
            if n:
                yield {"stream": "small-scope", "op": "arith", "operator": op, "a": a, "b": cont(10, 5, b["vals"][:-1])}
                yield {"stream": "small-scope", "op": "arith", "operator": op, "a": ta, "b": tser(tb["ts"][:-1] + [tb["ts"][-1] + 1], tb["vals"])}

    # negation, scalar operands (both sides, int and float scalars), chains of two operators
    for n in (0, 1, 3):
        a = cont(10, 5, [2 * i - 1 for i in range(n)])
        ta = tser([10 + 7 * i * i for i in range(n)], [3 * i + 1 for i in range(n)])
        for x_ in (a, ta):
            yield {"stream": "small-scope", "op": "neg", "a": x_}
            for op in ("add", "sub", "mul", "div"):
                for rev in (False, True):
                    if op == "div" and rev and x_ is a and n:
                        continue  # would divide by a zero-free channel only: a's values are odd, fine; keep ta as well
                    for sc, form in ((3, "int"), ("-5/2", "float"), (1, "float")):
                        yield {"stream": "small-scope", "op": "ariths", "operator": op, "reversed": rev, "x": sc, "x_form": form, "a": x_}
        b = cont(10, 5, [i + 2 for i in range(n)])
        c_same = tser([10 + 5 * i for i in range(n)], [i * i + 1 for i in range(n)])
        c_shift = cont(10, 6, [1] * n)
        for op1 in ("add", "sub", "mul", "div"):
            for op2 in ("add", "sub", "mul", "div"):
                yield {"stream": "small-scope", "op": "arith3", "operator": op1, "operator2": op2, "a": a, "b": b, "c": c_same}
                yield {"stream": "small-scope", "op": "arith3", "operator": op1, "operator2": op2, "a": a, "b": b, "c": c_shift}
                yield {"stream": "small-scope", "op": "arith3", "operator": op1, "operator2": op2, "a": a, "b": c_shift, "c": b}

    # division where the divisor holds zeros (photon counts): every pair of two-sample channels over {-1, 0, 2}, both
    # channel kinds, float and integer storage; scalars 0 on either side; chains through which inf / nan propagate
    zs = [-1, 0, 2]
    pairs2 = [[x, y] for x in zs for y in zs]
    for va in pairs2:
        for vb in pairs2:
            for kind_i in range(2 if quick else 4):
                mk = (lambda v: cont(10, 5, v)) if kind_i % 2 == 0 else (lambda v: tser([10, 17], v))
                a_, b_ = mk(va), mk(vb)
                if (kind_i + va[0] + vb[1]) % 2:
                    a_, b_ = dict(a_, dtype="int"), dict(b_, dtype="int")
                yield {"stream": "small-scope", "op": "arith", "operator": "div", "a": a_, "b": b_}
    for va in ([0], [0, 0, 0], [-3, 0, 4, 0, "1/2"], [0, 1, 0, -1, 0, 0, 7]):
        for x_ in (cont(10, 5, va), tser([10 + 3 * i * i for i in range(len(va))], va), dict(cont(10, 5, va), dtype="int")):
            for op in ("add", "sub", "mul", "div"):
                for rev in (False, True):
                    for sc, form in ((0, "int"), (0, "float"), (-2, "int"), ("3/2", "float")):
                        yield {"stream": "small-scope", "op": "ariths", "operator": op, "reversed": rev, "x": sc, "x_form": form, "a": x_}
    # operands that went through a boolean mask first: every pair of masks on three samples
    for kind_i, (A, B) in enumerate(((cont(10, 5, [1, -2, 0]), cont(10, 5, [4, 0, 0])), (tser([3, 4, 9], [1, -2, 0]), tser([3, 4, 9], [4, 0, 0])))):
        for ma in range(8):
            for mb in range(8):
                yield {"stream": "small-scope", "op": "arith", "operator": ("div", "add", "sub", "mul")[(ma + mb + kind_i) % 4 if ma != mb else 0], "a": A, "b": B,
                       "mask_a": [(ma >> j) & 1 for j in range(3)], "mask_b": [(mb >> j) & 1 for j in range(3)]}
    a6 = [1, -1, 0, 2, -2, 0]
    b6 = [0, 0, 0, 1, 0, -4]
    c6 = [0, -1, 2, 0, 0, 0]
    for op1 in ("add", "sub", "mul", "div"):
        for op2 in ("add", "sub", "mul", "div"):
            for j, (u, v, w) in enumerate(((a6, b6, c6), (b6, c6, a6), (c6, a6, b6))):
                A = cont(50, 4, u)
                B = tser([50 + 4 * i for i in range(6)], v) if j % 2 else cont(50, 4, v)
                C = dict(cont(50, 4, w), dtype="int") if j == 2 else tser([50 + 4 * i for i in range(6)], w)
                yield {"stream": "small-scope", "op": "arith3", "operator": op1, "operator2": op2, "a": A, "b": B, "c": C}

    # ---- random
    N = 4000 if quick else 150000
    r = r_random
    for i in range(N):
        sub = r.fork(i)
        kind = sub.choice(["over", "over", "to", "to", "toby", "by", "like", "like", "like-arbitrary", "arith", "getitem", "tof-any", "byby", "step"])
        red = sub.choice(REDUCERS)
        where = sub.choice(["center", "left"])
        base = {"stream": "random", "subseed": i}
        if kind == "over":
            src = rand_cont(sub) if sub.chance(0.5) else rand_ts(sub)
            if src_span(src) is None:
                continue
            base.update({"op": "over", "src": src, "reduce": red, "where": where, "ranges": ordered_ranges(sub, src, sub.randint(1, 6))})
        elif kind == "to":
            if sub.chance(0.5):
                src = rand_cont(sub)
                dt = src["dt"]
                n = len(src["vals"])
                k = sub.choice([1, 2, 3, 5, max(1, n // 2), max(1, n), sub.randint(1, max(1, n))])
                step = k * dt if sub.chance(0.6) else k * dt + sub.randint(-dt, dt)
                method = sub.choice(["safe", "ceil", "ceil", "force"])
            else:
                src = rand_ts(sub)
                ts = src["ts"]
                if len(ts) < 2:
                    continue
                span = ts[-1] + 1 - ts[0]
                maxd = max(b - a for a, b in zip(ts, ts[1:]))
                step = sub.choice([maxd, maxd + 1, 2 * maxd, span, max(1, span // 2), max(1, span // 3), sub.randint(1, span + 2)])
                method = sub.choice(["force", "force", "force", "safe", "ceil"])
            f = freq_for(max(step, 1))
            if f is None:
                continue
            base.update({"op": "to", "src": src, "reduce": red, "where": where, "method": method, "freq": f})
        elif kind == "step":
            fq = sub.loguniform(1e-6, 1e12)
            if sub.chance(0.3):
                fq = float(sub.randint(1, 10**9))
            if sub.chance(0.1):
                fq = -fq
            yield {"stream": "random", "subseed": i, "op": "step", "freq_repr": repr(fq)}
            continue
        elif kind == "byby":
            src = rand_cont(sub, nmax=60)
            n = len(src["vals"])
            k1 = sub.choice([1, 2, 3, 4, 5, 7, sub.randint(1, max(1, n // 2))])
            k2 = sub.choice([1, 2, 3, 4, 5, max(1, n // k1), max(1, n // k1) + 1, sub.randint(1, max(1, n // k1))])
            base.update({"op": "byby", "src": src, "reduce": red, "k1": k1, "k2": k2})
        elif kind == "getitem":
            src = rand_cont(sub) if sub.chance(0.5) else rand_ts(sub)
            pts = boundary_points(src, sub)
            base.update({"op": "getitem", "src": src, "lo": sub.choice(pts), "hi": sub.choice(pts)})
        elif kind == "tof-any":
            # any frequency (no search for one whose conversion hits an intended step): the model converts it itself
            src = rand_cont(sub, nmax=30) if sub.chance(0.6) else rand_ts(sub, nmax=20)
            span = src_span(src)
            if span is None or span[1] - span[0] < 2:
                continue
            width = span[1] - span[0]
            if sub.chance(0.5):
                fq = sub.randint(max(1, 10**9 // (width + 2)), 10**9)
                tgt = int(1e9 / fq)
                rep = f"int:{fq}"
            else:
                fq = 1e9 / sub.uniform(max(1.0, src.get("dt", 1) * 0.9), width + 2.0)
                tgt = int(1e9 / fq)
                rep = repr(fq)
            if tgt > 0 and width % tgt == 0 and sub.chance(0.9):
                continue  # mostly stay out of the input class of the known finding F3
            base.update({"op": "tofx", "src": src, "reduce": red, "where": where, "method": sub.choice(["force", "force", "ceil", "safe"]), "freq_repr": rep})
        elif kind == "toby":
            src = rand_cont(sub)
            n = len(src["vals"])
            k = sub.choice([1, 2, 3, 4, 5, 7, max(1, n // 2), max(1, n // 3), max(1, n), n + 1])
            f = freq_for(k * src["dt"])
            if f is None:
                continue
            base.update({"op": "toby", "src": src, "reduce": red, "where": "center", "method": sub.choice(["safe", "ceil", "force"]), "freq": f, "k": k})
        elif kind == "by":
            src = rand_cont(sub)
            n = len(src["vals"])
            base.update({"op": "by", "src": src, "reduce": red, "k": sub.choice([1, 2, 3, 4, 5, 7, max(1, n // 2), max(1, n), n + 1, sub.randint(1, n + 2)])})
        elif kind in ("like", "like-arbitrary"):
            n = sub.randint(1, 60)
            dt = sub.choice([1, 2, 3, 5])
            start = sub.choice([0, 100, sub.randint(0, 2**40)])
            src = cont(start, dt, rand_vals(sub, n))
            if kind == "like":
                T = ref_with_rate_change(sub, 0, n * dt)
                T = [start + t for t in T]
                cls = "regular"
            else:
                t = start + sub.randint(-20, n * dt)
                T = []
                for _ in range(sub.randint(2, 12)):
                    T.append(t)
                    t += sub.randint(1, 4 * dt + 10)
                cls = "arbitrary"
                if not window_starts_sorted(T):
                    # np.searchsorted on the (unsorted) window starts is unspecified: outside the tie
                    continue
            base.update({"op": "like", "src": src, "ref": tser(T, list(range(len(T)))), "reduce": red, "ref_class": cls})
        else:
            n = sub.randint(0, 30)
            op = sub.choice(["add", "sub", "mul", "div"])
            va = rand_vals(sub, n)
            vb = rand_vals(sub, n)
            counts = sub.chance(0.35)  # photon-count like operands: mostly zeros, small integers (some signed)
            if counts:
                sgn = sub.choice([1, 1, -1])
                va = [sub.choice([0, 0, 1, 2, sgn * sub.randint(1, 9)]) for _ in range(n)]
                vb = [sub.choice([0, 0, 0, 1, sgn * sub.randint(1, 3)]) for _ in range(n)]
            int_store = counts and sub.chance(0.5)
            if sub.chance(0.5):
                a = rand_cont(sub)
                a["vals"] = va
                b = cont(a["start"], a["dt"], vb)
                a_ts = [a["start"] + j * a["dt"] for j in range(n)]
            else:
                a = rand_ts(sub, regular=False)
                a["ts"] = a["ts"][:n]
                n = len(a["ts"])
                a["vals"], vb = va[:n], vb[:n]
                a_ts = a["ts"]
                b = tser(a_ts, vb)
            if sub.chance(0.4):
                b = tser(a_ts, vb) if b["kind"] == "cont" else b
            mut = sub.randint(0, 5)
            if mut == 0 and n:
                j = sub.randint(0, n - 1)
                tsb = list(a_ts)
                tsb[j] += 1 if j == n - 1 or tsb[j] + 1 < tsb[j + 1] else 0
                b = tser(tsb, vb)
            elif mut == 1 and n:
                b = tser(a_ts[:-1], vb[:-1])
            elif mut == 2 and b["kind"] == "cont":
                b = cont(b["start"] + sub.choice([1, -1, b["dt"]]), b["dt"], vb)
            base.update({"op": "arith", "operator": op, "a": a, "b": b})
            if sub.chance(0.15) and len(a["vals"]) == len(b["vals"]):
                m_ = [int(sub.chance(0.7)) for _ in a["vals"]]
                m2 = list(m_)
                if m2 and sub.chance(0.3):
                    j_ = sub.randint(0, len(m2) - 1)
                    m2[j_] = 1 - m2[j_]
                base.update({"mask_a": m_, "mask_b": m2})
            form = sub.randint(0, 5)
            if form == 0:
                base = {"stream": "random", "subseed": i, "op": "neg", "a": a}
            elif form == 1:
                xs = sub.choice([2, -3, "7/4", "-1/8", 10, 0])
                base = {"stream": "random", "subseed": i, "op": "ariths", "operator": op, "reversed": sub.chance(0.5), "x": xs,
                        "x_form": sub.choice(["int", "float"]), "a": a}
            elif form == 2 and mut > 2:
                vc = rand_vals(sub, len(a["vals"])) if not counts else [sub.choice([0, 0, 1, -2, 3]) for _ in a["vals"]]
                c3 = tser(a_ts, vc) if sub.chance(0.5) or a["kind"] != "cont" else cont(a["start"], a["dt"], vc)
                if sub.chance(0.25) and a_ts:
                    c3 = tser(a_ts[:-1] + [a_ts[-1] + 1], vc)
                base.update({"op": "arith3", "operator2": sub.choice(["add", "sub", "mul", "div"]), "c": c3})
                base.pop("mask_a", None)
                base.pop("mask_b", None)
            if int_store:
                for key in ("a", "b", "c"):
                    if key in base:
                        base[key] = dict(base[key], dtype="int")
        yield base


def extra_coverage(results):
    kinds, errs, sizes, reducers, methods, streams_err = {}, {}, {"0": 0, "1-10": 0, "11-100": 0, ">100": 0}, {}, {}, {}
    outside = 0
    f3 = 0
    sizes[f">{LONG}"] = 0
    longest = 0
    for r in results:
        c = r["case"]
        if c["op"] == "step":
            kinds["step"] = kinds.get("step", 0) + 1
            continue
        key = c["op"] + "/" + (c.get("src") or c.get("a"))["kind"]
        kinds[key] = kinds.get(key, 0) + 1
        a = r["impl"][0]
        if not a.startswith("ok"):
            errs[a] = errs.get(a, 0) + 1
        n = src_len(c.get("src") or c.get("a"))
        longest = max(longest, n)
        sizes["0" if n == 0 else "1-10" if n <= 10 else "11-100" if n <= 100 else ">100" if n <= LONG else f">{LONG}"] += 1
        for red in [c["reduce"]] if "reduce" in c else c.get("reducers", []):
            reducers[red] = reducers.get(red, 0) + 1
        if "method" in c:
            methods[c["method"]] = methods.get(c["method"], 0) + 1
        if not in_model(c):
            outside += 1
        if c["op"] in ("to", "toby", "tobylong") and r["clause"]:
            f3 += 1
    like_cls = {"isolated frame-rate changes": 0, "period grows twice in a row": 0, "refused": 0}
    like_windows = {"recorded": 0, "empty": 0, "one sample": 0, "several samples": 0}
    freq_forms = {}
    getitem_sizes = {"empty result": 0, "part of the source": 0, "whole source": 0}
    for r in results:
        c = r["case"]
        if c["op"] == "like" and len(r["impl"]) > 1:
            toks = split_answer(r["impl"][1])
            if toks is None:
                like_cls["refused"] += 1
            else:
                like_cls["isolated frame-rate changes" if toks[0] == "T" else "period grows twice in a row"] += 1
                body = toks[1][1:-1]
                for row in (body.split(";") if body else []):
                    vals = row.split("|")[1]
                    nv = len(vals.split(",")) if vals else 0
                    like_windows["recorded"] += 1
                    like_windows["empty" if nv == 0 else "one sample" if nv == 1 else "several samples"] += 1
        if c["op"] == "tofx":
            rep = c["freq_repr"]
            form = "python int" if rep.startswith("int:") else "float"
            a0 = r["impl"][0]
            key = form + " -> " + ("ok" if a0.startswith("ok") else a0)
            freq_forms[key] = freq_forms.get(key, 0) + 1
        if c["op"] == "getitem":
            toks = split_answer(r["impl"][0])
            if toks is not None:
                g = len(parse_samples(toks[0]))
                n = len(c["src"]["vals"])
                getitem_sizes["empty result" if g == 0 else "whole source" if g == n else "part of the source"] += 1
    zero_div = {"arithmetic cases": 0, "with a zero divisor": 0, "samples divided by zero": 0, "inf results": 0, "nan results": 0,
                "integer-stored operands": 0}
    for r in results:
        c = r["case"]
        if c["op"] in ("arith", "ariths", "arith3", "neg"):
            zero_div["arithmetic cases"] += 1
            zero_div["integer-stored operands"] += c["a"].get("dtype") == "int"
            toks = split_answer(r["impl"][0])
            if toks is not None:
                z = zero_divisions(c)
                zero_div["with a zero divisor"] += z > 0
                zero_div["samples divided by zero"] += z
                vals = [v for _, v in parse_samples(toks[0])]
                zero_div["inf results"] += sum(1 for v in vals if v in ("inf", "-inf"))
                zero_div["nan results"] += sum(1 for v in vals if v == "nan")
    defaults_used = {"reduce": 0, "where": 0, "method": 0}
    for r in results:
        c = r["case"]
        if c.get("defaults"):
            defaults_used["reduce"] += c.get("reduce") == "mean"
            defaults_used["where"] += c.get("where") == "center"
            defaults_used["method"] += c.get("method") == "safe"
    return {
        "calls_with_a_default_argument_left_out": defaults_used,
        "like_reference_classes (flag printed by the model = IsolatedGrowth)": like_cls,
        "like_windows_handed_to_reduce": like_windows,
        "frequency_forms_converted_by_the_model": freq_forms,
        "getitem_results": getitem_sizes,
        "division_by_zero (x/0 = +-inf, 0/0 = nan, element-wise)": zero_div,
        "case_kinds": kinds,
        "error_kinds": errs,
        "source_sizes": sizes,
        "longest_source": longest,
        "reducers": reducers,
        "to_methods": methods,
        "cases_outside_the_model_input_space (oracle only)": outside,
        "downsampled_to_cases_with_an_oracle_failure (expected: finding F3 only)": f3,
        "exhaustive": False,
        "exhaustive_note": "the small-scope stream enumerates its finite space completely; the random streams do not",
    }
