"""How much of the ANCHORED pylake code did this run's correspondence actually execute?

The tie between the Lean model and /repo is sampled (DESIGN §1).  This module measures the sample from the code's side:
while `common.evaluate` runs the implementation, every executed line of the files that properties.jsonl anchors for the
property is recorded (sys.monitoring, Python >= 3.12; each line location reports once and is then disabled, so the cost
is a few per cent).  The evidence gets, per anchored file, executed / executable lines, and per anchored *function*
(the function enclosing an `anchors.mechanism[].where` / `anchors.state[].where` line) the list of lines that no case
reached.  A line no case executes is a line where a breaking change cannot be seen by the correspondence: the lists are
what generator work is steered by.  It is a measurement of the tie, not a proof and not a verdict: it never fails a run.
"""
import ast
import json
import os
import sys

_TOOL = 1  # sys.monitoring.COVERAGE_ID
_state = {"on": False, "hits": {}, "wanted": {}}


def _anchors(verif, prop):
    for line in open(os.path.join(verif, "properties.jsonl")):
        p = json.loads(line)
        if p["id"] == prop:
            a = p["anchors"]
            items = list(a.get("mechanism", [])) + list(a.get("state", []))
            return list(a.get("files", [])), [(m.get("where", ""), m.get("name", "")) for m in items]
    return [], []


def resolve(funcs, rel, where):
    """The functions of file `rel` that the anchors point at.  Anchor line numbers were taken at the pinned commit and
    drift with every fix, so a function is anchored when (a) it contains the anchor line, or starts within 6 lines of
    it, or (b) its qualified name (`Class.func`) or bare name occurs as a word in the anchor's `name` text.
    funcs: [(qualname, first line incl. decorators, last line, def line)] -> subset, in file order."""
    import re

    chosen = set()
    for w, name in where:
        r, _, ln = w.rpartition(":")
        if r != rel:
            continue
        if ln.isdigit():
            ln = int(ln)
            inside = [f for f in funcs if f[1] <= ln <= f[2]]
            # an anchor that has drifted onto the last lines of the PREVIOUS function (fix: commits add lines) means the next one
            drifted = inside and (max(inside, key=lambda t: t[1])[2] - ln) <= 3 and any(0 < g[3] - ln <= 6 for g in funcs)
            if inside and not drifted:
                chosen.add(max(inside, key=lambda t: t[1]))
            for f in funcs:
                if abs(f[3] - ln) <= 6:
                    chosen.add(f)
        words = set(re.findall(r"[A-Za-z_][A-Za-z_0-9]*(?:\.[A-Za-z_][A-Za-z_0-9]*)*", name))
        bare = set()
        for wd in words:
            bare.add(wd)
            if "." in wd:
                bare.add(wd.split(".")[-1])
        for f in funcs:
            q = f[0]
            if q in words or any(q.endswith("." + wd) for wd in words if "." in wd):
                chosen.add(f)
            elif q.split(".")[-1] in bare and len(q.split(".")[-1]) >= 5 and not q.split(".")[-1].startswith("__"):
                chosen.add(f)
    return sorted(chosen, key=lambda t: t[1])


def start(verif, repo, prop):
    mon = getattr(sys, "monitoring", None)
    if mon is None or os.environ.get("VERIF_ANCHORCOV", "1") == "0":
        return False
    files, where = _anchors(verif, prop)
    wanted = {}
    for f in files:
        p = os.path.realpath(os.path.join(repo, f))
        if os.path.exists(p):
            wanted[p] = f
    if not wanted:
        return False
    hits = {p: set() for p in wanted}
    try:
        mon.use_tool_id(_TOOL, "verif-anchorcov")
    except ValueError:
        return False

    def on_line(code, line):
        h = hits.get(code.co_filename)
        if h is None:
            h = hits.get(os.path.realpath(code.co_filename))
        if h is not None:
            h.add(line)
        return mon.DISABLE

    # LOCAL events on the code objects of the anchored modules only: a global LINE event costs a callback for every line
    # of every library the case touches (measured: 3x the run time of C18), local events cost nothing elsewhere.
    import importlib
    import types

    codes = []
    seen = set()

    def add_code(c):
        if id(c) in seen or not isinstance(c, types.CodeType):
            return
        seen.add(id(c))
        if os.path.realpath(c.co_filename) in wanted:
            codes.append(c)
        for k in c.co_consts:
            if isinstance(k, types.CodeType):
                add_code(k)

    def add_obj(o, depth=0):
        if depth > 3:
            return
        if isinstance(o, (staticmethod, classmethod)):
            o = o.__func__
        if isinstance(o, property):
            for f in (o.fget, o.fset, o.fdel):
                if f is not None:
                    add_obj(f, depth + 1)
            return
        f = getattr(o, "__wrapped__", None)
        if f is not None and f is not o:
            add_obj(f, depth + 1)
        c = getattr(o, "__code__", None)
        if isinstance(c, types.CodeType):
            add_code(c)
        if isinstance(o, type):
            for v in list(vars(o).values()):
                add_obj(v, depth + 1)

    for pth, rel in wanted.items():
        name = rel[:-3].replace("/", ".")
        try:
            m = importlib.import_module(name)
        except Exception:  # noqa: BLE001
            continue
        for v in list(vars(m).values()):
            if getattr(v, "__module__", None) == name or isinstance(v, type):
                add_obj(v)
    if not codes:
        mon.free_tool_id(_TOOL)
        return False
    mon.register_callback(_TOOL, mon.events.LINE, on_line)
    for c in codes:
        try:
            mon.set_local_events(_TOOL, c, mon.events.LINE)
        except Exception:  # noqa: BLE001
            pass
    _state["codes"] = codes
    _state.update(on=True, hits=hits, wanted=wanted, where=where, repo=repo)
    return True


def _executable_lines(path):
    src = open(path).read()
    lines = set()

    def walk(code):
        for _, _, ln in code.co_lines():
            if ln is not None and ln > 0:
                lines.add(ln)
        for c in code.co_consts:
            if hasattr(c, "co_lines"):
                walk(c)

    walk(compile(src, path, "exec"))
    tree = ast.parse(src)
    funcs = []  # (qualname, first line, last line, body-first line)
    doc = set()

    def visit(node, prefix):
        for ch in ast.iter_child_nodes(node):
            if isinstance(ch, (ast.FunctionDef, ast.AsyncFunctionDef, ast.ClassDef)):
                q = f"{prefix}{ch.name}"
                body = ch.body
                if body and isinstance(body[0], ast.Expr) and isinstance(getattr(body[0], "value", None), ast.Constant) and isinstance(body[0].value.value, str):
                    doc.update(range(body[0].lineno, body[0].end_lineno + 1))
                if not isinstance(ch, ast.ClassDef):
                    first = min([d.lineno for d in ch.decorator_list] + [ch.lineno])
                    funcs.append((q, first, ch.end_lineno, ch.lineno))
                visit(ch, q + ".")
            else:
                visit(ch, prefix)

    visit(tree, "")
    return lines - doc, funcs


def stop():
    """-> dict for the evidence (empty when monitoring is unavailable)"""
    if not _state["on"]:
        return {}
    mon = sys.monitoring
    try:
        for c in _state.get("codes", []):
            mon.set_local_events(_TOOL, c, 0)
        mon.register_callback(_TOOL, mon.events.LINE, None)
        mon.free_tool_id(_TOOL)
    except Exception:
        pass
    _state["on"] = False
    files = {}
    fun_tables = {}
    for p, rel in _state["wanted"].items():
        try:
            exe, funcs = _executable_lines(p)
        except Exception as e:  # never break a run
            files[rel] = {"error": repr(e)}
            continue
        hit = _state["hits"][p] & exe
        # `def` lines run at import time, before monitoring starts: they say nothing about the body -> not counted
        deflines = {f[3] for f in funcs} | {ln for f in funcs for ln in range(f[1], f[3] + 1)}
        body_exe = exe - deflines
        files[rel] = {"executable_lines_in_bodies": len(body_exe), "executed": len(hit & body_exe),
                      "fraction": round(len(hit & body_exe) / max(1, len(body_exe)), 3)}
        fun_tables[rel] = (body_exe, hit, funcs)
    anchored = {}
    for rel, (body_exe, hit, funcs) in fun_tables.items():
        for f in resolve(funcs, rel, _state.get("where", [])):
            lines = sorted(l for l in body_exe if f[1] <= l <= f[2])
            if not lines:
                continue
            missed = [l for l in lines if l not in hit]
            anchored[f"{rel}:{f[0]}"] = {"lines": len(lines), "executed": len(lines) - len(missed), "not_executed": missed[:60]}
    tot = sum(v.get("executable_lines_in_bodies", 0) for v in files.values())
    got = sum(v.get("executed", 0) for v in files.values())
    a_tot = sum(v["lines"] for v in anchored.values())
    a_got = sum(v["executed"] for v in anchored.values())
    return {
        "anchor_line_coverage": {
            "what": "lines of the anchored pylake files executed while the implementation answered this run's cases (sys.monitoring); "
                    "a measurement of the sampled tie, not a verdict",
            "anchored_functions_fraction": round(a_got / max(1, a_tot), 3),
            "anchored_functions": anchored,
            "anchored_files_fraction": round(got / max(1, tot), 3),
            "anchored_files": files,
        }
    }
