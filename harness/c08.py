"""C08 — tracking invariants: correspondence + oracle (see DESIGN.md 6/C08).

Case kinds (`op`):
  greedy   a whole `track_greedy` run on a generated kymograph (Poisson background + drifting/blinking spots).
           The implementation's own intermediate data (observed by wrapping the functions `track_greedy` calls:
           the detections that survive the rectangle mask, the per-frame peak lists, the converted linker
           parameters) is fed to the Lean model; the final KymoTrackGroup is judged by the oracle.
  link     `points_to_line_segments` on synthetic peak lists (exhaustive small scope + random)
  sumwin   the photon-count window on one column, through the public `KymoTrack.sample_from_image` (exhaustive small
           scope + random)
  rect     the pixel rectangle `track_greedy(rect=…)` hands to the peak finder (`_to_pixel_rect`)
  units    `KymoTrack.seconds/position/coordinate_idx/duration`
  edit     programs of interpolate/split/merge/filter/refine/regroup on the result of track_greedy or track_lines, also
           with refinement/interpolation of only SOME of the tracks before a merge (tracks of different provenance in one
           group) and on groups that hold the tracks of SEVERAL kymographs ("more": further images with their own size,
           line time and pixel size; every track is judged on its own kymograph): structural invariants, units and
           photon counts after every step (the counts a track carries from tracking / centroid refinement, for the width
           stated in that call, and `sample_from_image` with a stated half width), judged by the oracle; a few of the
           reported counts also go through the model's window sum
  badparam the malformed stream: parameters `track_greedy` must refuse

How the code is reached (robustness against behaviour-preserving refactorings, DESIGN "C08"): everything the property
speaks about is observed through the public API (`lk.track_greedy/track_lines/filter_tracks/refine_tracks_*`, the classes
of the objects those return, `KymoTrack.time_idx/coordinate_idx/position/seconds/duration/photon_counts/
sample_from_image/interpolate`, group indexing and `+`).  The anchored mechanisms (find_kymograph_peaks/merge_close_peaks,
points_to_line_segments with KymoPeaks and kymo_score, KymoTrackGroup._split_track/_merge_tracks) have no public
equivalent: they are looked up by their own name wherever pylake keeps them (`_find`), their arguments are read by
parameter name (`_bound`), and an observation that cannot be made this way is "?" (skipped; `agree` and the oracle never
read a "?" as an answer of the implementation) while the public results of the same run are judged all the same.
"""
import importlib
import inspect
import itertools
import json
import math
import os
from fractions import Fraction

for _v in ("OMP_NUM_THREADS", "OPENBLAS_NUM_THREADS", "MKL_NUM_THREADS"):
    os.environ.setdefault(_v, "1")  # tiny arrays only: thread pools cost more than they give

import numpy as np  # noqa: E402

from common import enc_float, dec_float, enc_list, enc_listlist, enc_rat, dec_rat, dec_list, errname, canonical

PROP = "C08"
THEOREMS = [
    "Verif.C08.link_partition",
    "Verif.C08.link_tracks_disjoint",
    "Verif.C08.link_count",
    "Verif.C08.track_nonempty",
    "Verif.C08.track_strictly_increasing",
    "Verif.C08.track_inside",
    "Verif.C08.gap_le_window",
    "Verif.C08.gap_le_window'",
    "Verif.C08.linked_implies_accepted",
    "Verif.C08.link_best",
    "Verif.C08.link_stops_without_candidate",
    "Verif.C08.start_order",
    "Verif.C08.accepted_in_cone",
    "Verif.C08.cone_real",
    "Verif.C08.cone_real'",
    "Verif.C08.cone_units",
    "Verif.C08.rect_filter",
    "Verif.C08.rect_filter_mem",
    "Verif.C08.rect_filter_sublist",
    "Verif.C08.frames_mem",
    "Verif.C08.rect_tracks",
    "Verif.C08.rect_physical",
    "Verif.C08.sum_window_spec",
    "Verif.C08.units_seconds",
    "Verif.C08.units_position",
    "Verif.C08.units_duration",
    "Verif.C08.link_tracks_wellformed",
    "Verif.C08.interpolate_times",
    "Verif.C08.interpolate_wellformed",
    "Verif.C08.interpolate_keeps_points",
    "Verif.C08.interpolate_idempotent",
    "Verif.C08.split_spec",
    "Verif.C08.split_wellformed",
    "Verif.C08.split_conserves_points",
    "Verif.C08.merge_spec",
    "Verif.C08.merge_wellformed",
    "Verif.C08.filter_spec",
    "Verif.C08.filter_idempotent",
    "Verif.C08.edit_step_wellformed",
    "Verif.C08.edit_program_wellformed",
    "Verif.C08.tracked_then_edited_wellformed",
    "Verif.C08.refine_pixels_inside",
    "Verif.C08.refine_positions_inside",
    "Verif.C08.refine_positions_between_pixel_centres",
    "Verif.C08.refine_tracks_wellformed",
    "Verif.C08.refine_program_wellformed",
    "Verif.C08.merge_close_sublist",
    "Verif.C08.merge_close_removed_spec",
]
RULE = (
    "exhaustive small scope: the linker on all peak layouts of <=3 frames x <=2 peaks on a 4-point coordinate grid "
    "with windows {0,1,2} and a cone whose edge falls exactly on grid points (strict inequality), every amplitude "
    "order - each layout through the linker itself and (all of <=2 frames, every other one of 3 frames, and the random "
    "grid layouts) once more through the PUBLIC tracker alone: drawn into an image with one bright pixel per peak, three "
    "pixels per grid step, tracked by lk.track_greedy on an uncalibrated kymograph with line time 1 s and the tracks read "
    "from time_idx/coordinate_idx; the photon-count window (KymoTrack.sample_from_image of a one-point track on a one-line "
    "kymograph) on all columns of length <=5, half widths 0..2 and quarter-pixel coordinates "
    "(exact half-pixel boundaries included); the pixel rectangle track_greedy hands to the peak finder on dyadic grids. "
    "Seeded random: Poisson kymographs "
    "(6-40 pixels x 1-60 lines, thorough up to 60x200) with 0-4 drifting, diffusing, blinking spots, pixel sizes in "
    "um/kbp/pixel units, dyadic and non-dyadic line times, all track_greedy parameters (threshold or percentile, "
    "track width 3-9 px, window 0-8, sigma or default, velocity, diffusion, sigma_cutoff, rectangle, adjacency "
    "filter, bias correction, filter width); synthetic peak lists (<=12 frames x <=5 peaks, cone-edge biased); "
    "programs of interpolate/split/merge/filter/refine/track_lines; border-biased images (binding sites that are "
    "occupied, dark for up to the whole kymograph and occupied again, present on the first and/or last scan line, on the "
    "first/last pixel rows, spots that drift out of the image) with pixel sizes below and above one unit (1.25, 2, 3.3), "
    "used for extra track_greedy cases, for track_lines cases and for programs that refine/interpolate only a subset of "
    "the tracks and then merge (different tracks at any nodes; last point to first point of a later track), split and "
    "filter; groups holding the tracks of two or three kymographs (own image size, line time and pixel size, same unit; "
    "concatenated, interleaved or sandwiched) under programs of whole-group and subset centroid refinement (default and "
    "explicit widths of 3-9 pixels of any of the kymographs), Gaussian refinement, interpolation, filtering, regrouping "
    "by indexing and +, split/merge within one kymograph; after every step of every program the photon counts that "
    "tracking or centroid refinement reported for a stated width and sample_from_image with a stated half width 0-4 are "
    "compared with the window sum on the track's own kymograph; a malformed stream of refused parameters. "
    "Editing operations (model ops c08.edit / c08.editprog): exhaustive small scope on hand-made tracks - every non-empty "
    "set of lines of a 4-line kymograph alone and in pairs (quick: every fourth pair), on a fresh group each: both "
    "interpolations, every split (nodes -1..len+1, min_length 1..3), every merge of any two nodes of any two tracks "
    "(same track, same line, either order), filters on a grid of lengths and durations (exact ties on a dyadic line "
    "time); seeded random programs of 1-6 such steps on 1-4 tracks (edge coordinates, calibrated and uncalibrated), each "
    "step and the whole program through the model; and every interpolate/split/merge/filter step of every editing "
    "program of the edit streams (the group the real code had before the step -> the group it had after it). "
    "Centroid refinement without bias correction (model ops c08.refine / c08.moment): exhaustive small scope - every "
    "one-line image of <=4 pixels with counts in {0,1,5}, every starting pixel, half widths 1 and 2, through the public "
    "lk.refine_tracks_centroid(bias_correction=False) and through refine_peak_based_on_moment itself; seeded random integer "
    "images (1-12 pixels x 1-10 lines, Poisson background, spots also on the first and last pixel row) with 1-3 hand-made "
    "tracks (edge and half-pixel coordinates), widths 3-9 pixels, calibrated and uncalibrated. "
    "The same hand-made tracks once more through lk.refine_tracks_centroid(bias_correction=True) (oracle only: no exception, "
    "as many tracks, positions inside the image, units, photon counts). Gaussian refinement (oracle only): 1-3 hand-made "
    "tracks on images of 4-30 pixels x 1-7 lines (more pixels than lines as often as not) - tracks running parallel 1-7 "
    "pixels apart on the same lines, tracks on the first/last pixel rows, tracks with gaps - windows 1-5, with and without "
    "refine_missing_frames, every overlap strategy (ignore, skip, simultaneous, the deprecated multiple); and every "
    "Gaussian refinement step of the edit streams: no exception, the scan lines of the track that went in (all lines "
    "first..last with refine_missing_frames), none invented, none lost except by 'skip' where another refined track has a "
    "point on the same line. Rectangle: every track_greedy case with a rectangle (a third of them one or two lines x a few "
    "pixels) is tracked once more without it; the peaks found there that lie inside the rectangle must be points of the "
    "tracks of the run with it. track_lines may give up with a ValueError only on an image without a bright spot or lower "
    "than three line widths. "
    "merge_close_peaks (model op c08.mergeclose): exhaustive small scope - every ordered choice of <=3 coordinates of a "
    "4-point grid, every amplitude order and equal amplitudes, minimum distances 1-3; seeded random frames of 1-7 peaks; and "
    "the frames track_greedy itself hands to merge_close_peaks in every greedy case (before -> after). "
    "Non-trivial: a greedy/link case in which at least one link was made and at least one candidate was left "
    "unlinked (>=2 tracks); a window that is clipped by the image edge or lies strictly inside; a rectangle that "
    "removes some but not all detections."
)
TRUSTED = [
    "peak detection and centroid refinement (scipy.ndimage.gaussian_filter/grey_dilation, scipy.signal.convolve2d, "
    "refine_peak_based_on_moment, merge_close_peaks) are outside the model: the model is fed the detections the "
    "implementation itself produced (observed at the call boundary of KymoPeaks/points_to_line_segments)",
    "IEEE double arithmetic of numpy and of Lean's Float agree bit for bit on + - * / sqrt (no FMA contraction)",
    "np.argsort on distinct keys (cases with equal amplitudes inside one frame are compared leniently and counted)",
    "public linker stream: peak detection (outside the model) finds exactly the drawn pixels - isolated single bright "
    "pixels three apart on a dark background, half width 1, threshold 0.5, no bias correction: integer centroids, amplitude "
    "= pixel value, peaks of a line in increasing coordinate order",
]
ASSUMPTIONS = [
    "line indices of detections are integers (np.where output), so a frame index is the time of its peaks",
    "amplitudes inside one frame are pairwise distinct (NumPy's default argsort is not stable; ties are counted, "
    "their track partition is not compared with the model, the oracle still applies)",
    "rectangle corners are kept 1e-6 away from pixel/line boundaries unless the quotient is exact (dyadic), since "
    "_to_pixel_rect truncates a rounded float quotient",
    "a photon-count window is accepted for either neighbouring centre pixel when c + 1/2 is within 1e-9 of an integer",
    "a linker case whose track partition differs from the model's is not counted when some peak lies within 1e-12 "
    "(relative) of a cone edge without lying exactly on it, or two peaks of a line are that close to equally far from a "
    "prediction without being exactly equally far (decided in rational arithmetic on the doubles): the decision then "
    "hangs on the rounding of whichever algebraically equal expression the code uses; counted in the evidence",
    "observations of internal mechanisms (the data handed to find_kymograph_peaks, KymoPeaks, merge_close_peaks, "
    "kymo_score, points_to_line_segments; KymoTrack._kymo; KymoTrackGroup._split_track/_merge_tracks) are made while they "
    "are reachable by name; what is not reachable is skipped and counted (observations_not_reachable_on_this_code, "
    "edit_steps_not_reachable_private_method_gone), the public results are judged by the oracle all the same",
]

_DEFAULT_TW = {"um": 0.35, "kbp": 0.35 / 0.34, "pixel": 4}

# ------------------------------------------------------------------ helpers


UNSEEN = "?"  # an observation the harness could not make (never an answer of the implementation)


class Unreachable(Exception):
    """the harness cannot even build its input (the one private builder it needs is gone): reported as a broken tie"""


class _Skip(Exception):
    """a step of an editing program that needs a private method which is not reachable (any more)"""


def _lk():
    return importlib.import_module("lumicks.pylake")


_FOUND = {}


def _find(name):
    """(object, [modules whose globals hold it under that name]) for an internal function/class of pylake, looked up by its
    OWN NAME in whatever module of the package defines or imports it — no private module path is spelled out here, so a
    function that a refactoring moves to another file, or imports differently, is still found.  (None, []) when there is no
    such object (renamed, inlined) or the name is ambiguous."""
    if name in _FOUND:
        return _FOUND[name]
    import sys

    lk = _lk()
    cands = []
    for mn, mod in list(sys.modules.items()):
        if mod is None or not (mn == "lumicks.pylake" or mn.startswith("lumicks.pylake.")) or ".tests" in mn:
            continue
        obj = getattr(mod, "__dict__", {}).get(name)
        if obj is None or not callable(obj) or getattr(obj, "_verif_spy", False):
            continue
        if getattr(obj, "__name__", None) != name or not str(getattr(obj, "__module__", "")).startswith("lumicks.pylake"):
            continue
        cands.append((obj, mod))
    objs = []
    for o, _ in cands:
        if not any(o is q for q in objs):
            objs.append(o)
    if len(objs) > 1:  # prefer what the module of the public tracker itself refers to
        home = sys.modules.get(getattr(lk.track_greedy, "__module__", ""))
        objs = [o for o in objs if home is not None and home.__dict__.get(name) is o]
    res = (objs[0], [m for o, m in cands if o is objs[0]]) if len(objs) == 1 else (None, [])
    _FOUND[name] = res
    return res


def _bound(fn, args, kwargs):
    """the arguments of a call by PARAMETER NAME (defaults filled in), or None when the call does not fit the signature"""
    try:
        b = inspect.signature(fn).bind(*args, **kwargs)
        b.apply_defaults()
        return dict(b.arguments)
    except (TypeError, ValueError):
        return None


def _call_named(fn, **kw):
    """fn(**kw) if fn takes these parameter names, else Unreachable-by-None: returns (True, value) or (False, None)"""
    if fn is None or _bound(fn, (), kw) is None:
        return False, None
    return True, fn(**kw)


def make_kymo(case):
    # No public constructor makes a kymograph from an array with an exact (dyadic) line time or without calibration;
    # `_kymo_from_array` (behind ImageStack.to_kymo and lk.simulation) is the one private builder of this harness.  It is
    # looked up by name and called by parameter name; if it is gone the tie is reported as broken, not as an answer.
    f, _ = _find("_kymo_from_array")
    img = np.array(case["image"], dtype=float)
    kw = {"image": img, "color_format": "r", "line_time_seconds": case["line_time"], "pixel_size_um": case.get("pixel_size_um")}
    ok, kymo = _call_named(f, **kw)
    if not ok:
        raise Unreachable("private member _kymo_from_array is gone")
    if case.get("kbp"):
        kymo = kymo.calibrate_to_kbp(case["kbp"])
    return kymo


_CLASSES = {}


def _classes():
    """(KymoTrackGroup, KymoTrack): the classes of what the public tracker returns (fallback: by name)"""
    if "c" not in _CLASSES:
        g_cls = t_cls = None
        try:
            g = _lk().track_greedy(
                make_kymo({"image": small_image(), "line_time": 0.5, "pixel_size_um": 0.1}), "red", pixel_threshold=2.0
            )
            g_cls, t_cls = type(g), type(g[0])
        except Unreachable:
            raise
        except Exception:
            pass
        if g_cls is None:
            g_cls = _find("KymoTrackGroup")[0]
        if t_cls is None:
            t_cls = _find("KymoTrack")[0]
        _CLASSES["c"] = (g_cls, t_cls)
    return _CLASSES["c"]


def make_track(time_idx, coords, kymo, min_duration):
    """a KymoTrack from line indices and pixel coordinates (documented constructor: time_idx, localization, kymo, channel,
    minimum_observable_duration), or None when the class does not take these arguments any more"""
    cls = _classes()[1]
    if cls is None:
        return None
    t, c = np.array(time_idx, dtype=np.int64), np.array(coords, dtype=float)
    if _bound(cls, (t, c, kymo, "red", min_duration), {}) is not None:
        return cls(t, c, kymo, "red", min_duration)
    ok, tr = _call_named(cls, time_idx=t, localization=c, kymo=kymo, channel="red", minimum_observable_duration=min_duration)
    return tr if ok else None


def unit_of(case):
    if case.get("kbp"):
        return "kbp"
    return "um" if case.get("pixel_size_um") is not None else "pixel"


def pixel_size(case):
    """the calibrated pixel size, from the case alone"""
    if case.get("kbp"):
        return case["kbp"] / len(case["image"])
    return case["pixel_size_um"] if case.get("pixel_size_um") is not None else 1.0


def track_width_of(case):
    if case.get("track_width") is not None:
        return case["track_width"]
    return max(_DEFAULT_TW[unit_of(case)], 3 * pixel_size(case))


def half_width_of(case):
    """documented: the width is rounded up to whole pixels, half of that (rounded down) on either side"""
    return int(math.ceil(track_width_of(case) / pixel_size(case))) // 2


def envs_of(case):
    """the source kymographs of an edit case: the case itself and, for groups that mix tracks of several kymographs
    (`tracks1 + tracks2`), the further ones under "more" (each: image, line_time, pixel_size_um, kbp)"""
    return [case] + list(case.get("more") or [])


def stated_half_width(width, env):
    """half width (pixels) of the window a stated track width (physical units; None = the documented default, at least
    three pixels) stands for on the kymograph `env`: rounded up to whole pixels, half of that on either side"""
    ps = pixel_size(env)
    if width is None:
        width = max(_DEFAULT_TW[unit_of(env)], 3 * ps)
    return int(math.ceil(width / ps)) // 2


class Spies:
    """wrap the mechanism functions `track_greedy` calls (anchors.mechanism: find_kymograph_peaks / merge_close_peaks,
    points_to_line_segments; KymoPeaks and kymo_score carry their data), to observe the data it hands to them.  Each is
    looked up by its own name (`_find`) and replaced in every module that refers to it; its arguments are read by parameter
    name (`_bound`), however the caller passes them.  What cannot be seen this way — a function, parameter or attribute
    that a refactoring renamed — is not recorded: the observations built on it are skipped ("?").  A spy never changes what
    the code does: it records inside try/except and then calls the original with the original arguments."""

    NAMES = ("find_kymograph_peaks", "kymo_score", "points_to_line_segments", "KymoPeaks", "merge_close_peaks")

    def __init__(self):
        self.rec = {}
        self.saved = []

    def _patch(self, name, make):
        orig, holders = _find(name)
        if orig is None:
            return
        fn = make(orig)
        if fn is orig:
            return
        try:
            fn._verif_spy = True
        except Exception:
            pass
        for mod in holders:
            if mod.__dict__.get(name) is orig:
                self.saved.append((mod, name, orig))
                setattr(mod, name, fn)

    def __enter__(self):
        import functools

        rec = self.rec

        def quietly(record):
            try:
                record()
            except Exception:
                pass

        def mk_fkp(orig):
            @functools.wraps(orig)
            def fkp(*a, **kw):
                def record():
                    args = _bound(orig, a, kw) or {}
                    hw = args.get("half_width_pixels")
                    rec["fkp"] = {"hw": None if hw is None else int(hw), "rect": args.get("rect", UNSEEN)}

                quietly(record)
                return orig(*a, **kw)

            return fkp

        def mk_score(orig):
            @functools.wraps(orig)
            def score(*a, **kw):
                def record():
                    args = _bound(orig, a, kw) or {}
                    if all(k in args for k in ("vel", "sigma", "diffusion")):
                        rec["score"] = {k: float(args[k]) for k in ("vel", "sigma", "diffusion")}

                quietly(record)
                return orig(*a, **kw)

            return score

        def mk_link(orig):
            @functools.wraps(orig)
            def link(*a, **kw):
                def record_in():
                    args = _bound(orig, a, kw) or {}
                    peaks = args["peaks"]
                    frames = [
                        (np.asarray(f.coordinates, dtype=float).copy(), np.asarray(f.time_points).copy(), np.asarray(f.peak_amplitudes, dtype=float).copy())
                        for f in peaks.frames
                    ]
                    rec["link_kw"] = {"window": int(args["window"]), "sigma_cutoff": float(args["sigma_cutoff"])}
                    rec["link_in"] = frames

                rec["link_called"] = True
                quietly(record_in)
                lines = orig(*a, **kw)

                def record_out():
                    rec["lines"] = [(np.asarray(l.time_idx).copy(), np.asarray(l.coordinate_idx, dtype=float).copy()) for l in lines]

                quietly(record_out)
                return lines

            return link

        def mk_kp(orig):
            if not inspect.isclass(orig):
                return orig

            class KP(orig):
                def __init__(s, *a, **kw):
                    def record():
                        if "kp_args" not in rec:
                            args = _bound(orig, a, kw) or {}
                            rec["kp_args"] = (
                                np.array(args["coordinates"], dtype=float),
                                np.array(args["time_points"]),
                                np.array(args["peak_amplitudes"], dtype=float),
                            )

                    quietly(record)
                    super().__init__(*a, **kw)

            KP.__name__, KP.__qualname__ = orig.__name__, orig.__qualname__
            return KP

        def mk_merge(orig):
            @functools.wraps(orig)
            def merge(*a, **kw):
                def record():
                    args = _bound(orig, a, kw) or {}
                    peaks = args["peaks"] if "peaks" in args else a[0]
                    rec["premerge"] = [np.asarray(f.coordinates, dtype=float).copy() for f in peaks.frames]
                    rec["premerge_amp"] = [np.asarray(f.peak_amplitudes, dtype=float).copy() for f in peaks.frames]
                    rec["merge_md"] = float(args["minimum_distance"])

                quietly(record)
                res = orig(*a, **kw)

                def record_out():
                    rec["postmerge"] = [
                        (np.asarray(f.coordinates, dtype=float).copy(), np.asarray(f.peak_amplitudes, dtype=float).copy()) for f in res.frames
                    ]

                quietly(record_out)
                return res

            return merge

        for name, make in zip(self.NAMES, (mk_fkp, mk_score, mk_link, mk_kp, mk_merge)):
            self._patch(name, make)
        return self

    def __exit__(self, *exc):
        for mod, name, val in reversed(self.saved):
            setattr(mod, name, val)
        return False


def greedy_kwargs(case):
    kw = {}
    for k in ("track_width", "pixel_threshold", "window", "sigma", "velocity", "diffusion", "sigma_cutoff", "filter_width"):
        if case.get(k) is not None:
            kw[k] = case[k]
    if case.get("rect") is not None:
        kw["rect"] = tuple(tuple(p) for p in case["rect"])
    if case.get("adjacency_filter"):
        kw["adjacency_filter"] = True
    if case.get("bias_correction") is False:
        kw["bias_correction"] = False
    return kw


def dump_group(group, raw_lines=None):
    out = []
    for i, t in enumerate(group):
        d = {
            "t": [int(x) for x in t.time_idx],
            "t_int": bool(np.issubdtype(np.asarray(t.time_idx).dtype, np.integer)),
            "pos": [float(x) for x in t.position],
            "cidx": [float(x) for x in t.coordinate_idx],
            "sec": [float(x) for x in t.seconds],
            "dur": float(t.duration) if len(t) else None,
        }
        try:
            d["pc"] = [float(x) for x in t.photon_counts]
        except AttributeError:
            d["pc"] = None
        if raw_lines is not None:
            d["raw"] = [float(x) for x in raw_lines[i][1]]
        out.append(d)
    return out


def source_of(track, kymos):
    """the kymograph a track was tracked on: its index, or — when it cannot be told for certain — the list of the indices
    it may be.  A KymoTrack exposes its kymograph only as the private `_kymo` (bookkeeping the property does not speak
    about): it is read while it is there.  When it is not, the candidates are told from public data: the kymographs whose
    line time and pixel size reproduce the track's `seconds` and `position` from its line indices and pixel coordinates
    (the oracle then judges the track on each candidate and accepts it if it is right on one of them)."""
    if len(kymos) == 1:
        return 0
    try:
        k = track._kymo
    except AttributeError:
        k = None
    if k is not None:
        for i, q in enumerate(kymos):
            if k is q:
                return i
        for i, q in enumerate(kymos):  # a copy of the kymograph: same image, line time and pixel size
            try:
                if (
                    k.line_time_seconds == q.line_time_seconds
                    and k.pixelsize[0] == q.pixelsize[0]
                    and np.array_equal(k.get_image("red"), q.get_image("red"))
                ):
                    return i
            except Exception:
                pass
        return -1
    cands = []
    try:
        ts, sec = np.asarray(track.time_idx, dtype=float), np.asarray(track.seconds, dtype=float)
        cs, pos = np.asarray(track.coordinate_idx, dtype=float), np.asarray(track.position, dtype=float)
        for i, q in enumerate(kymos):
            lt, ps = float(q.line_time_seconds), float(q.pixelsize[0])
            if np.allclose(sec, ts * lt, rtol=1e-9, atol=0.0) and np.allclose(pos, cs * ps, rtol=1e-9, atol=1e-300):
                cands.append(i)
    except Exception:
        cands = []
    return cands or list(range(len(kymos)))


def same_source(a, b):
    """both tracks certainly come from one kymograph"""
    if isinstance(a, list) or isinstance(b, list):
        return isinstance(a, list) and isinstance(b, list) and len(a) == 1 and a == b
    return a == b


def dump_edit_group(group, kymos, sample_hw):
    """dump_group plus, per track, its source kymograph and the image sampled along the track with a stated half width
    (`KymoTrack.sample_from_image`, pixel origin at the pixel centre)"""
    out = dump_group(group)
    for d, t in zip(out, group):
        d["src"] = source_of(t, kymos)
        try:
            d["samp"] = [float(x) for x in t.sample_from_image(sample_hw, correct_origin=True)]
        except Exception as e:
            d["samp"] = errname(e)
    return out


def lines_to_nodes(frames, lines):
    """(time, coordinate) of each line point -> (frame, index in that frame's arrays)"""
    used = [set() for _ in frames]
    out = []
    for ts, cs in lines:
        tr = []
        for t, c in zip(ts, cs):
            f = int(t)
            idx = [j for j, x in enumerate(frames[f][0]) if x == c and j not in used[f]]
            if not idx:
                tr.append((f, -1))
            else:
                used[f].add(idx[0])
                tr.append((f, idx[0]))
        out.append(tr)
    return out


def show_nodes(tracks):
    return "[" + ";".join(",".join(f"{f}:{j}" for f, j in tr) for tr in tracks) + "]"


def parse_nodes(s):
    s = s.strip()
    if s.startswith("TIE "):
        s = s[4:]
    inner = s[1:-1]
    if inner == "":
        return []
    return [[tuple(int(v) for v in n.split(":")) for n in tr.split(",")] if tr else [] for tr in inner.split(";")]


def enc_det(t, p):
    return f"{int(t)}:{enc_rat(float(p))}"


# ------------------------------------------------------------------ running the implementation

_CACHE = {}


def _key(case):
    return canonical({k: v for k, v in case.items() if k not in ("stream", "subseed")})


_OPS_MEMO = {}  # per case (hash of its canonical form): what `agree` needs of each op, so that it need not run the case again


def _memo_key(k):
    import hashlib

    return hashlib.sha1(k.encode()).digest()


def computed(case):
    k = _key(case)
    if k not in _CACHE:
        if len(_CACHE) > 4:
            _CACHE.clear()
        try:
            _CACHE[k] = RUNNERS[case["op"]](case)
        except Unreachable as e:
            # the input of the case cannot be built: common.evaluate reports the broken tie (never an answer of the code)
            _CACHE[k] = ([f"Error:TieBroken:{e}"], [])
        # the name of each op, and the coordinate of a photon-count window (all that `agree` reads of an op that agrees)
        _OPS_MEMO[_memo_key(k)] = [(o.split(" ", 1)[0], o.split(" ")[3] if o.startswith("c08.sumwin ") else None) for o in _CACHE[k][1]]
    return _CACHE[k]


def op_info(case, i):
    m = _OPS_MEMO.get(_memo_key(_key(case)))
    if m is None or i >= len(m):
        computed(case)
        m = _OPS_MEMO[_memo_key(_key(case))]
    return m[i]


def run_greedy(case):
    """returns (answers, ops)"""
    lk = _lk()
    ps = pixel_size(case)
    lt = case["line_time"]
    tw = track_width_of(case)
    img = np.array(case["image"], dtype=float)
    thr = case.get("pixel_threshold")
    if thr is None:
        thr = float(np.percentile(img, 98))
    bound = float(np.nextafter(3 * ps, 0))
    diff = case.get("diffusion") or 0.0
    ops = [f"c08.validate {enc_rat(tw)} {enc_rat(bound)} {enc_rat(thr)} {enc_rat(diff)}"]
    ans = []
    try:
        kymo, kymo2 = make_kymo(case), make_kymo(case)
        with Spies() as sp:
            group = lk.track_greedy(kymo, "red", **greedy_kwargs(case))
        rec = sp.rec
        with Spies():
            group2 = lk.track_greedy(kymo2, "red", **greedy_kwargs(case))
        norect = None
        if case.get("rect") is not None:
            # the same image tracked without the rectangle: the peaks detected there that lie inside the rectangle are
            # detected peaks of the run with the rectangle as well (the rectangle crops, it does not change detection)
            with Spies():
                group3 = lk.track_greedy(make_kymo(case), "red", **{k: v for k, v in greedy_kwargs(case).items() if k != "rect"})
            norect = sorted([int(t), float(c)] for tr in group3 for t, c in zip(tr.time_idx, tr.coordinate_idx))
    except Unreachable:
        raise
    except Exception as e:
        return [errname(e)], ops
    # what the linker returned, if it was seen (and as many lines as there are tracks: the oracle says so otherwise)
    lines, peaks_in = rec.get("lines"), rec.get("link_in")
    if "link_called" not in rec and _find("points_to_line_segments")[0] is not None:
        lines, peaks_in = [], []  # the linker was not called: no peak was detected
    peaks_public = None
    if peaks_in is None:
        # the linker's peak lists cannot be seen on this code.  The detected peaks, publicly: with an empty cone
        # (sigma_cutoff = 0) nothing can be linked, so every detected peak comes back as a one-point track
        try:
            with Spies():
                g0 = lk.track_greedy(make_kymo(case), "red", **dict(greedy_kwargs(case), sigma_cutoff=0.0))
            peaks_public = sorted([int(t), float(c)] for tr in g0 for t, c in zip(tr.time_idx, tr.coordinate_idx))
        except Unreachable:
            raise
        except Exception:
            peaks_public = None
    paired = lines is not None and len(lines) == len(group)
    dump = {
        "tracks": dump_group(group, lines if paired else None),
        "again": dump_group(group2),
        "peaks": None if peaks_in is None else [[float(x) for x in f[0]] for f in peaks_in],
        "n_lines_raw": None if lines is None else len(lines),
    }
    if norect is not None:
        dump["norect"] = norect
    if peaks_public is not None:
        dump["peaks_public"] = peaks_public
    ans.append("ok " + json.dumps(dump))
    # half kernel size (the peak finder is not called for an image without a peak above the threshold)
    fkp = rec.get("fkp")
    ops.append(f"c08.halfwidth {enc_float(tw)} {enc_float(ps)}")
    if fkp is None:
        ans.append(UNSEEN if _find("find_kymograph_peaks")[0] is None else "find_kymograph_peaks-not-called")
    else:
        ans.append(UNSEEN if fkp["hw"] is None else str(fkp["hw"]))
    # the half width of the photon-count windows: as seen, else as documented (rounded-up width in pixels, half of it)
    hw = fkp["hw"] if fkp is not None and fkp["hw"] is not None else half_width_of(case)
    # rectangle
    prect = fkp["rect"] if fkp is not None else UNSEEN
    if prect is not None and not isinstance(prect, str):
        try:
            prect = [[int(prect[0][0]), int(prect[0][1])], [int(prect[1][0]), int(prect[1][1])]]
        except (TypeError, IndexError, ValueError):
            prect = UNSEEN  # the rectangle travels in another shape now
    if case.get("rect") is not None:
        (s0, x0), (s1, x1) = case["rect"]
        ops.append(f"c08.rect {enc_rat(lt)} {enc_rat(ps)} {enc_rat(s0)} {enc_rat(x0)} {enc_rat(s1)} {enc_rat(x1)}")
        ans.append(UNSEEN if isinstance(prect, str) else "none" if prect is None else enc_list(prect[0] + prect[1]))
    if "kp_args" in rec:
        pos, tim, m0 = rec["kp_args"]
        dets = "[" + ",".join(enc_det(t, p) for t, p in zip(tim, pos)) + "]"
        if "premerge" in rec:
            ops.append(f"c08.frames {dets}")
            ans.append(enc_listlist(rec["premerge"], lambda x: enc_rat(float(x))))
        if prect is not None and not isinstance(prect, str):
            # every detection handed to KymoPeaks passed the mask: filtering them again changes nothing
            (t0, p0), (t1, p1) = prect
            ops.append(f"c08.rectfilter {t0} {p0} {t1} {p1} {dets}")
            ans.append(dets)
    if all(k in rec for k in ("premerge", "premerge_amp", "merge_md", "postmerge")) and len(rec["premerge"]) == len(rec["premerge_amp"]):
        # which detections reach the linker: merge_close_peaks frame by frame (a frame with two equal coordinates is left
        # out: NumPy's default argsort is not stable)
        if all(len(set(float(x) for x in f)) == len(f) for f in rec["premerge"]):
            er = lambda x: enc_rat(float(x))  # noqa: E731
            ops.append(f"c08.mergeclose {enc_rat(rec['merge_md'])} {enc_listlist(rec['premerge'], er)} {enc_listlist(rec['premerge_amp'], er)}")
            ans.append(enc_listlist([f[0] for f in rec["postmerge"]], er) + " " + enc_listlist([f[1] for f in rec["postmerge"]], er))
    if "score" in rec:
        sc = rec["score"]
        ops.append(
            f"c08.params {enc_float(case.get('velocity') or 0.0)} {enc_float(diff)} {enc_float(case.get('sigma') or 1.0)} {enc_float(lt)} {enc_float(ps)}"
        )
        ans.append(enc_list([sc["vel"], sc["diffusion"], sc["sigma"]], enc_float))
    if "link_in" in rec and "score" in rec and lines is not None:
        frames = rec["link_in"]
        sc = rec["score"]
        lk_ = rec["link_kw"]
        ops.append(
            f"c08.link {int(lk_['window'])} {enc_float(sc['vel'])} {enc_float(sc['sigma'])} "
            f"{enc_float(sc['diffusion'])} {enc_float(lk_['sigma_cutoff'])} "
            f"{enc_listlist([f[0] for f in frames], enc_float)} {enc_listlist([f[2] for f in frames], enc_float)}"
        )
        tie = any(len(set(float(a) for a in f[2])) < len(f[2]) or len(set(float(c) for c in f[0])) < len(f[0]) for f in frames)
        ans.append(("TIE " if tie else "") + show_nodes(lines_to_nodes(frames, lines)))
        nodes = lines_to_nodes(frames, lines)
        if not tie and all(j >= 0 for tr in nodes for _, j in tr):
            # what the linker returns as (line index, coordinate) is `trackOf` of its node lists
            ops.append(f"c08.trackof {enc_listlist([f[0] for f in frames], lambda x: enc_rat(float(x)))} {show_nodes(nodes)}")
            ans.append(enc_listlist([[int(t) for t in l[0]] for l in lines]) + " " + enc_listlist([l[1] for l in lines], lambda x: enc_rat(float(x))))
    # photon counts of a few points, units of a few tracks
    pts = [(i, j) for i, t in enumerate(group) for j in range(len(t))]
    pick = pts[:: max(1, len(pts) // 4)][:4]
    for i, j in pick:
        t = group[i]
        tt = int(t.time_idx[j])
        c = float(lines[i][1][j]) if paired else float(t.coordinate_idx[j])
        col = [int(v) for v in img[:, tt]]
        ops.append(f"c08.sumwin {hw} {enc_list(col)} {enc_rat(c)} 1/2")
        ans.append(str(int(t.photon_counts[j])))
    for i in range(min(2, len(group))):
        t = group[i]
        raw = lines[i][1] if paired else t.coordinate_idx
        ops.append(f"c08.units {enc_rat(lt)} {enc_rat(ps)} {enc_list(t.time_idx)} {enc_list(raw, lambda x: enc_rat(float(x)))}")
        ans.append(
            " ".join(
                [
                    enc_list(t.seconds, enc_float),
                    enc_list(t.position, enc_float),
                    enc_list(t.coordinate_idx, enc_float),
                    enc_float(t.duration),
                ]
            )
        )
    return ans, ops


def run_link(case):
    """the linker on a synthetic peak list: the anchored mechanism itself, found by name and called by parameter name
    (no public entry takes peak lists: "?" when it is not reachable).  The public ties of the same behaviour are
    `run_link_public` (cases with via="image": the layout drawn into an image and tracked by lk.track_greedy) and the
    greedy stream (track_greedy's own peak lists through the same model op, the oracle on the tracks it returns)."""
    if case.get("via") == "image":
        return run_link_public(case)
    frames = case["frames"]  # list of [[coord, amp], ...]
    coords = [c for f in frames for c, _ in f]
    times = [i for i, f in enumerate(frames) for _ in f]
    amps = [a for f in frames for _, a in f]
    ops = [
        f"c08.link {case['window']} {enc_float(case['vel'])} {enc_float(case['sigma'])} {enc_float(case['diffusion'])} "
        f"{enc_float(case['cutoff'])} {enc_listlist([[c for c, _ in f] for f in frames], enc_float)} "
        f"{enc_listlist([[a for _, a in f] for f in frames], enc_float)}"
    ]
    kp, score, link = _find("KymoPeaks")[0], _find("kymo_score")[0], _find("points_to_line_segments")[0]
    kp_kw = {"coordinates": np.array(coords, dtype=float), "time_points": np.array(times, dtype=np.int64), "peak_amplitudes": np.array(amps, dtype=float)}
    sc_kw = {"vel": case["vel"], "sigma": case["sigma"], "diffusion": case["diffusion"]}
    if kp is None or score is None or link is None or _bound(kp, (), kp_kw) is None or _bound(score, (), sc_kw) is None:
        return [UNSEEN], ops
    try:
        peaks = kp(**kp_kw)
        model = score(**sc_kw)
        ln_kw = {"peaks": peaks, "prediction_model": model, "window": case["window"], "sigma_cutoff": case["cutoff"]}
        if _bound(link, (), ln_kw) is None:
            if _bound(link, (peaks, model), {"window": case["window"], "sigma_cutoff": case["cutoff"]}) is None:
                return [UNSEEN], ops
            run = lambda: link(peaks, model, window=case["window"], sigma_cutoff=case["cutoff"])  # noqa: E731
        else:
            run = lambda: link(**ln_kw)  # noqa: E731
        fr = [(np.array([c for c, _ in f]), None, np.array([a for _, a in f])) for f in frames]
        out = run()
        try:
            got = [(l.time_idx, l.coordinate_idx) for l in out]
        except AttributeError:
            return [UNSEEN], ops  # the lines carry their points under other names now
        nodes = lines_to_nodes(fr, got)
        nodes2 = lines_to_nodes(fr, [(l.time_idx, l.coordinate_idx) for l in run()])
        tie = any(len(set(a for _, a in f)) < len(f) or len(set(c for c, _ in f)) < len(f) for f in frames)
        a = ("TIE " if tie else "") + show_nodes(nodes)
        if nodes2 != nodes:
            a = "NONDETERMINISTIC " + a
        return [a], ops
    except Exception as e:
        return [errname(e)], ops


LINK_IMAGE_SPACING = 3


def scaled_link_case(case):
    """the linker case as the public tracker sees it when the peak layout is drawn into an image with one bright pixel per
    peak, LINK_IMAGE_SPACING pixels per grid step (peaks then neither share a dilation/centroid window of half width 1 nor
    leak into each other through the detection filter): coordinates 1 + 3c, velocity and sigma times 3, diffusion times 9
    (all exact in doubles for the dyadic grid values), so the cone edges fall on grid points exactly as before.  The peaks of
    a line are listed by increasing coordinate: the order in which peak detection presents them to the linker (it decides
    between two equally good candidates, and the start order of equal amplitudes)"""
    S = LINK_IMAGE_SPACING
    return dict(
        case,
        frames=[sorted([1.0 + S * c, a] for c, a in f) for f in case["frames"]],
        vel=S * case["vel"],
        sigma=S * case["sigma"],
        diffusion=S * S * case["diffusion"],
    )


def run_link_public(case):
    """the same linker case through the PUBLIC API only (no spy, no internal name): the peak layout is drawn into an
    uncalibrated kymograph with line time 1 s (so the parameter conversion of track_greedy is the identity, bit for bit),
    one pixel of value `amplitude` per peak on a dark background; `lk.track_greedy(track_width = 3 px, threshold 0.5,
    bias_correction=False)` detects exactly these pixels (integer centroids, amplitude = pixel value) and links them; the
    tracks are read from `time_idx`/`coordinate_idx` and compared with the model's `c08.link` on the drawn layout."""
    sc = scaled_link_case(case)
    frames = sc["frames"]
    ops = [
        f"c08.link {sc['window']} {enc_float(sc['vel'])} {enc_float(sc['sigma'])} {enc_float(sc['diffusion'])} "
        f"{enc_float(sc['cutoff'])} {enc_listlist([[c for c, _ in f] for f in frames], enc_float)} "
        f"{enc_listlist([[a for _, a in f] for f in frames], enc_float)}"
    ]
    # three dark rows below the last grid row: track_greedy refuses a threshold that no filtered pixel lies below, and in a
    # dense layout every other row is a peak or the neighbour of one
    n_pixels = int(max([c for f in frames for c, _ in f] + [3.0])) + 5
    image = [[0.0] * len(frames) for _ in range(n_pixels)]
    for t, f in enumerate(frames):
        for c, a in f:
            image[int(c)][t] = float(a)
    try:
        kymo = make_kymo({"image": image, "line_time": 1.0, "pixel_size_um": None})
        kw = {"track_width": 3.0, "pixel_threshold": 0.5, "window": sc["window"], "sigma": sc["sigma"], "velocity": sc["vel"],
              "diffusion": sc["diffusion"], "sigma_cutoff": sc["cutoff"], "bias_correction": False}
        group = _lk().track_greedy(kymo, "red", **kw)
        fr = [(np.array([c for c, _ in f]), None, np.array([a for _, a in f])) for f in frames]
        nodes = lines_to_nodes(fr, [(t.time_idx, t.coordinate_idx) for t in group])
        tie = any(len(set(a for _, a in f)) < len(f) or len(set(c for c, _ in f)) < len(f) for f in frames)
        return [("TIE " if tie else "") + show_nodes(nodes)], ops
    except Unreachable:
        raise
    except Exception as e:
        return [errname(e)], ops


_COLUMN_KYMOS = {}


def run_sumwin(case):
    """the photon-count window on one column: a one-line, uncalibrated kymograph (pixel size exactly 1, so the pixel
    coordinate is the stated one bit for bit), a one-point KymoTrack at the stated coordinate, and the PUBLIC
    `sample_from_image(half width, correct_origin=True)` (pixel centres at the integers) — the window
    `track_greedy`/`refine_tracks_centroid` sum their photon counts over (tied in the greedy and edit streams)"""
    col = case["col"]
    ops = [f"c08.sumwin {case['w']} {enc_list(col)} {enc_rat(case['c'])} 1/2"]
    key = tuple(col)
    try:
        if key not in _COLUMN_KYMOS:
            if len(_COLUMN_KYMOS) > 64:
                _COLUMN_KYMOS.clear()
            _COLUMN_KYMOS[key] = make_kymo({"image": [[v] for v in col], "line_time": 1.0, "pixel_size_um": None})
        t = make_track([0], [case["c"]], _COLUMN_KYMOS[key], 1.0)
        if t is None:
            return [UNSEEN], ops
        r = t.sample_from_image(case["w"], correct_origin=True)
        return [str(int(r[0]))], ops
    except Unreachable:
        raise
    except Exception as e:
        return [errname(e)], ops


def _rect_seen_by_peak_finder(case):
    """the pixel rectangle `track_greedy(rect=…)` hands to the peak finder on a kymograph with the stated line time and
    pixel size: (True, rect) or (False, None) when the spy on the peak finder cannot see it"""
    kymo = make_kymo({"image": small_image(), "line_time": case["line_time"], "pixel_size_um": case["pixel_size"]})
    sp = Spies()
    err = None
    try:
        with sp:
            _lk().track_greedy(kymo, "red", pixel_threshold=2.0, rect=tuple(tuple(p) for p in case["rect"]))
    except Exception as e:  # whatever happens after (or instead of) the call of the peak finder
        err = e
    fkp = sp.rec.get("fkp")
    if fkp is None or isinstance(fkp["rect"], str):
        if err is not None and _find("find_kymograph_peaks")[0] is not None:
            raise err
        return False, None
    return True, fkp["rect"]


def run_rect(case):
    (s0, x0), (s1, x1) = case["rect"]
    lt, ps = case["line_time"], case["pixel_size"]
    ops = [f"c08.rect {enc_rat(lt)} {enc_rat(ps)} {enc_rat(s0)} {enc_rat(x0)} {enc_rat(s1)} {enc_rat(x1)}"]
    try:
        seen, r = _rect_seen_by_peak_finder(case)  # public entry, observed at the anchored peak finder
        if not seen:
            f = _find("_to_pixel_rect")[0]  # the private helper, while it is there under this name
            if f is None or _bound(f, (case["rect"], ps, lt), {}) is None:
                return [UNSEEN], ops
            r = f(case["rect"], ps, lt)
        try:
            return ["none" if r is None else enc_list([r[0][0], r[0][1], r[1][0], r[1][1]])], ops
        except (TypeError, IndexError, ValueError):
            return [UNSEEN], ops
    except Unreachable:
        raise
    except Exception as e:
        return [errname(e)], ops


def run_units(case):
    lt, ps = case["line_time"], pixel_size(case)
    ops = [f"c08.units {enc_rat(lt)} {enc_rat(ps)} {enc_list(case['idx'])} {enc_list(case['coords'], lambda x: enc_rat(float(x)))}"]
    try:
        t = make_track(case["idx"], case["coords"], make_kymo(case), lt)
        if t is None:
            return [UNSEEN], ops
        try:
            dur = enc_float(t.duration)
        except IndexError:
            dur = "IndexError"
        return [" ".join([enc_list(t.seconds, enc_float), enc_list(t.position, enc_float), enc_list(t.coordinate_idx, enc_float), dur])], ops
    except Unreachable:
        raise
    except Exception as e:
        return [errname(e)], ops


def run_badparam(case):
    ps = pixel_size(case)
    tw = track_width_of(case)
    img = np.array(case["image"], dtype=float)
    thr = case.get("pixel_threshold")
    if thr is None:
        thr = float(np.percentile(img, 98))
    bound = float(np.nextafter(3 * ps, 0))
    ops = [f"c08.validate {enc_rat(tw)} {enc_rat(bound)} {enc_rat(thr)} {enc_rat(case.get('diffusion') or 0.0)}"]
    try:
        _lk().track_greedy(make_kymo(case), "red", **greedy_kwargs(case))
        return ["ok"], ops
    except Unreachable:
        raise
    except Exception as e:
        return [errname(e)], ops


def _thr_of(case, env):
    thr = case.get("pixel_threshold")
    if thr is None:
        thr = float(np.percentile(np.array(env["image"], dtype=float), 98))
    return thr


def _carry(stated, n):
    """which width the photon counts of n tracks were stated for, after an operation that only removes, cuts or joins
    tracks: known only when it was one and the same for every track before"""
    if stated and all(x is not None and x == stated[0] for x in stated):
        return [stated[0]] * n
    return [None] * n


def _regroup(like, tracks):
    """a KymoTrackGroup (the class of the group `like`, as the public tracker returned it) of the given tracks"""
    return type(like)(list(tracks))


def _private(obj, name, *args):
    """the private method `name` of obj, if it is (still) there and takes these arguments; _Skip otherwise — the step is
    then recorded as not reachable instead of surfacing an AttributeError/TypeError as an answer of the implementation"""
    m = getattr(obj, name, None)
    if m is None or not callable(m) or _bound(m, args, {}) is None:
        raise _Skip(name)
    return m


def _combine(groups, mix):
    """one group from the tracks of several kymographs"""
    if len(groups) == 1:
        return groups[0]
    if mix == "interleave":
        keyed = sorted(((j, i) for i, g in enumerate(groups) for j in range(len(g))))
        return _regroup(groups[0], [groups[i][j] for j, i in keyed])
    if mix == "sandwich":
        out = groups[0][:1]
        for g in groups[1:]:
            out = out + g
        return out + groups[0][1:]
    out = groups[0]
    for g in groups[1:]:
        out = out + g
    return out


def _modelable(tracks):
    """a dumped group that the model of the editing operations can be given: no empty track, finite coordinates"""
    return all(t["t"] and len(t["t"]) == len(t["cidx"]) and all(math.isfinite(x) for x in t["cidx"]) for t in tracks)


def enc_group(tracks):
    return enc_listlist([t["t"] for t in tracks]) + " " + enc_listlist([t["cidx"] for t in tracks], lambda x: enc_rat(float(x)))


def edit_model_ops(steps, envs, limit=8):
    """(op, answer of the implementation) for the steps of an editing program that the Lean model has (`spec`)"""
    out, prev = [], None
    for rec in steps:
        spec = rec.get("spec")
        if spec is not None and prev is not None and _modelable(prev) and len(out) < limit:
            lts = []
            for t in prev:
                k = _one_source(t.get("src", 0))
                lts.append(None if k is None else envs[k]["line_time"])
            if "tracks" in rec and not _modelable(rec["tracks"]):
                pass
            elif not spec.startswith("filter:") or (None not in lts and len(set(lts)) <= 1):
                lt = lts[0] if lts and lts[0] is not None else envs[0]["line_time"]
                out.append((f"c08.edit {enc_rat(lt)} {spec} {enc_group(prev)}", enc_group(rec["tracks"]) if "tracks" in rec else rec["refused"]))
            elif None not in lts and "tracks" in rec:
                # tracks of several kymographs with different line times: the filter decides track by track, in order
                for k in sorted({_one_source(t.get("src", 0)) for t in prev}):
                    if any(_one_source(t.get("src", 0)) is None for t in rec["tracks"]):
                        continue
                    after = [t for t in rec["tracks"] if _one_source(t.get("src", 0)) == k]
                    before = [t for t in prev if _one_source(t.get("src", 0)) == k]
                    out.append((f"c08.edit {enc_rat(envs[k]['line_time'])} {spec} {enc_group(before)}", enc_group(after)))
        if "tracks" in rec:
            prev = rec["tracks"]
    return out


def run_edit(case):
    """structural invariants, units and photon counts after editing/refining: judged by the oracle (the first op
    carries the dump); a few of the photon counts that a step reports for a stated width also go through the model"""
    kt = _lk()  # track_greedy, track_lines, filter_tracks, refine_tracks_centroid, refine_tracks_gaussian: public
    envs = envs_of(case)
    tw = track_width_of(case)
    bounds = [float(np.nextafter(3 * pixel_size(e), 0)) for e in envs]
    # the parameters are refused if one of the source kymographs refuses them (a default width never is)
    bound = max(bounds) if case.get("track_width") is not None else bounds[0]
    thr = min(_thr_of(case, e) for e in envs)
    ops = [f"c08.validate {enc_rat(tw)} {enc_rat(bound)} {enc_rat(thr)} {enc_rat(case.get('diffusion') or 0.0)}"]
    lines_tracker = case.get("tracker") == "lines"
    if lines_tracker:
        ops = ["c08.validate 1/1 0/1 1/1 0/1"]  # track_lines has none of these parameters; the op only carries the dump
    import warnings

    shw = case.get("sample_hw", 2)
    steps = []
    try:
        kymos = [make_kymo(e) for e in envs]
        with warnings.catch_warnings():
            warnings.simplefilter("ignore")
            if lines_tracker:
                groups = [kt.track_lines(k, "red", case["line_width"], case.get("max_lines", 10)) for k in kymos]
            else:
                groups = [kt.track_greedy(k, "red", **greedy_kwargs(case)) for k in kymos]
            group = _combine(groups, case.get("mix"))
        # [w]: the photon counts of the track were reported for the stated width w (None inside = the default width)
        stated = [[case["line_width"] if lines_tracker else case.get("track_width")] for _ in group]
        src = lambda t: source_of(t, kymos)  # noqa: E731
        steps.append({"step": "track", "tracks": dump_edit_group(group, kymos, shw), "stated": stated})
        for st in case["program"]:
            name = st[0]
            spec = None  # the step as an op of the Lean model of the editing operations (c08.edit), when it has one
            gauss = None  # a Gaussian refinement: which tracks of the group before the step went in, and how
            try:
                with warnings.catch_warnings():
                    warnings.simplefilter("ignore")
                    if name == "interpolate":
                        spec = "interp:"
                        group = _regroup(group, [t.interpolate() for t in group])
                        stated = [None] * len(group)
                    elif name == "split" and len(group):
                        tr = group[st[1] % len(group)]
                        meth = _private(group, "_split_track", tr, st[2] % (len(tr) + 1), st[3])
                        spec = f"split:{st[1] % len(group)}:{st[2] % (len(tr) + 1)}:{int(st[3])}"
                        meth(tr, st[2] % (len(tr) + 1), st[3])
                        stated = _carry(stated, len(group))
                    elif name == "merge" and len(group):
                        a, b = group[st[1] % len(group)], group[st[3] % len(group)]
                        if not same_source(src(a), src(b)):
                            raise ValueError("not-applicable: the two tracks are from different kymographs")
                        meth = _private(group, "_merge_tracks", a, st[2] % len(a), b, st[4] % len(b))
                        spec = f"merge:{st[1] % len(group)}:{st[2] % len(a)}:{st[3] % len(group)}:{st[4] % len(b)}"
                        meth(a, st[2] % len(a), b, st[4] % len(b))
                        stated = _carry(stated, len(group))
                    elif name == "filter":
                        spec = f"filter:{int(st[1])}:{enc_rat(st[2])}"
                        group = kt.filter_tracks(group, minimum_length=st[1], minimum_duration=st[2])
                        stated = _carry(stated, len(group))
                    elif name == "refine_centroid":
                        group = kt.refine_tracks_centroid(group, track_width=st[1], bias_correction=st[2])
                        stated = [[st[1]] for _ in group]
                    elif name == "refine_gaussian":
                        gauss = {"sel": list(range(len(group))), "missing": bool(st[2]), "strategy": st[3]}
                        group = kt.refine_tracks_gaussian(group, window=st[1], refine_missing_frames=st[2], overlap_strategy=st[3])
                        stated = [None] * len(group)
                    elif name == "remove_rect":
                        group.remove_tracks_in_rect([list(st[1][0]), list(st[1][1])], st[2])
                        stated = _carry(stated, len(group))
                    elif name == "interpolate_some" and len(group):
                        # only the selected tracks are interpolated, the others keep their localisation as it is
                        sel = _selected(st[1], len(group))
                        spec = "interp:" + ",".join(str(i) for i, s_ in enumerate(sel) if not s_)
                        group = _regroup(group, [t.interpolate() if s_ else t for t, s_ in zip(group, sel)])
                        stated = [None if s_ else x for x, s_ in zip(stated, sel)]
                    elif name == "refine_centroid_some" and len(group):
                        sel = _selected(st[1], len(group))
                        done = kt.refine_tracks_centroid(group[sel], track_width=st[2], bias_correction=st[3])
                        group = done + group[[not s_ for s_ in sel]]
                        stated = [[st[2]] for _ in done] + [x for x, s_ in zip(stated, sel) if not s_]
                    elif name == "refine_gaussian_some" and len(group):
                        sel = _selected(st[1], len(group))
                        gauss = {"sel": [i for i, s_ in enumerate(sel) if s_], "missing": bool(st[3]), "strategy": st[4]}
                        done = kt.refine_tracks_gaussian(group[sel], window=st[2], refine_missing_frames=st[3], overlap_strategy=st[4])
                        group = done + group[[not s_ for s_ in sel]]
                        stated = [None] * len(done) + [x for x, s_ in zip(stated, sel) if not s_]
                    elif name == "merge_other" and len(group) >= 2:
                        # two different tracks (of the same kymograph), the one that starts first connected to the other
                        i = st[1] % len(group)
                        a = group[i]
                        others = [t for t in list(group)[i + 1 :] + list(group)[:i] if same_source(src(t), src(a))]
                        if others:
                            b = others[st[3] % len(others)]
                            meth = _private(group, "_merge_tracks", a, st[2] % len(a), b, st[4] % len(b))
                            spec = f"merge:{i}:{st[2] % len(a)}:{[q is b for q in group].index(True)}:{st[4] % len(b)}"
                            meth(a, st[2] % len(a), b, st[4] % len(b))
                            stated = _carry(stated, len(group))
                    elif name == "merge_ends" and len(group) >= 2:
                        # the usual use: the last point of a track connected to the first point of a later one
                        i = st[1] % len(group)
                        a = group[i]
                        later = [t for t in group if t is not a and same_source(src(t), src(a)) and int(t.time_idx[0]) > int(a.time_idx[-1])]
                        if later:
                            b = later[st[2] % len(later)]
                            spec = f"merge:{i}:{len(a) - 1}:{[q is b for q in group].index(True)}:0"
                            try:
                                _private(group, "_merge_tracks", a, len(a) - 1, b, 0)(a, len(a) - 1, b, 0)
                            except _Skip:
                                # the public form of this very merge: the concatenation `a + b` of the two whole tracks,
                                # put in the place of the first one
                                joined = a + b
                                group = _regroup(group, [joined if t is a else t for t in group if t is not b])
                            stated = _carry(stated, len(group))
                    elif name == "regroup" and len(group):
                        # the same tracks in another order / a subset of them (indexing and `+` of groups)
                        if st[1] == "reverse":
                            group, stated = group[::-1], stated[::-1]
                        else:
                            sel = _selected(st[2], len(group))
                            if st[1] == "subset":
                                group, stated = group[sel], [x for x, s_ in zip(stated, sel) if s_]
                            else:  # the selected tracks first
                                group = group[sel] + group[[not s_ for s_ in sel]]
                                stated = [x for x, s_ in zip(stated, sel) if s_] + [x for x, s_ in zip(stated, sel) if not s_]
                if len(stated) != len(group):
                    stated = [None] * len(group)
                steps.append({"step": name, "tracks": dump_edit_group(group, kymos, shw), "stated": list(stated), "spec": spec})
                if gauss is not None:
                    steps[-1]["gauss"] = gauss
            except (ValueError, RuntimeError) as e:
                steps.append({"step": name, "refused": errname(e), "spec": spec})
            except _Skip as e:
                steps.append({"step": name, "unreachable": str(e)})
        ans = ["ok " + json.dumps({"steps": steps})]
        # a few of the photon counts each step reports for a stated width, through the model's window sum
        for st in steps:
            if "tracks" not in st or st["step"] not in ("track", "refine_centroid", "refine_centroid_some"):
                continue
            pts = [
                (k, i)
                for k, (t, w) in enumerate(zip(st["tracks"], st["stated"]))
                if w is not None and t["pc"] is not None and _one_source(t["src"]) is not None
                for i in range(len(t["t"]))
                if 0 <= t["t"][i] < len(envs[_one_source(t["src"])]["image"][0]) and math.isfinite(t["cidx"][i])
            ]
            for k, i in pts[:: max(1, len(pts) // 2)][:2]:
                t = st["tracks"][k]
                env = envs[_one_source(t["src"])]
                col = [int(row[t["t"][i]]) for row in env["image"]]
                ops.append(f"c08.sumwin {stated_half_width(st['stated'][k][0], env)} {enc_list(col)} {enc_rat(t['cidx'][i])} 1/2")
                ans.append(str(int(t["pc"][i])))
        # every interpolate / split / merge / filter step through the model of the editing operations: the group the real
        # code had before the step goes to `c08.edit`, which must answer the group the real code had after it (or refuse)
        for o, a in edit_model_ops(steps, envs):
            ops.append(o)
            ans.append(a)
        return ans, ops
    except Unreachable:
        raise
    except Exception as e:
        return [errname(e)], ops


def _one_source(src):
    """the index of the source kymograph of a dumped track when it is certain, else None"""
    if isinstance(src, list):
        return src[0] if len(src) == 1 else None
    return src if src >= 0 else None


def _selected(bits, n):
    """which of n tracks a subset operation applies to: bit (i mod 16) of `bits`; never none of them"""
    sel = [bool((bits >> (i % 16)) & 1) for i in range(n)]
    if not any(sel):
        sel[bits % n] = True
    return sel


def _apply_spec(lk, group, spec):
    """one editing step (in the notation of the model op) on a group, through the real code; returns the new group"""
    f = spec.split(":")
    if f[0] == "interp":
        skip = {int(x) for x in f[1].split(",")} if f[1] else set()
        return _regroup(group, [t if i in skip else t.interpolate() for i, t in enumerate(group)])
    if f[0] == "split":
        tr = group[int(f[1])]
        _private(group, "_split_track", tr, int(f[2]), int(f[3]))(tr, int(f[2]), int(f[3]))
        return group
    if f[0] == "merge":
        a, b = group[int(f[1])], group[int(f[3])]
        _private(group, "_merge_tracks", a, int(f[2]), b, int(f[4]))(a, int(f[2]), b, int(f[4]))
        return group
    if f[0] == "filter":
        return lk.filter_tracks(group, minimum_length=int(f[1]), minimum_duration=float(Fraction(f[2])))
    raise ValueError("unknown step " + spec)


def _resolve_spec(spec, group):
    """track indices and merge nodes of a generated step reduced to the group as it is now (a program changes the number
    of tracks); None when there is no track left.  Split nodes stay as they are: clipping them is the code's business."""
    f = spec.split(":")
    n = len(group)
    if f[0] in ("split", "merge") and n == 0:
        return None
    if f[0] == "interp":
        return "interp:" + ",".join(sorted({str(int(x) % n) for x in f[1].split(",")}, key=int)) if f[1] and n else "interp:"
    if f[0] == "split":
        return f"split:{int(f[1]) % n}:{f[2]}:{f[3]}"
    if f[0] == "merge":
        i, j = int(f[1]) % n, int(f[3]) % n
        return f"merge:{i}:{int(f[2]) % max(1, len(group[i]))}:{j}:{int(f[4]) % max(1, len(group[j]))}"
    return spec


def run_editops(case):
    """the editing operations themselves on hand-made tracks (documented KymoTrack constructor, the group class the public
    tracker returns): `each` = every step applied to a fresh copy of the initial group, otherwise the steps in sequence;
    each step through `c08.edit`, a sequence also as a whole through `c08.editprog`"""
    lk = _lk()
    lt = case["line_time"]
    env = {"image": [[0] * case["n_lines"] for _ in range(case["n_pixels"])], "line_time": lt, "pixel_size_um": case.get("pixel_size_um")}
    ops = ["c08.validate 1/1 0/1 1/1 0/1"]  # carries the dump for the oracle
    kymo = make_kymo(env)
    g_cls = _classes()[0]

    def build():
        tracks = [make_track([p[0] for p in tr], [p[1] for p in tr], kymo, lt) for tr in case["tracks"]]
        return None if g_cls is None or any(t is None for t in tracks) else g_cls(tracks)

    import warnings

    group = build()
    if group is None:
        return [UNSEEN], ops
    init = dump_group(group)
    results, ans = [], [None]
    prev, seq_ok = init, True
    done = []
    for spec in case["program"]:
        if case.get("each"):
            group, prev = build(), init
        spec = _resolve_spec(spec, group)
        if spec is None:
            continue
        done.append(spec)
        rec = {"spec": spec}
        try:
            with warnings.catch_warnings():
                warnings.simplefilter("ignore")
                group = _apply_spec(lk, group, spec)
            rec["tracks"] = dump_group(group)
            a = enc_group(rec["tracks"])
        except (ValueError, RuntimeError, IndexError) as e:
            rec["refused"] = a = errname(e)
        except _Skip as e:
            rec["unreachable"] = str(e)
            a, seq_ok = UNSEEN, False
        results.append(rec)
        if _modelable(prev) and ("tracks" not in rec or _modelable(rec["tracks"])):
            ops.append(f"c08.edit {enc_rat(lt)} {spec} {enc_group(prev)}")
            ans.append(a)
        if "tracks" in rec:
            prev = rec["tracks"]
    if not case.get("each") and done and _modelable(init):
        ops.append(f"c08.editprog {enc_rat(lt)} {'|'.join(done)} {enc_group(init)}")
        ans.append(enc_group(prev) if seq_ok else UNSEEN)
    ans[0] = "ok " + json.dumps({"init": init, "results": results})
    return ans, ops


def run_mergeclose(case):
    """`merge_close_peaks` itself on one hand-made frame (found by name, called by parameter name; "?" when not reachable)"""
    kp, _ = _find("KymoPeaks")
    mcp, _ = _find("merge_close_peaks")
    fr = case["frame"]
    er = lambda x: enc_rat(float(x))  # noqa: E731
    ops = [f"c08.mergeclose {enc_rat(case['md'])} {enc_listlist([[c for c, _ in fr]], er)} {enc_listlist([[a for _, a in fr]], er)}"]
    try:
        ok, peaks = _call_named(
            kp, coordinates=np.array([c for c, _ in fr], dtype=float), time_points=np.zeros(len(fr), dtype=int),
            peak_amplitudes=np.array([a for _, a in fr], dtype=float),
        )
        if not ok:
            return [UNSEEN], ops
        ok, res = _call_named(mcp, peaks=peaks, minimum_distance=case["md"])
        if not ok:
            return [UNSEEN], ops
        try:
            f = res.frames[0]
            seen = enc_listlist([f.coordinates], er) + " " + enc_listlist([f.peak_amplitudes], er)
        except (AttributeError, TypeError):
            return [UNSEEN], ops  # the result carries its data under other names now: not an answer of the implementation
        return [seen], ops
    except Exception as e:
        return [errname(e)], ops


EPS_MOMENT = 1e-7  # the documented default `eps` of refine_peak_based_on_moment


def run_refine(case):
    """centroid refinement without bias correction on hand-made tracks and integer images: the public
    `lk.refine_tracks_centroid(group, track_width, bias_correction=False)` against `c08.refine`, and the anchored pixel
    walk itself (`refine_peak_based_on_moment`, found by name, called by parameter name) against `c08.moment`"""
    import warnings

    lk = _lk()
    img, ps = case["image"], pixel_size(case)
    n, n_lines = len(img), len(img[0])
    w = case["width_px"]
    h = int(math.ceil(w)) // 2
    cols = enc_listlist([[int(img[r][t]) for r in range(n)] for t in range(n_lines)])
    ops = ["c08.validate 1/1 0/1 1/1 0/1"]
    ans = [None]
    if case.get("walk_only"):
        # an array with negative entries (not a photon-count image: outside the property, no oracle): only here do the
        # clamps of the pixel walk stop a point, so only here is that branch of the model compared with the code
        out = {"walk_only": True}
    else:
        kymo = make_kymo(case)
        g_cls = _classes()[0]
        tracks = [make_track([q[0] for q in tr], [q[1] for q in tr], kymo, case["line_time"]) for tr in case["tracks"]]
        if g_cls is None or any(t is None for t in tracks):
            return [UNSEEN], ops
        group = g_cls(tracks)
        init = dump_group(group)
        out = {"init": init, "h": h}
        try:
            with warnings.catch_warnings():
                warnings.simplefilter("ignore")
                refined = lk.refine_tracks_centroid(group, track_width=w * ps, bias_correction=False)
            out["tracks"] = dump_group(refined)
            a = enc_group(out["tracks"])
        except (ValueError, RuntimeError, IndexError) as e:
            out["refused"] = a = errname(e)
        ops.append(f"c08.refine {enc_rat(EPS_MOMENT)} {h} {n} {cols} {enc_group(init)}")
        ans.append(a)
        # the same hand-made tracks (a fresh group) with the bias correction switched on (the iteration of
        # `unbiased_centroid` is outside the model): judged by the oracle
        fresh = g_cls([make_track([q[0] for q in tr], [q[1] for q in tr], kymo, case["line_time"]) for tr in case["tracks"]])
        try:
            with warnings.catch_warnings():
                warnings.simplefilter("ignore")
                out["bias_corrected"] = {"tracks": dump_group(lk.refine_tracks_centroid(fresh, track_width=w * ps, bias_correction=True))}
        except Exception as e:
            out["bias_corrected"] = {"refused": errname(e)}
        if case.get("gauss"):
            # the same hand-made tracks (a fresh group) through the public Gaussian refinement: judged by the oracle
            win, missing, strategy = case["gauss"]
            fresh = g_cls([make_track([q[0] for q in tr], [q[1] for q in tr], kymo, case["line_time"]) for tr in case["tracks"]])
            g = {"sel": list(range(len(fresh))), "missing": bool(missing), "strategy": strategy}
            try:
                with warnings.catch_warnings():
                    warnings.simplefilter("ignore")
                    g["tracks"] = dump_group(lk.refine_tracks_gaussian(fresh, window=win, refine_missing_frames=missing, overlap_strategy=strategy))
            except Exception as e:
                g["refused"] = errname(e)
            out["gauss"] = g
        if case.get("program"):
            # a program of editing steps and refinements on the same image: each step through c08.edit / c08.refine (from the
            # group the real code had before it), the whole program through c08.steps
            group = g_cls([make_track([q[0] for q in tr], [q[1] for q in tr], kymo, case["line_time"]) for tr in case["tracks"]])
            prev, done, seq = init, [], []
            for spec in case["program"]:
                rec = {"spec": spec}
                try:
                    with warnings.catch_warnings():
                        warnings.simplefilter("ignore")
                        if spec.startswith("refine:"):
                            wi = int(spec.split(":")[1])
                            mspec = f"refine:{int(math.ceil(wi)) // 2}"
                            rec["h"], rec["w"] = int(math.ceil(wi)) // 2, wi
                            group = lk.refine_tracks_centroid(group, track_width=wi * ps, bias_correction=False)
                        else:
                            mspec = _resolve_spec(spec, group)
                            if mspec is None:
                                continue
                            group = _apply_spec(lk, group, mspec)
                    rec["tracks"] = dump_group(group)
                    a = enc_group(rec["tracks"])
                except (ValueError, RuntimeError, IndexError) as e:
                    rec["refused"] = a = errname(e)
                except _Skip:
                    break
                rec["mspec"] = mspec
                if _modelable(prev) and ("tracks" not in rec or _modelable(rec["tracks"])):
                    if mspec.startswith("refine:"):
                        ops.append(f"c08.refine {enc_rat(EPS_MOMENT)} {rec['h']} {n} {cols} {enc_group(prev)}")
                    else:
                        ops.append(f"c08.edit {enc_rat(case['line_time'])} {mspec} {enc_group(prev)}")
                    ans.append(a)
                done.append(mspec)
                seq.append(rec)
                if "tracks" in rec:
                    prev = rec["tracks"]
            else:
                if done and _modelable(init) and _modelable(prev):
                    ops.append(f"c08.steps {enc_rat(EPS_MOMENT)} {enc_rat(case['line_time'])} {n} {cols} {'|'.join(done)} {enc_group(init)}")
                    ans.append(enc_group(prev))
            out["program"] = seq
    # the pixel walk itself, from the rounded points of the first track
    f, _ = _find("refine_peak_based_on_moment")
    pts = [(int(round(c)), int(t)) for t, c in case["tracks"][0] if 0 <= int(round(c)) < n]
    if pts:
        ops.append(f"c08.moment {enc_rat(EPS_MOMENT)} {h} {n} {cols} [{','.join(f'{c}:{t}' for c, t in pts)}]")
        try:
            ok, r = _call_named(
                f, data=np.array(img, dtype=float), coordinates=np.array([c for c, _ in pts]), time_points=np.array([t for _, t in pts]),
                half_kernel_size=h, bias_correction=False,
            )
            ans.append(enc_list([float(x) for x in r[0]], lambda x: enc_rat(float(x))) + " " + enc_list([int(round(float(x))) for x in r[2]]) if ok else UNSEEN)
        except (ValueError, RuntimeError, IndexError) as e:
            ans.append(errname(e))
    ans[0] = "ok " + json.dumps(out)
    return ans, ops


RUNNERS = {
    "editops": run_editops,
    "refine": run_refine,
    "mergeclose": run_mergeclose,
    "greedy": run_greedy,
    "link": run_link,
    "sumwin": run_sumwin,
    "rect": run_rect,
    "units": run_units,
    "badparam": run_badparam,
    "edit": run_edit,
}


def impl(case):
    return list(computed(case)[0])


def ops(case):
    return list(computed(case)[1])


# ------------------------------------------------------------------ agreement


def _close(a, b, rel=1e-12, abs_=1e-300):
    if a == b:
        return True
    return abs(a - b) <= max(rel * max(abs(a), abs(b)), abs_)


def _dec_listlist(s_, f):
    inner = s_.strip()[1:-1]
    return [[f(x) for x in part.split(",")] if part else [] for part in inner.split(";")] if inner != "" else []


def link_hangs_on_last_bits(op, rel=1e-12):
    """a `c08.link` op in which some linking decision depends on the last bits of the float evaluation: within the window,
    a peak lies within rel (1e-12, relative to the size of the numbers involved) of the edge of the cone of an earlier peak
    WITHOUT lying exactly on it, or two peaks of one line are that close to equally far from the position predicted from an
    earlier peak WITHOUT being exactly equally far.  "Exactly" is decided in rational arithmetic on the doubles (the
    square root by squaring), so the exact-tie cases of the small scope and the corpus keep their full strictness."""
    toks = op.split(" ")
    try:
        window = int(toks[1])
        vel, sigma, diffusion, cutoff = (dec_float(x) for x in toks[2:6])
        coords = _dec_listlist(toks[6], dec_float)
    except Exception:
        return False
    if not all(math.isfinite(v) for v in (vel, sigma, diffusion, cutoff)) or diffusion < 0 or cutoff < 0:
        return False
    reach = max(window, 1)
    F = Fraction
    for f1, tips in enumerate(coords):
        for f2 in range(f1 + 1, min(len(coords), f1 + reach + 1)):
            cands = coords[f2]
            if not cands:
                continue
            dt = f2 - f1
            lim = cutoff * (sigma + math.sqrt(2 * diffusion * dt))
            for x in tips:
                mu = x + vel * dt
                devs = [abs(c - mu) for c in cands]
                scale = max(1.0, abs(mu), abs(lim), max(abs(c) for c in cands))
                for c, d in zip(cands, devs):
                    if abs(d - lim) <= rel * scale:
                        # exactly on the edge?  |c - x - v dt| - k sigma == sqrt(2 D dt k^2)
                        a_ = abs(F(c) - F(x) - F(vel) * dt) - F(cutoff) * F(sigma)
                        s_ = 2 * F(diffusion) * dt * F(cutoff) ** 2
                        if not (a_ >= 0 and a_ * a_ == s_):
                            return True
                for j in range(len(cands)):
                    for k in range(j + 1, len(cands)):
                        if abs(devs[j] - devs[k]) <= rel * scale and min(devs[j], devs[k]) <= lim + rel * scale:
                            dj = abs(F(cands[j]) - F(x) - F(vel) * dt)
                            dk = abs(F(cands[k]) - F(x) - F(vel) * dt)
                            if dj != dk:
                                return True
    return False


def agree(case, i, ia, ma):
    op, op_coord = op_info(case, i)
    if ia == UNSEEN:
        # an observation of an internal mechanism that the harness could not make on this code (the function, parameter
        # or attribute it is read from goes under another name): nothing to compare; the oracle judges the public results
        return True
    if ma == "bad-op":
        return False
    if op == "c08.validate":
        first = ia.split(" ", 1)[0]
        if first == ma:
            return True
        if case.get("tracker") == "lines":
            # the op is a carrier of the dump only (track_lines has no modelled parameter validation). track_lines
            # gives up with a ValueError on images without a single line-like pixel (all dark, a smooth gradient, some
            # 3-line images): no track is produced, the property says nothing about it; counted in error_kinds
            # ... but not on an image with a bright spot that is large enough for the line width (`has_bright_feature`): the oracle says so
            return ma == "ok" and first == "ValueError" and not has_bright_feature(case)
        if ma == "ok" and first == "RuntimeError" and case["op"] in ("greedy", "badparam", "edit"):
            # "threshold not above the lowest filtered pixel": depends on SciPy's filter, outside the model
            return _threshold_below_min(case)
        return False
    if op == "c08.link":
        if ia.startswith("TIE "):
            return True
        if ia == ma:
            return True
        # the model takes the linking decisions on the same doubles with the expression the code uses today; an
        # algebraically equal expression may round the other way when a peak sits within the last bits of the cone edge
        # (or two peaks within the last bits of equally far from the prediction).  Such a case says nothing; exact ties
        # (a peak exactly ON the edge, two peaks exactly equally far) stay decided: strict inequality, first maximum
        return (not ia.endswith("Error")) and link_hangs_on_last_bits(computed(case)[1][i])
    if op == "c08.params":
        try:
            a = dec_list(ia, dec_float)
            m = dec_list(ma, dec_float)
        except Exception:
            return False
        ok = _close(a[0], m[0]) and _close(a[1], m[1])
        if case.get("sigma"):
            return ok and _close(a[2], m[2])
        return ok and a[2] == float(half_width_of(case))
    if op == "c08.sumwin":
        toks = ma.split(" ")
        if len(toks) != 4:
            return False
        if ia == toks[2]:
            return True
        c = Fraction(op_coord.split("/")[0]) / Fraction(op_coord.split("/")[1])
        x = c + Fraction(1, 2)
        near = abs(x - round(x)) < Fraction(1, 10**9)
        return near and ia in (toks[1], toks[3])
    if op == "c08.units":
        it, mt = ia.split(" "), ma.split(" ")
        if len(it) != 4 or len(mt) != 4:
            return False
        for k in range(3):
            a = dec_list(it[k], dec_float)
            m = dec_list(mt[k], lambda s: float(dec_rat(s)))
            if len(a) != len(m) or not all(_close(x, y, 1e-12, 1e-300) for x, y in zip(a, m)):
                return False
        if mt[3] == "IndexError" or it[3] == "IndexError":
            return mt[3] == it[3]
        d = float(dec_rat(mt[3]))
        scale = max([abs(float(dec_rat(s))) for s in dec_list(mt[0], str)] + [1e-300])
        return abs(dec_float(it[3]) - d) <= 1e-12 * scale
    if op == "c08.frames":
        return ia == ma
    if op == "c08.mergeclose":
        # `abs(diff(coordinates)) < minimum_distance` is decided on the rounded difference of two doubles
        return ia == ma or mergeclose_hangs_on_last_bits(computed(case)[1][i])
    if op == "c08.moment":
        if ia == ma:
            return True
        it, mt = ia.split(" "), ma.split(" ")
        if len(it) != 2 or len(mt) != 2 or it[1] != mt[1]:
            return False
        a, m = dec_list(it[0], lambda x: float(dec_rat(x))), dec_list(mt[0], lambda x: float(dec_rat(x)))
        return len(a) == len(m) and all(abs(u - v) <= 1e-9 * max(1.0, abs(u), abs(v)) for u, v in zip(a, m))
    if op == "c08.steps" and ia != ma:
        # the whole program: every refinement starts from np.round of doubles; if any group the real code had before a
        # refinement has an interpolated coordinate within the last bits of a half-integer the program says nothing
        # (each step is compared on its own from the group the real code had before it)
        try:
            d = json.loads(computed(case)[0][0][3:])
            prev = d["init"]
            for rec in d.get("program", []):
                if rec.get("mspec", "").startswith("refine:") and refine_hangs_on_rounding("c08.refine e h n cols " + enc_group(prev)):
                    return True
                if "tracks" in rec:
                    prev = rec["tracks"]
        except Exception:
            pass
    if op in ("c08.edit", "c08.editprog", "c08.trackof", "c08.refine", "c08.steps"):
        if ia == ma:
            return True
        it, mt = ia.split(" "), ma.split(" ")
        if len(it) == 2 and len(mt) == 2 and it[0] == mt[0]:
            # the same tracks with the same line indices; coordinates within 1e-9 (np.interp and the position/pixel size
            # round trip are evaluated in doubles, the model over the rationals)
            try:
                a, m = _dec_listlist(it[1], lambda x: float(dec_rat(x))), _dec_listlist(mt[1], lambda x: float(dec_rat(x)))
            except Exception:
                return False
            if len(a) == len(m) and all(
                len(x) == len(y) and all(abs(u - v) <= 1e-9 * max(1.0, abs(u), abs(v)) for u, v in zip(x, y)) for x, y in zip(a, m)
            ):
                return True
            # the starting pixel is np.round of a double: a coordinate within the last bits of a half-integer says nothing
            return op == "c08.refine" and refine_hangs_on_rounding(computed(case)[1][i])
        # `duration >= minimum_duration` is decided on doubles: lenient only when the double duration of some track is not
        # the exact one and the exact one is within 1e-9 of the minimum (counted in the evidence)
        return op == "c08.edit" and filter_hangs_on_last_bits(computed(case)[1][i])
    return ia == ma


def mergeclose_hangs_on_last_bits(op):
    toks = op.split(" ")
    try:
        md = Fraction(dec_rat(toks[1]))
        for cs in _dec_listlist(toks[2], lambda x: Fraction(dec_rat(x))):
            for i in range(len(cs)):
                for j in range(i + 1, len(cs)):
                    if 0 < abs(abs(cs[i] - cs[j]) - md) <= Fraction(1, 10**12) * max(1, md):
                        return True
    except Exception:
        return False
    return False


def agree_plain_group(a, m):
    try:
        if a.split(" ")[0] != m.split(" ")[0]:
            return False
        x, y = (_dec_listlist(v.split(" ")[1], lambda q: float(dec_rat(q))) for v in (a, m))
        return all(len(p) == len(q) and all(abs(u - v) <= 1e-9 * max(1.0, abs(u), abs(v)) for u, v in zip(p, q)) for p, q in zip(x, y))
    except Exception:
        return False


def refine_hangs_on_rounding(op):
    """a `c08.refine` op in which some interpolated coordinate lies within 1e-9 of a half-integer WITHOUT lying exactly on
    it (rational arithmetic on the doubles): np.round of the double then decides the starting pixel either way"""
    toks = op.split(" ")
    try:
        times = _dec_listlist(toks[5], int)
        coords = _dec_listlist(toks[6], lambda x: Fraction(dec_rat(x)))
        for ts, cs in zip(times, coords):
            for (t0, c0), (t1, c1) in zip(zip(ts, cs), zip(ts[1:], cs[1:])):
                for t in range(t0, t1 + 1):
                    x = c0 + (c1 - c0) * Fraction(t - t0, t1 - t0)
                    d = abs(x - math.floor(x) - Fraction(1, 2))
                    if 0 < d <= Fraction(1, 10**9):
                        return True
    except Exception:
        return False
    return False


def filter_hangs_on_last_bits(op):
    toks = op.split(" ")
    try:
        lt, spec = Fraction(toks[1]), toks[2].split(":")
        if spec[0] != "filter":
            return False
        min_dur = Fraction(spec[2])
        ltf = float(lt)
        for ts in _dec_listlist(toks[3], int):
            exact = lt * (ts[-1] - ts[0])
            if Fraction(ltf * ts[-1] - ltf * ts[0]) != exact and abs(exact - min_dur) <= Fraction(1, 10**9) * max(abs(min_dur), abs(exact)):
                return True
    except Exception:
        return False
    return False


def _threshold_below_min(case):
    import scipy.ndimage

    fw = case.get("filter_width")
    for env in envs_of(case):  # any of the source kymographs of the case may refuse the threshold
        img = np.array(env["image"], dtype=float)
        w = 0.5 if fw is None else fw / (env.get("pixel_size_um") or 1.0)
        thr = _thr_of(case, env)
        if thr <= np.min(scipy.ndimage.gaussian_filter(img, [w, 0], output=float)) * (1 + 1e-9) + 1e-12:
            return True
    return False


# ------------------------------------------------------------------ oracle (plain Python from the property text)


def well_formed(tracks, n_pixels, n_lines, ps, where, first=0):
    """strictly increasing integer scan-line indices inside the kymograph, positions inside the image"""
    for k, t in enumerate(tracks, first):
        ts = t["t"]
        if not t.get("t_int", True):
            return f"well-formed: {where} track {k} has non-integer line indices"
        if any(b <= a for a, b in zip(ts, ts[1:])):
            return f"well-formed: {where} track {k} line indices not strictly increasing: {ts[:20]}"
        if ts and (ts[0] < 0 or ts[-1] >= n_lines):
            return f"well-formed: {where} track {k} leaves the kymograph (lines {ts[0]}..{ts[-1]} of {n_lines})"
        for x in t["pos"]:
            c = x / ps
            if not (-0.5 - 1e-9 <= c <= n_pixels - 0.5 + 1e-9):
                return f"well-formed: {where} track {k} position {x} (pixel {c}) outside the image of {n_pixels} pixels"
        if len(t["pos"]) != len(ts):
            return f"well-formed: {where} track {k} has {len(ts)} times and {len(t['pos'])} positions"
    return None


def pixel_of(c):
    """the pixel that contains coordinate c (pixel centres at the integers): k - 1/2 <= c < k + 1/2"""
    return math.floor(Fraction(c) + Fraction(1, 2))


def window_sum(col, w, k):
    return sum(v for r, v in enumerate(col) if abs(r - k) <= w)


def oracle_greedy(case, ia):
    if ia[0] == UNSEEN:
        return None
    if not ia[0].startswith("ok "):
        # refusing parameters is judged by the correspondence of c08.validate; valid-looking cases must not fail
        if ia[0] in ("ValueError", "RuntimeError"):
            return None
        return f"track_greedy raised {ia[0]}"
    d = json.loads(ia[0][3:])
    tracks, peaks = d["tracks"], d["peaks"]
    img = case["image"]
    n_pixels, n_lines = len(img), len(img[0])
    ps, lt = pixel_size(case), case["line_time"]
    r = well_formed(tracks, n_pixels, n_lines, ps, "track_greedy")
    if r:
        return r
    # deterministic
    if d["again"] != [{k: v for k, v in t.items() if k != "raw"} for t in tracks]:
        return "deterministic: two runs of track_greedy on the same input differ"
    # gaps
    window = case.get("window") if case.get("window") is not None else 8
    for k, t in enumerate(tracks):
        for a, b in zip(t["t"], t["t"][1:]):
            if b - a > max(window, 1):
                return f"gap: track {k} jumps from line {a} to {b} with window {window}"
    # every detected peak in exactly one track.  The detected peaks are internal data (the per-line peak lists handed to the
    # linker): compared while they can be seen; the public part of the clause — no point in two tracks — always
    seen = peaks is not None and d.get("n_lines_raw") is not None
    if seen:
        if tracks and any("raw" not in t for t in tracks):
            return "partition: the number of tracks differs from the number of lines the linker returned"
        have = sorted((t["t"][i], t["raw"][i]) for t in tracks for i in range(len(t["t"])))
        want = sorted((f, c) for f, cs in enumerate(peaks) for c in cs)
        if have != want:
            return f"partition: track points {have[:6]}… are not exactly the detected peaks {want[:6]}… ({len(have)} vs {len(want)})"
    else:
        pts = sorted((t["t"][i], t["cidx"][i]) for t in tracks for i in range(len(t["t"])))
        pub = d.get("peaks_public")
        if pub is not None:
            # the detected peaks as the public tracker itself reports them with an empty cone (two detections may share one
            # coordinate: merge_close_peaks can leave the outer two of three coincident detections)
            if [list(p) for p in pts] != [list(p) for p in pub]:
                return f"partition: track points {pts[:6]}… are not exactly the peaks detected with an empty cone {pub[:6]}… ({len(pts)} vs {len(pub)})"
        else:
            for p, q in zip(pts, pts[1:]):
                if p == q:
                    return f"partition: the point (line {p[0]}, pixel {p[1]}) is in two tracks"
    # the pixel coordinates the tracker worked with: as the linker returned them while that can be seen (`raw`), else the
    # track's own public pixel coordinates (position / pixel size: the same numbers up to the rounding of that round trip)
    for t in tracks:
        if "raw" not in t:
            t["raw"], t["raw_is_cidx"] = t["cidx"], True
    for k, t in enumerate(tracks):
        for c, r_ in zip(t["cidx"], t["raw"]):
            if abs(c - r_) > 4 * abs(np.spacing(r_)) + 1e-300:
                return f"units: coordinate_idx {c} differs from the tracked coordinate {r_}"
    # rectangle (pixel rectangle = corners truncated toward zero, as documented in _to_pixel_rect)
    if case.get("rect") is not None:
        (s0, x0), (s1, x1) = case["rect"]
        t0, t1 = int(Fraction(s0) / Fraction(lt)), int(Fraction(s1) / Fraction(lt))
        p0, p1 = int(Fraction(x0) / Fraction(ps)), int(Fraction(x1) / Fraction(ps))
        for k, t in enumerate(tracks):
            slack = 4 * float(np.spacing(float(max(abs(p0), abs(p1), 1)))) if t.get("raw_is_cidx") else 0.0
            for tt, c in zip(t["t"], t["raw"]):
                if not (t0 <= tt < t1 and p0 - slack <= c < p1 + slack):
                    return f"rect: track {k} has point (line {tt}, pixel {c}) outside the rectangle lines [{t0},{t1}) pixels [{p0},{p1})"
        # ... and every detected peak inside it is a point of exactly one track: a peak that is tracked when no rectangle
        # is asked for and lies inside the rectangle (1e-9 away from its pixel edges: the crop is decided on the
        # tracker's doubles) is a detected peak of this run as well
        have = {}
        for t in tracks:
            for tt, c in zip(t["t"], t["cidx"]):
                have.setdefault(tt, []).append(c)
        for tt, c in d.get("norect") or []:
            if t0 <= tt < t1 and p0 + 1e-9 <= c < p1 - 1e-9:
                if not any(abs(c - c2) <= 4 * abs(float(np.spacing(c))) + 1e-300 for c2 in have.get(tt, [])):
                    return (
                        f"partition: the peak (line {tt}, pixel {c}) is detected and tracked without the rectangle, lies inside "
                        f"the rectangle lines [{t0},{t1}) pixels [{p0},{p1}) and is in no track of the run with the rectangle"
                    )
    # cone, in physical units
    v = case.get("velocity") or 0.0
    D = case.get("diffusion") or 0.0
    cutoff = case.get("sigma_cutoff") if case.get("sigma_cutoff") is not None else 2.0
    sigma = case["sigma"] if case.get("sigma") else half_width_of(case) * ps
    for k, t in enumerate(tracks):
        for i in range(len(t["t"]) - 1):
            dt = (t["t"][i + 1] - t["t"][i]) * lt
            x_a, x_b = t["raw"][i] * ps, t["raw"][i + 1] * ps
            dist = abs(x_b - (x_a + v * dt))
            lim = cutoff * (sigma + math.sqrt(2 * D * dt))
            if not dist < lim * (1 + 1e-9) + 1e-12 * ps:
                return f"cone: track {k} links line {t['t'][i]} to {t['t'][i + 1]}: |{x_b} - ({x_a} + {v}*{dt})| = {dist} >= {lim}"
    # units and photon counts
    hw = half_width_of(case)
    for k, t in enumerate(tracks):
        for i, tt in enumerate(t["t"]):
            if not _close(t["sec"][i], tt * lt, 1e-12):
                return f"units: seconds {t['sec'][i]} != line {tt} * line time {lt}"
            if not _close(t["pos"][i], t["raw"][i] * ps, 1e-12):
                return f"units: position {t['pos'][i]} != pixel coordinate {t['raw'][i]} * pixel size {ps}"
            col = [row[tt] for row in img]
            kpx = pixel_of(t["raw"][i])
            x = Fraction(t["raw"][i]) + Fraction(1, 2)
            alts = [kpx] + ([kpx - 1, kpx + 1] if abs(x - round(x)) < Fraction(1, 10**9) else [])
            if t["pc"] is None or all(t["pc"][i] != window_sum(col, hw, kk) for kk in alts):
                return (
                    f"photon-count: track {k} point (line {tt}, pixel {t['raw'][i]}) reports {None if t['pc'] is None else t['pc'][i]}, "
                    f"the window of half width {hw} centred on pixel {kpx} sums to {window_sum(col, hw, kpx)}"
                )
        if t["t"] and not _close(t["dur"], t["t"][-1] * lt - t["t"][0] * lt, 1e-9, 1e-15 * max(1.0, abs(t["t"][-1] * lt))):
            return f"units: duration {t['dur']} != last - first time = {t['t'][-1] * lt - t['t'][0] * lt}"
    return None


def oracle_link(case, ia):
    a = ia[0]
    if a == UNSEEN:
        return None
    if a.startswith("NONDETERMINISTIC"):
        return "deterministic: two runs of the linker on the same peaks differ"
    if a.endswith("Error"):
        return f"linker raised {a}"
    tracks = parse_nodes(a)
    if case.get("via") == "image":
        case = scaled_link_case(case)
    frames = case["frames"]
    flat = [n for tr in tracks for n in tr]
    want = sorted((f, j) for f, fr in enumerate(frames) for j in range(len(fr)))
    if sorted(flat) != want:
        return f"partition: track points {sorted(flat)[:8]} are not exactly the peaks {want[:8]}"
    for tr in tracks:
        fs = [f for f, _ in tr]
        if any(b <= a_ for a_, b in zip(fs, fs[1:])):
            return f"well-formed: line indices not strictly increasing {fs}"
        for (f1, j1), (f2, j2) in zip(tr, tr[1:]):
            if f2 - f1 > max(case["window"], 1):
                return f"gap: jump from line {f1} to {f2} with window {case['window']}"
            dt = f2 - f1
            x1, x2 = frames[f1][j1][0], frames[f2][j2][0]
            dist = abs(x2 - (x1 + case["vel"] * dt))
            lim = case["cutoff"] * (case["sigma"] + math.sqrt(2 * case["diffusion"] * dt))
            if not dist < lim * (1 + 1e-9) + 1e-12:
                return f"cone: link ({f1},{x1}) -> ({f2},{x2}): distance {dist} >= {lim}"
    return None


def has_bright_feature(case):
    """every source kymograph of the case has at least four scan lines, is at least three line widths high and has a pixel
    at least ten photons above its median: there is something line-like to track at the scale asked for (track_lines gives
    up with a ValueError on images without anything line-like at that scale: all dark, a blob wider than the image)"""
    for env in envs_of(case):
        img = np.array(env["image"], dtype=float)
        if img.shape[1] < 4 or img.max() < np.median(img) + 10 or 3 * case["line_width"] / pixel_size(env) > img.shape[0]:
            return False
    return True


def oracle_edit(case, ia):
    if ia[0] == UNSEEN:
        return None
    if not ia[0].startswith("ok "):
        if case.get("tracker") == "lines" and ia[0] == "ValueError" and has_bright_feature(case):
            return "well-formed: track_lines produced no tracks on a kymograph with a bright spot: it raised ValueError"
        return None if ia[0] in ("ValueError", "RuntimeError") else f"editing program raised {ia[0]}"
    d = json.loads(ia[0][3:])
    envs = envs_of(case)
    shw = case.get("sample_hw", 2)
    prev = None
    for st in d["steps"]:
        if "tracks" not in st:
            if "refused" in st and st["step"] in MUST_NOT_RAISE:
                return (
                    f"well-formed: {st['step']} of a group of well-formed tracks with admissible arguments produced no tracks: "
                    f"it raised {st['refused']}"
                )
            continue
        where = "after " + st["step"] + ":"
        if "gauss" in st and prev is not None:
            r = gaussian_lines_ok(prev, st["tracks"], st["gauss"], where)
            if r:
                return r
        prev = st["tracks"]
        stated = st.get("stated") or [None] * len(st["tracks"])
        for k, t in enumerate(st["tracks"]):
            # every track is judged on the kymograph it was tracked on (a list: the kymographs it may have been tracked on,
            # when that could only be told from its public data — it must then be right on one of them)
            src = t.get("src", 0)
            cands = src if isinstance(src, list) else [src]
            if not cands or not all(0 <= c < len(envs) for c in cands):
                return f"well-formed: {where} track {k} belongs to none of the {len(envs)} source kymographs of the group"
            first = None
            for c in cands:
                r = _judge_edit_track(t, k, c, envs, st, stated, shw, where)
                if r is None:
                    break
                first = first or r
            else:
                return first
    return None


# steps that take any group of well-formed tracks (of one or several kymographs) and whose arguments here are always
# admissible (window 1..5 pixels, a documented overlap strategy; minimum length/duration; indexing): an exception means no
# track is produced at all.  Not listed: refine_centroid (a width below three pixels of one of the kymographs is refused),
# split/merge (refuse nodes that would give an empty track / two points on one line), remove_rect
MUST_NOT_RAISE = ("interpolate", "interpolate_some", "filter", "refine_gaussian", "refine_gaussian_some", "regroup")


def gaussian_lines_ok(before, after, g, where):
    """a track produced by Gaussian refinement is the re-localisation of one track that went in: it has that track's scan
    lines (every line from its first to its last with refine_missing_frames) — no line is invented and, unless the overlap
    strategy is 'skip', none is lost and there are as many tracks as went in.  With 'skip' (documented: frames in which the
    fitting windows of two tracks overlap are removed) a point may only go when another track that is refined with it, on
    the same kymograph, has a point on the same line.  `before`/`after` are dumps; the refined tracks come first in
    `after`, followed by the tracks that were not selected."""
    sel = g["sel"]
    if any(i >= len(before) for i in sel):
        return None
    ins = [before[i] for i in sel]
    want = [list(range(t["t"][0], t["t"][-1] + 1)) if g["missing"] and t["t"] else list(t["t"]) for t in ins]
    n_out = len(after) - (len(before) - len(sel))
    if g["strategy"] != "skip":
        if n_out != len(ins):
            return f"well-formed: {where} {len(ins)} tracks went into the Gaussian refinement ({g['strategy']}), {n_out} came out"
        for k, (t, w) in enumerate(zip(after[:n_out], want)):
            if t["t"] != w:
                return (
                    f"well-formed: {where} refined track {k} has scan lines {t['t'][:20]}, the track that went in "
                    f"({'every line first to last' if g['missing'] else 'as tracked'}) has {w[:20]} (overlap strategy {g['strategy']})"
                )
        return None
    if not 0 <= n_out <= len(ins):
        return f"well-formed: {where} {len(ins)} tracks went into the Gaussian refinement (skip), {n_out} came out"
    # tracks of different kymographs never overlap; when the kymograph of a track could only be told from its public data
    # (a list of candidates) lines are counted over all of them together: weaker, never wrong
    certain = all(not isinstance(t.get("src", 0), list) for t in ins + after[:n_out])
    n_in, n_after = {}, {}
    for t, w in zip(ins, want):
        for line in w:
            key = (json.dumps(t.get("src", 0)) if certain else "", line)
            n_in[key] = n_in.get(key, 0) + 1
    for t in after[:n_out]:
        for line in t["t"]:
            key = (json.dumps(t.get("src", 0)) if certain else "", line)
            n_after[key] = n_after.get(key, 0) + 1
    for key, n in n_after.items():
        if n > n_in.get(key, 0):
            return f"well-formed: {where} the refined tracks have {n} points on line {key[1]}, the tracks that went in {n_in.get(key, 0)}"
    for key, n in n_in.items():
        if n == 1 and n_after.get(key, 0) != 1:
            return (
                f"well-formed: {where} the only point on line {key[1]} of the tracks that went into the Gaussian refinement "
                f"(skip) is gone although no other track has a point on that line"
            )
    return None


def oracle_refine(case, ia):
    """every track produced by refinement has strictly increasing line indices inside the kymograph and positions inside
    the image; units; the photon count of a point is the window sum of the stated half width on the pixel containing it"""
    if ia[0] == UNSEEN:
        return None
    if not ia[0].startswith("ok "):
        return f"refinement raised {ia[0]}"
    d = json.loads(ia[0][3:])
    if d.get("walk_only"):
        return None
    if "tracks" not in d:
        return f"refinement of tracks inside the image raised {d.get('refused')}"
    img, ps = case["image"], pixel_size(case)
    where = "after refine_tracks_centroid(bias_correction=False):"
    r = well_formed(d["tracks"], len(img), len(img[0]), ps, where) or units_ok(d["tracks"], ps, case["line_time"], where)
    if r:
        return r
    if len(d["tracks"]) != len(d["init"]):
        return f"well-formed: {where} {len(d['init'])} tracks went in, {len(d['tracks'])} came out"
    for k, t in enumerate(d["tracks"]):
        if not t["t"]:
            return f"well-formed: {where} track {k} is empty"
        r = counts_ok(t, k, img, [case["width_px"] * ps], d["h"], None, where)
        if r:
            return r
    if "bias_corrected" in d:
        b = d["bias_corrected"]
        where = "after refine_tracks_centroid(bias_correction=True):"
        if "tracks" not in b:
            return f"well-formed: bias-corrected centroid refinement of tracks inside the image produced no tracks: it raised {b.get('refused')}"
        r = well_formed(b["tracks"], len(img), len(img[0]), ps, where) or units_ok(b["tracks"], ps, case["line_time"], where)
        if r:
            return r
        if len(b["tracks"]) != len(d["init"]):
            return f"well-formed: {where} {len(d['init'])} tracks went in, {len(b['tracks'])} came out"
        for k, t in enumerate(b["tracks"]):
            if not t["t"]:
                return f"well-formed: {where} track {k} is empty"
            r = counts_ok(t, k, img, [case["width_px"] * ps], d["h"], None, where)
            if r:
                return r
    if "gauss" in d:
        g = d["gauss"]
        where = f"after refine_tracks_gaussian({case['gauss'][0]}, {g['missing']}, {g['strategy']}):"
        if "tracks" not in g:
            return f"well-formed: Gaussian refinement of well-formed tracks with admissible arguments produced no tracks: it raised {g.get('refused')}"
        r = (
            well_formed(g["tracks"], len(img), len(img[0]), ps, where)
            or units_ok(g["tracks"], ps, case["line_time"], where)
            or gaussian_lines_ok(d["init"], g["tracks"], g, where)
        )
        if r:
            return r
        if any(not t["t"] for t in g["tracks"]):
            return f"well-formed: {where} a refined track is empty"
    for rec in d.get("program", []):
        if "tracks" not in rec:
            continue
        where = f"after {rec['spec']}:"
        r = well_formed(rec["tracks"], len(img), len(img[0]), ps, where) or units_ok(rec["tracks"], ps, case["line_time"], where)
        if r:
            return r
        for k, t in enumerate(rec["tracks"]):
            if not t["t"]:
                return f"well-formed: {where} track {k} is empty"
            if "h" in rec:
                r = counts_ok(t, k, img, [rec["w"] * ps], rec["h"], None, where)
                if r:
                    return r
    return None


def oracle_editops(case, ia):
    """every track produced by interpolation, splitting, merging or filtering has strictly increasing integer scan-line
    indices inside the kymograph and positions inside the image; times and positions are indices times line time / pixel
    size; an interpolated track has a point on every line from its first to its last"""
    if ia[0] == UNSEEN:
        return None
    if not ia[0].startswith("ok "):
        return f"editing operations raised {ia[0]}"
    d = json.loads(ia[0][3:])
    ps = case["pixel_size_um"] if case.get("pixel_size_um") is not None else 1.0
    for rec in d["results"]:
        if "tracks" not in rec:
            continue
        where = f"after {rec['spec']}:"
        for k, t in enumerate(rec["tracks"]):
            if not t["t"]:
                return f"well-formed: {where} track {k} is empty"
        r = well_formed(rec["tracks"], case["n_pixels"], case["n_lines"], ps, where) or units_ok(rec["tracks"], ps, case["line_time"], where)
        if r:
            return r
        if rec["spec"] == "interp:":
            for k, t in enumerate(rec["tracks"]):
                if t["t"] != list(range(t["t"][0], t["t"][-1] + 1)):
                    return f"well-formed: {where} interpolated track {k} does not have one point on every line from its first to its last: {t['t']}"
    return None


def _judge_edit_track(t, k, src, envs, st, stated, shw, where):
    env = envs[src]
    img, ps, lt = env["image"], pixel_size(env), env["line_time"]
    tag = f"{where} (kymograph {src})" if len(envs) > 1 else where
    r = well_formed([t], len(img), len(img[0]), ps, tag, k)
    if r:
        return r
    if not t["t"]:
        return f"well-formed: after {st['step']} track {k} is empty"
    r = units_ok([t], ps, lt, tag, k)
    if r:
        return r
    return counts_ok(t, k, img, stated[k], stated_half_width(stated[k][0], env) if stated[k] is not None else None, shw, tag)


def counts_ok(t, k, img, stated, hw, shw, where):
    """the photon count reported for a point is the sum of the image over the window of the stated half width centred on
    the pixel containing the point: for the counts a track carries from tracking / centroid refinement with a stated
    width (half width hw), and for the image sampled along the track with the stated half width shw"""
    checks = []
    if stated is not None and t.get("pc") is not None:
        checks.append(("photon_counts", t["pc"], hw, f"track width {'default' if stated[0] is None else stated[0]}"))
    if "samp" in t:
        if not isinstance(t["samp"], list):
            return f"photon-count: {where} track {k} sample_from_image({shw}) raised {t['samp']}"
        checks.append((f"sample_from_image({shw})", t["samp"], shw, "as asked"))
    for what, got, w, why in checks:
        if len(got) != len(t["t"]):
            return f"photon-count: {where} track {k} has {len(t['t'])} points and {len(got)} values of {what}"
        for i, tt in enumerate(t["t"]):
            col = [row[tt] for row in img]
            c = t["cidx"][i]
            if abs((c + 0.5) - round(c + 0.5)) > 1e-6:  # far from a pixel boundary: the double sum decides
                kpx, alts = math.floor(c + 0.5), [math.floor(c + 0.5)]
            else:
                kpx = pixel_of(c)
                x = Fraction(c) + Fraction(1, 2)
                alts = [kpx] + ([kpx - 1, kpx + 1] if abs(x - round(x)) < Fraction(1, 10**9) else [])
            if all(got[i] != window_sum(col, w, kk) for kk in alts):
                return (
                    f"photon-count: {where} track {k} point (line {tt}, pixel {c}): {what} reports {got[i]}, the window of "
                    f"half width {w} ({why}) centred on pixel {kpx} sums to {window_sum(col, w, kpx)}"
                )
    return None


def units_ok(tracks, ps, lt, where, first=0):
    """times = line indices * line time, positions = pixel coordinates * pixel size, duration = last - first time"""
    for k, t in enumerate(tracks, first):
        if not (len(t["sec"]) == len(t["t"]) and len(t["cidx"]) == len(t["pos"])):
            return f"units: {where} track {k} has {len(t['t'])} line indices, {len(t['sec'])} times, {len(t['cidx'])} pixel coordinates, {len(t['pos'])} positions"
        for i, tt in enumerate(t["t"]):
            if not _close(t["sec"][i], tt * lt, 1e-12):
                return f"units: {where} track {k} seconds {t['sec'][i]} != line {tt} * line time {lt}"
            if not _close(t["pos"][i], t["cidx"][i] * ps, 1e-12, 1e-300):
                return f"units: {where} track {k} position {t['pos'][i]} != pixel coordinate {t['cidx'][i]} * pixel size {ps}"
        if t["t"] and not _close(t["dur"], t["t"][-1] * lt - t["t"][0] * lt, 1e-9, 1e-15 * max(1.0, abs(t["t"][-1] * lt))):
            return f"units: {where} track {k} duration {t['dur']} != last - first time = {t['t'][-1] * lt - t['t'][0] * lt}"
    return None


def oracle(case, ia):
    k = case["op"]
    if k == "greedy":
        return oracle_greedy(case, ia)
    if k == "link":
        return oracle_link(case, ia)
    if k == "edit":
        return oracle_edit(case, ia)
    if k == "editops":
        return oracle_editops(case, ia)
    if k == "refine":
        return oracle_refine(case, ia)
    if ia and ia[0] == UNSEEN and k in ("sumwin", "units", "rect"):
        return None
    if k == "sumwin":
        if ia[0].endswith("Error"):
            return f"photon-count: raised {ia[0]}"
        x = Fraction(case["c"]) + Fraction(1, 2)
        kpx = pixel_of(case["c"])
        alts = [kpx] + ([kpx - 1, kpx + 1] if abs(x - round(x)) < Fraction(1, 10**9) and x != round(x) else [])
        if all(int(ia[0]) != window_sum(case["col"], case["w"], kk) for kk in alts):
            return f"photon-count: coordinate {case['c']} half width {case['w']} column {case['col']}: reported {ia[0]}, window centred on pixel {kpx} sums to {window_sum(case['col'], case['w'], kpx)}"
        return None
    if k == "units":
        if ia[0].endswith("Error") and " " not in ia[0]:
            return f"units: raised {ia[0]}"
        it = ia[0].split(" ")
        sec, pos, cidx = (dec_list(it[j], dec_float) for j in range(3))
        lt, ps = case["line_time"], pixel_size(case)
        for i, t in enumerate(case["idx"]):
            if not _close(sec[i], t * lt, 1e-12):
                return f"units: seconds {sec[i]} != {t} * {lt}"
            if not _close(pos[i], case["coords"][i] * ps, 1e-12):
                return f"units: position {pos[i]} != {case['coords'][i]} * {ps}"
            if abs(cidx[i] - case["coords"][i]) > 4 * abs(np.spacing(case["coords"][i])) + 1e-300:
                return f"units: coordinate_idx {cidx[i]} != {case['coords'][i]}"
        if case["idx"]:
            dur = dec_float(it[3])
            exp = case["idx"][-1] * lt - case["idx"][0] * lt
            if not _close(dur, exp, 1e-9, 1e-15 * max(1.0, abs(case["idx"][-1] * lt))):
                return f"units: duration {dur} != last - first time {exp}"
        return None
    if k == "rect":
        if ia[0].endswith("Error"):
            return None
        if ia[0] == "none":
            return "rect: track_greedy handed no rectangle to the peak finder although one was requested"
        got = dec_list(ia[0])
        (s0, x0), (s1, x1) = case["rect"]
        lt, ps = case["line_time"], case["pixel_size"]
        exp = [int(Fraction(s0) / Fraction(lt)), int(Fraction(x0) / Fraction(ps)), int(Fraction(s1) / Fraction(lt)), int(Fraction(x1) / Fraction(ps))]
        return None if got == exp else f"rect: pixel rectangle {got}, corners truncated toward zero give {exp}"
    if k == "badparam":
        exp = case.get("expect")
        if exp and ia[0] != exp:
            return f"parameters: expected {exp} for {case.get('why')}, got {ia[0]}"
        return None
    return None


def nontrivial(case, ia):
    k = case["op"]
    if ia[0] == UNSEEN:
        return False
    if k == "greedy":
        if not ia[0].startswith("ok "):
            return False
        d = json.loads(ia[0][3:])
        return len(d["tracks"]) >= 2 and any(len(t["t"]) >= 2 for t in d["tracks"])
    if k == "link":
        if ia[0].endswith("Error"):
            return False
        tr = parse_nodes(ia[0])
        return len(tr) >= 2 and any(len(t) >= 2 for t in tr)
    if k == "sumwin":
        return len(case["col"]) > 0
    if k == "edit":
        return ia[0].startswith("ok ") and len(json.loads(ia[0][3:])["steps"]) >= 2
    if k == "editops":
        return ia[0].startswith("ok ") and any("tracks" in r for r in json.loads(ia[0][3:])["results"])
    if k == "refine":
        return ia[0].startswith("ok ") and ("tracks" in json.loads(ia[0][3:]) or bool(case.get("walk_only"))) and any(v for row in case["image"] for v in row)
    return True


def tags(case, r):
    return {"op": case["op"]}


def shrink(case):
    k = case["op"]
    if k in ("greedy", "edit"):
        img = case["image"]
        nl = len(img[0])
        min_lines = 3 if case.get("tracker") == "lines" else 1  # track_lines is only run on kymographs of >= 3 lines
        if nl > min_lines:
            for keep in (max(nl // 2, min_lines), nl - 1):
                c = dict(case)
                c["image"] = [row[:keep] for row in img]
                yield c
            c = dict(case)
            c["image"] = [row[1:] for row in img]  # drop the first scan line
            yield c
        if len(img) > 6:
            c = dict(case)
            c["image"] = img[:-1]
            yield c
        for key in ("rect", "velocity", "diffusion", "sigma", "filter_width", "adjacency_filter", "kbp"):
            if case.get(key):
                c = dict(case)
                c[key] = None
                yield c
        if k == "edit" and case.get("more"):
            more = case["more"]
            for i in range(len(more)):  # one source kymograph fewer
                c = dict(case)
                c["more"] = more[:i] + more[i + 1 :]
                yield c
            for i, env in enumerate(more):  # ... or a shorter / narrower one
                nl_, np_ = len(env["image"][0]), len(env["image"])
                for img2 in (
                    [row[: max(nl_ // 2, min_lines)] for row in env["image"]] if nl_ > min_lines else None,
                    [row[:-1] for row in env["image"]] if nl_ > min_lines else None,
                    [row[1:] for row in env["image"]] if nl_ > min_lines else None,
                    env["image"][:-1] if np_ > 6 else None,
                ):
                    if img2 is not None:
                        c = dict(case)
                        c["more"] = more[:i] + [dict(env, image=img2)] + more[i + 1 :]
                        yield c
        if k == "edit" and len(case["program"]) > 1:
            for i in range(len(case["program"])):
                c = dict(case)
                c["program"] = case["program"][:i] + case["program"][i + 1 :]
                yield c
    elif k == "link":
        fr = case["frames"]
        for i in range(len(fr)):
            for j in range(len(fr[i])):
                c = dict(case)
                c["frames"] = [f[:j] + f[j + 1 :] if q == i else f for q, f in enumerate(fr)]
                while c["frames"] and not c["frames"][-1]:
                    c["frames"] = c["frames"][:-1]
                if c["frames"]:
                    yield c
    elif k == "refine":
        if len(case["tracks"]) > 1:
            for i in range(len(case["tracks"])):
                yield dict(case, tracks=case["tracks"][:i] + case["tracks"][i + 1 :])
        for i, tr in enumerate(case["tracks"]):
            if len(tr) > 1:
                yield dict(case, tracks=case["tracks"][:i] + [tr[:-1]] + case["tracks"][i + 1 :])
    elif k == "editops":
        if len(case["program"]) > 1:
            for i in range(len(case["program"])):
                yield dict(case, program=case["program"][:i] + case["program"][i + 1 :])
    elif k == "sumwin":
        if len(case["col"]) > 1:
            c = dict(case)
            c["col"] = case["col"][:-1]
            yield c


# ------------------------------------------------------------------ generators


def poisson(rng, lam):
    if lam <= 0:
        return 0
    if lam > 40:
        return max(0, int(round(lam + math.sqrt(lam) * rng.normal())))
    L = math.exp(-lam)
    k, p = 0, 1.0
    while True:
        p *= rng.random()
        if p <= L:
            return k
        k += 1


def gen_image(rng, n_pixels, n_lines, n_spots, bg):
    mean = [[bg] * n_lines for _ in range(n_pixels)]
    for _ in range(n_spots):
        t0 = rng.randint(0, max(0, n_lines - 1))
        t1 = rng.randint(t0, n_lines - 1)
        x = rng.uniform(1, n_pixels - 2)
        v = rng.choice([0.0, 0.0, rng.uniform(-0.7, 0.7)])
        sd = rng.choice([0.0, 0.3, 0.8])
        amp = rng.uniform(4, 25)
        psf = rng.uniform(0.6, 1.4)
        blink = rng.choice([0.0, 0.15, 0.4])
        for t in range(t0, t1 + 1):
            if not rng.chance(blink):
                for r in range(n_pixels):
                    mean[r][t] += amp * math.exp(-((r - x) ** 2) / (2 * psf**2))
            x += v + sd * rng.normal()
            x = min(max(x, 0.0), n_pixels - 1.0)
    return [[poisson(rng, mean[r][t]) for t in range(n_lines)] for r in range(n_pixels)]


def gen_image_seg(rng, n_pixels, n_lines, n_spots, bg):
    """border-biased images: binding sites that are occupied, dark for a (possibly long) while and occupied again, that
    are already there on the first scan line and/or still there on the last one, that sit on or next to the first/last
    pixel row, and drifting spots that leave the image through the top or bottom row"""
    mean = [[bg] * n_lines for _ in range(n_pixels)]
    for _ in range(n_spots):
        x = rng.choice([0.0, 0.5, 1.0, n_pixels - 1.0, n_pixels - 1.5, n_pixels - 2.0]) if rng.chance(0.3) else rng.uniform(1, n_pixels - 2)
        v = rng.choice([0.0, 0.0, 0.0, rng.uniform(-0.7, 0.7)])
        sd = rng.choice([0.0, 0.0, 0.3, 0.8])
        amp = rng.uniform(4, 25)
        psf = rng.uniform(0.6, 1.4)
        blink = rng.choice([0.0, 0.0, 0.15])
        leave = rng.chance(0.5)
        # on/off intervals
        on = [False] * n_lines
        t = 0 if rng.chance(0.6) else rng.randint(0, n_lines - 1)
        while t < n_lines:
            length = rng.randint(1, max(1, n_lines // 2))
            for q in range(t, min(n_lines, t + length)):
                on[q] = True
            t += length + rng.choice([1, 2, rng.randint(1, max(1, n_lines // 2)), rng.randint(3, 14), n_lines])
        if rng.chance(0.5):
            for q in range(n_lines - rng.randint(1, max(1, n_lines // 3)), n_lines):
                on[q] = True
        for t in range(n_lines):
            if on[t] and not rng.chance(blink):
                for r in range(n_pixels):
                    mean[r][t] += amp * math.exp(-((r - x) ** 2) / (2 * psf**2))
            x += v + sd * rng.normal()
            if not leave:
                x = min(max(x, 0.0), n_pixels - 1.0)
    return [[poisson(rng, mean[r][t]) for t in range(n_lines)] for r in range(n_pixels)]


LINE_TIMES = [0.5, 0.125, 1.0, 2.0, 0.1, 0.03, 0.0123]
PIXEL_SIZES = [None, 0.1, 0.05, 0.25, 1.0, 0.5, 0.0817]
PIXEL_SIZES_WIDE = PIXEL_SIZES + [1.25, 2.0, 3.3, 1.25, 2.0, 3.3]  # pixels larger than one unit as often as smaller ones


def off_grid(rng, unit, lo, hi, dyadic):
    """a coordinate k*unit (exact when dyadic) or (k+frac)*unit, never within 1e-6 of a cell boundary otherwise"""
    k = rng.randint(lo, hi)
    if dyadic and rng.chance(0.4):
        return k * unit
    return (k + rng.choice([0.25, 0.5, 0.75, 0.1, 0.9])) * unit


def is_dyadic(x):
    return Fraction(x).denominator & (Fraction(x).denominator - 1) == 0 and Fraction(x).denominator <= 1024


def gen_greedy(rng, big=False, seg=False, pixel_sizes=PIXEL_SIZES):
    n_pixels = rng.randint(6, 60 if big else 30)
    n_lines = rng.choice([1, 2, 3]) if rng.chance(0.08) else rng.randint(4, 200 if big else 45)
    bg = rng.choice([0.05, 0.3, 1.0, 2.5])
    if seg:
        image = gen_image_seg(rng, n_pixels, n_lines, rng.randint(1, 4), bg)
    else:
        image = gen_image(rng, n_pixels, n_lines, rng.randint(0, 4), bg)
    case = {"op": "greedy", "image": image, "line_time": rng.choice(LINE_TIMES)}
    psu = rng.choice(pixel_sizes)
    case["pixel_size_um"] = psu
    if psu is not None and rng.chance(0.2):
        case["kbp"] = rng.choice([48.502, 10.0, float(n_pixels)])
    ps = pixel_size(case)
    lt = case["line_time"]
    if rng.chance(0.8):
        case["track_width"] = (rng.randint(3, 9) - rng.choice([0.0, 0.3, 0.7])) * ps
        if case["track_width"] < 3 * ps:
            case["track_width"] = 3 * ps
    case["pixel_threshold"] = rng.choice([None, 2.0, 3.0, 5.0, 8.0, 1.0, rng.uniform(1.5, 12)])
    case["window"] = rng.choice([8, 1, 2, 3, 4, 6, 0, rng.randint(1, 10)])
    if rng.chance(0.6):
        case["sigma"] = rng.uniform(0.3, 3.0) * ps
    if rng.chance(0.4):
        case["velocity"] = rng.uniform(-1.2, 1.2) * ps / lt
    if rng.chance(0.5):
        case["diffusion"] = rng.uniform(0.0, 1.5) * ps * ps / lt
    if rng.chance(0.6):
        case["sigma_cutoff"] = rng.choice([1.0, 1.5, 2.0, 2.5, 3.0, rng.uniform(0.5, 4)])
    if rng.chance(0.3):
        dy_t, dy_p = is_dyadic(lt), is_dyadic(ps)
        a, b = sorted([rng.randint(0, n_lines), rng.randint(0, n_lines + 2)])
        c, d = sorted([rng.randint(0, n_pixels), rng.randint(0, n_pixels + 2)])
        if rng.chance(0.35):
            # a tight rectangle: one or two scan lines, a few pixels (often exactly one detected peak inside, or none)
            a = min(a, n_lines - 1)
            b = a + rng.choice([1, 1, 2])
            if rng.chance(0.7):
                d = c + rng.randint(1, 6)
        case["rect"] = [
            [off_grid(rng, lt, a, a, dy_t), off_grid(rng, ps, c, c, dy_p)],
            [off_grid(rng, lt, b, b, dy_t), off_grid(rng, ps, d, d, dy_p)],
        ]
    case["adjacency_filter"] = rng.chance(0.2)
    case["bias_correction"] = not rng.chance(0.3)
    if psu is not None and rng.chance(0.3):
        case["filter_width"] = rng.uniform(0.4, 1.5) * psu
    return case


def gen_link(rng):
    nf = rng.randint(1, 12)
    grid = rng.chance(0.5)
    frames = []
    amps = list(range(1, 200))
    rng.shuffle(amps)
    for f in range(nf):
        k = rng.randint(1, 5) if f == nf - 1 else rng.randint(0, 5)
        fr = []
        cells = rng.sample(range(13), k)
        for q in range(k):
            c = float(cells[q]) if grid else rng.uniform(0, 12)
            a = float(amps.pop()) + (0.0 if grid else rng.random())
            fr.append([c, a])
        frames.append(fr)
    if grid:
        # cone edges fall exactly on grid points
        sigma, cutoff = rng.choice([(1.0, 2.0), (0.5, 2.0), (1.0, 1.0), (1.5, 2.0), (2.0, 1.5)])
        vel = float(rng.choice([0, 0, 1, -1]))
        diffusion = rng.choice([0.0, 0.0, 0.5, 2.0])
    else:
        sigma, cutoff = rng.uniform(0.2, 2.5), rng.uniform(0.5, 3)
        vel = rng.choice([0.0, rng.uniform(-1.5, 1.5)])
        diffusion = rng.choice([0.0, rng.uniform(0, 2)])
    return {"op": "link", "frames": frames, "window": rng.choice([0, 1, 2, 3, 4, 8, -1]), "vel": vel, "sigma": sigma,
            "diffusion": diffusion, "cutoff": cutoff}


def gen_edit(rng):
    case = gen_greedy(rng)
    case["op"] = "edit"
    case["rect"] = None
    case["adjacency_filter"] = False
    ps, lt = pixel_size(case), case["line_time"]
    n_pixels, n_lines = len(case["image"]), len(case["image"][0])
    if rng.chance(0.15) and n_lines >= 3:
        case["tracker"] = "lines"
        case["line_width"] = rng.uniform(3, 6) * ps
        case["max_lines"] = rng.randint(1, 8)
    prog = []
    for _ in range(rng.randint(1, 4)):
        m = rng.randint(0, 6)
        if m == 0:
            prog.append(["interpolate"])
        elif m == 1:
            prog.append(["split", rng.randint(0, 20), rng.randint(0, 20), rng.randint(1, 3)])
        elif m == 2:
            prog.append(["merge", rng.randint(0, 20), rng.randint(0, 20), rng.randint(0, 20), rng.randint(0, 20)])
        elif m == 3:
            prog.append(["filter", rng.randint(1, 5), rng.choice([0, lt, 2.5 * lt])])
        elif m == 4:
            prog.append(["refine_centroid", rng.randint(3, 7) * ps, rng.chance(0.5)])
        elif m == 5:
            prog.append(["refine_gaussian", rng.randint(2, 5), rng.chance(0.5), rng.choice(GAUSS_STRATEGIES)])
        else:
            a, b = sorted([rng.uniform(0, n_lines * lt), rng.uniform(0, n_lines * lt)])
            c, d = sorted([rng.uniform(0, n_pixels * ps), rng.uniform(0, n_pixels * ps)])
            prog.append(["remove_rect", [[a, c], [b, d]], rng.chance(0.5)])
    case["program"] = prog
    case["sample_hw"] = rng.randint(0, 4)
    return case


def gen_program(rng, case, rounds):
    """editing programs in rounds: refinement / interpolation applied to SOME of the tracks only (as after
    `refine(tracks[:k]) + tracks[k:]`), then merges (and splits, filters), so that tracks of different provenance meet"""
    ps, lt = pixel_size(case), case["line_time"]
    prog = []
    for _ in range(rounds):
        m = rng.randint(0, 9)
        bits = rng.randint(0, 65535)
        if m == 0:
            prog.append(["interpolate"])
        elif m <= 3:
            prog.append(["interpolate_some", bits])
        elif m <= 5:
            prog.append(["refine_centroid_some", bits, rng.randint(3, 7) * ps, rng.chance(0.5)])
        else:
            prog.append(["refine_gaussian_some", bits, rng.randint(2, 5), rng.chance(0.5), rng.choice(GAUSS_STRATEGIES)])
        for _ in range(rng.randint(1, 2)):
            if rng.chance(0.5):
                prog.append(["merge_other", rng.randint(0, 20), rng.randint(0, 20), rng.randint(0, 20), rng.randint(0, 20)])
            else:
                prog.append(["merge_ends", rng.randint(0, 20), rng.randint(0, 20)])
        if rng.chance(0.3):
            prog.append(["split", rng.randint(0, 20), rng.randint(0, 20), rng.randint(1, 3)])
        if rng.chance(0.2):
            prog.append(["filter", rng.randint(1, 3), rng.choice([0, lt])])
    return prog


def gen_edit_mixed(rng):
    """greedy tracking of a border-biased image with any pixel size (smaller and larger than one unit), then a program
    that refines/interpolates subsets of the tracks and merges"""
    case = gen_greedy(rng, seg=True, pixel_sizes=PIXEL_SIZES_WIDE)
    case["op"] = "edit"
    case["rect"] = None
    case["adjacency_filter"] = False
    case["program"] = gen_program(rng, case, rng.randint(1, 3))
    case["sample_hw"] = rng.randint(0, 4)
    return case


def gen_lines(rng):
    """line-based tracking of a border-biased image, then a short editing program"""
    n_pixels = rng.randint(6, 30)
    n_lines = rng.randint(3, 45)
    bg = rng.choice([0.05, 0.3, 1.0, 2.5])
    case = {"op": "edit", "tracker": "lines", "line_time": rng.choice(LINE_TIMES), "pixel_size_um": rng.choice(PIXEL_SIZES_WIDE)}
    case["image"] = gen_image_seg(rng, n_pixels, n_lines, rng.randint(1, 3), bg)
    if case["pixel_size_um"] is not None and rng.chance(0.15):
        case["kbp"] = rng.choice([48.502, 10.0, float(n_pixels)])
    case["line_width"] = rng.uniform(3, 6) * pixel_size(case)
    case["max_lines"] = rng.choice([1, 2, 3, 5, 10, rng.randint(1, 8)])
    case["program"] = gen_program(rng, case, 1)
    case["sample_hw"] = rng.randint(0, 4)
    return case


def gen_multi(rng, big=False):
    """tracks of two or three kymographs (each with its own image, size, line time and pixel size; the same calibration
    unit) in ONE group, as after `tracks1 + tracks2`, then a program of the operations that accept such a group:
    centroid/Gaussian refinement of the whole group or of some tracks (default and explicit widths), interpolation,
    filtering, regrouping by indexing and `+`, split/merge within one kymograph"""
    case = gen_greedy(rng, seg=True, pixel_sizes=PIXEL_SIZES_WIDE)
    case["op"] = "edit"
    case["rect"] = None
    case["adjacency_filter"] = False
    if rng.chance(0.15) and len(case["image"][0]) >= 3:
        case["tracker"] = "lines"
        case["max_lines"] = rng.randint(1, 6)
    more = []
    for _ in range(rng.choice([1, 1, 1, 2])):
        n_pixels = rng.randint(6, 40 if big else 26)
        n_lines = rng.randint(3, 80 if big else 30)
        env = {
            "image": gen_image_seg(rng, n_pixels, n_lines, rng.randint(1, 3), rng.choice([0.05, 0.3, 1.0, 2.5])),
            "line_time": rng.choice([case["line_time"], case["line_time"], rng.choice(LINE_TIMES)]),
            "pixel_size_um": None,
        }
        if case["pixel_size_um"] is not None:
            env["pixel_size_um"] = case["pixel_size_um"] * rng.choice([1.0, 1.0, 1.0, 0.5, 2.0, 0.8, 1.25, 1.5])
        if case.get("kbp"):
            env["kbp"] = rng.choice([case["kbp"], case["kbp"] * n_pixels / len(case["image"]), 48.502, 10.0])
        more.append(env)
    case["more"] = more
    case["mix"] = rng.choice(["concat", "interleave", "sandwich"])
    sizes = [pixel_size(e) for e in envs_of(case)]
    ps_max, ps = max(sizes), pixel_size(case)
    if case.get("track_width") is not None:
        case["track_width"] = max(case["track_width"], 3 * ps_max)
    case["line_width"] = rng.uniform(3, 5) * ps_max
    lt = case["line_time"]

    def width():
        # None: the documented default; otherwise 3..9 pixels of one of the kymographs, at least 3 pixels of each
        if rng.chance(0.2):
            return None
        return max((rng.randint(3, 9) - rng.choice([0.0, 0.0, 0.3, 0.7])) * rng.choice(sizes), 3 * ps_max)

    prog = []
    for _ in range(rng.randint(1, 4)):
        m = rng.randint(0, 13)
        bits = rng.randint(0, 65535)
        if m <= 3:
            prog.append(["refine_centroid", width(), rng.chance(0.5)])
        elif m == 4:
            prog.append(["refine_centroid_some", bits, width(), rng.chance(0.5)])
        elif m == 5:
            prog.append(["refine_gaussian", rng.randint(2, 5), rng.chance(0.5), rng.choice(GAUSS_STRATEGIES)])
        elif m == 6:
            prog.append(["refine_gaussian_some", bits, rng.randint(2, 5), rng.chance(0.5), rng.choice(GAUSS_STRATEGIES)])
        elif m == 7:
            prog.append(["interpolate"] if rng.chance(0.5) else ["interpolate_some", bits])
        elif m == 8:
            prog.append(["filter", rng.randint(1, 4), rng.choice([0, lt, 2.5 * lt])])
        elif m == 9:
            prog.append(["regroup", rng.choice(["reverse", "subset", "selected_first"]), bits])
        elif m == 10:
            prog.append(["split", rng.randint(0, 20), rng.randint(0, 20), rng.randint(1, 3)])
        elif m == 11:
            prog.append(["merge_other", rng.randint(0, 20), rng.randint(0, 20), rng.randint(0, 20), rng.randint(0, 20)])
        elif m == 12:
            prog.append(["merge_ends", rng.randint(0, 20), rng.randint(0, 20)])
        else:
            n_l, n_p = len(case["image"][0]), len(case["image"])
            a, b = sorted([rng.uniform(0, n_l * lt), rng.uniform(0, n_l * lt)])
            c, d = sorted([rng.uniform(0, n_p * ps), rng.uniform(0, n_p * ps)])
            prog.append(["remove_rect", [[a, c], [b, d]], rng.chance(0.5)])
    case["program"] = prog
    case["sample_hw"] = rng.randint(0, 4)
    return case


def editops_specs(lens):
    """every editing step on a group whose tracks have the given numbers of points: both interpolations, every split
    (nodes -1 .. len+1, min_length 1..3), every merge of any two nodes, every filter of a small grid"""
    n = len(lens)
    specs = ["interp:"] + ([f"interp:{i}" for i in range(n)] if n > 1 else [])
    for i in range(n):
        for node in range(-1, lens[i] + 2):
            for ml in (1, 2, 3):
                specs.append(f"split:{i}:{node}:{ml}")
    for i in range(n):
        for sn in range(lens[i]):
            for j in range(n):
                for en in range(lens[j]):
                    specs.append(f"merge:{i}:{sn}:{j}:{en}")
    return specs


def gen_refine(rng):
    n, n_lines = rng.randint(1, 12), rng.randint(1, 10)
    bg = rng.choice([0, 0, 1, 3])
    img = [[poisson(rng, bg) for _ in range(n_lines)] for _ in range(n)]
    for _ in range(rng.randint(0, 3)):  # bright spots, also on the first and last pixel row
        r0 = rng.choice([0, n - 1, rng.randint(0, n - 1)])
        for t in range(n_lines):
            if rng.chance(0.8):
                r_ = min(max(r0 + rng.randint(-1, 1), 0), n - 1)
                img[r_][t] += rng.randint(3, 40)
    tracks = []
    for _ in range(rng.randint(1, 3)):
        lines = sorted(rng.sample(range(n_lines), rng.randint(1, min(n_lines, 5))))
        tracks.append([[t, rng.choice([0.0, n - 1.0, -0.5, 0.5, n - 1.5]) if rng.chance(0.3) and n >= 2 else round(rng.uniform(-0.5, n - 0.51), 2)] for t in lines])
    for tr in tracks:
        for q in tr:
            q[1] = min(max(q[1], -0.5), n - 0.51)
    case = {"op": "refine", "image": img, "line_time": rng.choice(LINE_TIMES), "pixel_size_um": rng.choice([None, None, 0.5, 0.25, 2.0]),
            "tracks": tracks, "width_px": rng.choice([3, 3, 4, 5, 7, 9])}
    if rng.chance(0.5):
        prog, nt = [], len(tracks)
        for _ in range(rng.randint(1, 5)):
            m = rng.randint(0, 9)
            if m <= 3:
                prog.append(f"refine:{rng.choice([3, 4, 5, 7])}")
            elif m == 4:
                prog.append("interp:")
            elif m <= 6:
                prog.append(f"split:{rng.randint(0, nt)}:{rng.randint(0, 5)}:1")
            elif m <= 8:
                prog.append(f"merge:{rng.randint(0, nt)}:{rng.randint(0, 3)}:{rng.randint(0, nt)}:{rng.randint(0, 3)}")
            else:
                prog.append(f"filter:{rng.randint(1, 3)}:0/1")
        case["program"] = prog
    return case


GAUSS_STRATEGIES = ["ignore", "skip", "simultaneous", "multiple"]  # "multiple" is deprecated, still admissible


def gen_gauss(rng):
    """Gaussian refinement of hand-made tracks: images with more pixels than scan lines as often as not, tracks that run
    parallel a few pixels apart on the same lines (their fitting windows overlap on every line), tracks on the first and
    last pixel rows (the fitting window is cut by the image edge), tracks with gaps, every overlap strategy"""
    n_lines = rng.randint(1, 7)
    n = rng.randint(n_lines + 1, 30) if rng.chance(0.6) else rng.randint(4, 12)
    bg = rng.choice([0.3, 1, 3])
    img = [[poisson(rng, bg) for _ in range(n_lines)] for _ in range(n)]
    tracks = []
    k = rng.randint(1, 3)
    base = None
    for q in range(k):
        lines = sorted(rng.sample(range(n_lines), rng.randint(1, min(n_lines, 4))))
        m = rng.randint(0, 3)
        if m == 0 and base is not None:
            # parallel to the previous track, 1..7 pixels away, on the same scan lines
            off = rng.choice([-1, 1]) * rng.randint(1, 7)
            tr = [[t, min(max(c + off, 0.0), n - 1.0)] for t, c in base]
        elif m == 1:
            c0 = rng.choice([0.0, n - 1.0, n - 1.3, 0.4, n - 2.0])
            tr = [[t, c0] for t in lines]
        else:
            c0 = rng.uniform(0, n - 1)
            tr = [[t, min(max(round(c0 + rng.uniform(-1, 1), 2), 0.0), n - 1.0)] for t in lines]
        for t, c in tr:  # a spot where the track says there is one
            img[int(round(c))][t] += rng.randint(5, 40)
            if 0 < int(round(c)) < n - 1 and rng.chance(0.7):
                img[int(round(c)) - 1][t] += rng.randint(1, 10)
                img[int(round(c)) + 1][t] += rng.randint(1, 10)
        tracks.append(tr)
        base = tr
    return {"op": "refine", "image": img, "line_time": rng.choice(LINE_TIMES), "pixel_size_um": rng.choice([None, None, 0.5, 0.25, 2.0, 0.0817]),
            "tracks": tracks, "width_px": rng.choice([3, 5]),
            "gauss": [rng.randint(1, 5), rng.chance(0.4), rng.choice(GAUSS_STRATEGIES)]}


def gen_editops(rng):
    n_lines, n_pixels = rng.randint(2, 14), rng.randint(4, 12)
    lt = rng.choice(LINE_TIMES)
    psu = rng.choice([None, None, 0.25, 0.5, 0.1, 0.0817, 2.0])
    tracks = []
    for _ in range(rng.randint(1, 4)):
        lines = sorted(rng.sample(range(n_lines), rng.randint(1, min(n_lines, 6))))
        edge = rng.chance(0.3)
        tracks.append([[t, rng.choice([0.0, n_pixels - 1.0, -0.5, n_pixels - 0.5]) if edge and rng.chance(0.5) else round(rng.uniform(-0.5, n_pixels - 0.5), 3)] for t in lines])
    # the group is followed abstractly (numbers of points only roughly known), so indices are drawn small and may miss
    prog, lens = [], [len(t) for t in tracks]
    for _ in range(rng.randint(1, 6)):
        m, n = rng.randint(0, 9), max(1, len(lens))
        if m <= 1:
            prog.append("interp:" + (",".join(str(i) for i in range(n) if rng.chance(0.3)) if m else ""))
        elif m <= 4:
            i = rng.randint(0, n - 1)
            prog.append(f"split:{i}:{rng.randint(-1, 7)}:{rng.choice([1, 1, 1, 2, 3])}")
        elif m <= 7:
            prog.append(f"merge:{rng.randint(0, n - 1)}:{rng.randint(0, 3)}:{rng.randint(0, n - 1)}:{rng.randint(0, 3)}")
        else:
            k = rng.randint(0, 4)
            # `duration >= minimum_duration` is decided on doubles: an exact multiple only of a dyadic line time
            md = Fraction(lt) * k if is_dyadic(lt) and rng.chance(0.5) else Fraction(lt) * (2 * k + 1) / 2
            prog.append(f"filter:{rng.randint(1, 4)}:{enc_rat(float(md))}")
    return {"op": "editops", "line_time": lt, "pixel_size_um": psu, "n_lines": n_lines, "n_pixels": n_pixels, "tracks": tracks, "program": prog}


def small_image():
    # two spots, one blinking; fixed so that the malformed stream is about the parameters only
    img = [[0] * 8 for _ in range(10)]
    for t in range(8):
        img[3][t] = 9
        img[2][t] = img[4][t] = 3
        if t % 3:
            img[7][t] = 7
    return img


def cases(tier, rng):
    quick = tier == "quick"
    import os

    cdir = os.path.join(os.path.dirname(os.path.dirname(os.path.abspath(__file__))), "corpus", PROP)
    if os.path.isdir(cdir):
        for f in sorted(os.listdir(cdir)):
            if f.endswith(".json"):
                c = json.load(open(os.path.join(cdir, f)))
                c = c.get("case", c)
                c["stream"] = "corpus"
                yield c

    # ---- malformed stream: parameters track_greedy must refuse (and near misses it must accept)
    base = {"op": "badparam", "stream": "malformed", "image": small_image(), "line_time": 0.5, "pixel_size_um": 0.1}
    for extra, exp, why in [
        ({"pixel_threshold": 0.0}, "ValueError", "threshold zero"),
        ({"pixel_threshold": -1.0}, "ValueError", "threshold negative"),
        ({"pixel_threshold": 2.0, "track_width": 0.29}, "ValueError", "track width below three pixels"),
        ({"pixel_threshold": 2.0, "track_width": 0.0}, "ValueError", "track width zero"),
        ({"pixel_threshold": 2.0, "track_width": -1.0}, "ValueError", "track width negative"),
        ({"pixel_threshold": 2.0, "track_width": 3 * 0.1}, "ok", "track width exactly three pixels"),
        ({"pixel_threshold": 2.0, "track_width": float(np.nextafter(np.nextafter(3 * 0.1, 0), 0))}, "ValueError", "two ulps below three pixels"),
        ({"pixel_threshold": 2.0, "diffusion": -0.1}, "ValueError", "negative diffusion"),
        ({"pixel_threshold": 2.0, "diffusion": 0.0}, "ok", "zero diffusion"),
        ({"pixel_threshold": 0.0, "track_width": 0.1, "diffusion": -1.0}, "ValueError", "everything wrong"),
        ({"pixel_threshold": 1e-9}, "ok", "tiny positive threshold"),
    ]:
        c = dict(base)
        c.update(extra)
        c["expect"] = exp
        c["why"] = why
        yield c

    # ---- exhaustive small scope: the linker
    grid = [0.0, 1.0, 2.0, 3.0]
    layouts = [[]] + [[c] for c in grid] + [list(p) for p in itertools.combinations(grid, 2)]
    amp_orders = {0: [[]], 1: [[5.0]], 2: [[5.0, 3.0], [3.0, 5.0]]}
    windows = (0, 1, 2)
    n_small = 0
    for nf in (1, 2, 3):
        for lay in itertools.product(layouts, repeat=nf):
            if not lay[-1]:
                continue
            if quick and nf == 3 and (n_small % 5):
                n_small += 1
                continue
            n_small += 1
            for ao in itertools.product(*[amp_orders[len(l)] for l in lay]):
                frames = [[[c, a + 0.25 * fi] for c, a in zip(l, am)] for fi, (l, am) in enumerate(zip(lay, ao))]
                for w in windows:
                    for vel, sigma, cutoff, diffusion in ((0.0, 1.0, 1.0, 0.0), (1.0, 0.5, 2.0, 0.0), (0.0, 0.5, 1.0, 0.5)):
                        if quick and nf == 3 and (w, vel) not in ((1, 0.0), (2, 1.0), (2, 0.0)):
                            continue
                        c = {"stream": "small-scope", "op": "link", "frames": frames, "window": w, "vel": vel,
                             "sigma": sigma, "cutoff": cutoff, "diffusion": diffusion}
                        yield c
                        if nf < 3 or n_small % 2 == 0:
                            # the same layout drawn into an image and linked by the public tracker (run_link_public)
                            yield dict(c, via="image", stream="small-scope-public")
    # ---- exhaustive small scope: the photon-count window
    vals = [1, 2, 4, 8, 16]
    for n in range(1, 6):
        col = vals[:n]
        for w in (0, 1, 2):
            for q in range(-2, 4 * n - 1):  # c = q/4 from -0.5 to n - 0.75
                yield {"stream": "small-scope", "op": "sumwin", "col": col, "w": w, "c": q / 4.0}
    # ---- small scope: the pixel rectangle on dyadic grids
    for lt, ps in ((0.5, 0.25), (1.0, 1.0), (0.125, 2.0)):
        for a, b in itertools.product(range(0, 9, 1 if not quick else 2), repeat=2):
            yield {"stream": "small-scope", "op": "rect", "line_time": lt, "pixel_size": ps,
                   "rect": [[a * lt / 2, b * ps / 4], [(a + 3) * lt / 2, (b + 5) * ps / 4]]}
    # ---- units
    for lt in (0.5, 0.1, 0.0123):
        for psu in (None, 0.1, 0.0817):
            for idx in ([0], [3], [0, 1], [2, 5, 6], [1, 2, 3, 4, 9]):
                yield {"stream": "small-scope", "op": "units", "image": [[0] * 10 for _ in range(8)], "line_time": lt,
                       "pixel_size_um": psu, "idx": idx, "coords": [0.25 + 0.7 * i for i in range(len(idx))]}

    # ---- exhaustive small scope: the editing operations on hand-made tracks (every non-empty set of lines of a 4-line
    #      kymograph, alone and in pairs; every interpolation, split, merge and a grid of filters, each on a fresh group)
    subsets = [[t for t in range(4) if (m >> t) & 1] for m in range(1, 16)]
    ca, cb = [1.0, 3.5, 0.0, 2.25], [4.0, 0.5, 2.0, 3.0]
    n_pair = 0
    for a in subsets:
        groups = [[[[t, ca[t]] for t in a]]]
        for b in subsets:
            n_pair += 1
            if quick and n_pair % 4:
                continue
            groups.append([[[t, ca[t]] for t in a], [[t, cb[t]] for t in b]])
        for tr in groups:
            for lt, mds in ((0.5, (0, 0.5, 0.75, 1.0, 1.5)), (0.03, (0.0, 0.045, 0.075))):
                specs = editops_specs([len(t) for t in tr]) if lt == 0.5 else []
                specs += [f"filter:{ml}:{enc_rat(md)}" for ml in (1, 2, 3) for md in mds]
                yield {"stream": "small-scope-editops", "op": "editops", "each": True, "line_time": lt, "pixel_size_um": None,
                       "n_lines": 4, "n_pixels": 5, "tracks": tr, "program": specs}
    # ---- exhaustive small scope: the pixel walk of the centroid refinement (no bias correction): every one-line image of
    #      <= 4 pixels with counts in {0, 1, 5}, every starting pixel, half widths 1 and 2
    for n in (1, 2, 3, 4):
        for vals in itertools.product((0, 1, 5), repeat=n):
            for c0 in range(n):
                for w in (3, 5):
                    yield {"stream": "small-scope-refine", "op": "refine", "image": [[v] for v in vals], "line_time": 0.5,
                           "pixel_size_um": None, "tracks": [[[0, float(c0)]]], "width_px": w}
    for n in (1, 2, 3):
        for vals in itertools.product((-4, 0, 5), repeat=n):
            if min(vals) < 0:
                for c0 in range(n):
                    yield {"stream": "small-scope-refine", "op": "refine", "walk_only": True, "image": [[v] for v in vals],
                           "line_time": 0.5, "pixel_size_um": None, "tracks": [[[0, float(c0)]]], "width_px": 3}
    # ---- exhaustive small scope: merge_close_peaks on one frame: every ordered choice of <= 3 coordinates of a grid,
    #      every order of distinct amplitudes (and one pair of equal ones), minimum distances 1, 2, 3
    mgrid = [0.0, 1.0, 2.5, 3.0]
    for k in (1, 2, 3):
        for cs in itertools.permutations(mgrid, k):
            for am in list(itertools.permutations([3.0, 7.0, 5.0][:k])) + ([tuple([4.0] * k)] if k > 1 else []):
                for md in (1, 2, 3):
                    yield {"stream": "small-scope-mergeclose", "op": "mergeclose", "frame": [[c, a] for c, a in zip(cs, am)], "md": md}
    r = rng.fork("c08-mergeclose")
    for i in range(300 if quick else 4000):
        sub = r.fork(i)
        k = sub.randint(1, 7)
        cs = []
        while len(cs) < k:
            c = round(sub.uniform(0, 12), sub.choice([0, 1, 3]))
            if c not in cs:
                cs.append(c)
        yield {"stream": "random-mergeclose", "op": "mergeclose", "subseed": i, "md": sub.randint(1, 4),
               "frame": [[c, float(sub.randint(1, 6)) if sub.chance(0.5) else round(sub.uniform(1, 50), 2)] for c in cs]}
    r = rng.fork("c08-refine-walk")
    for i in range(100 if quick else 1500):
        sub = r.fork(i)
        n, n_lines = sub.randint(1, 8), sub.randint(1, 4)
        yield {"stream": "random-refine", "op": "refine", "walk_only": True, "subseed": i, "line_time": 0.5, "pixel_size_um": None,
               "image": [[sub.randint(-6, 9) for _ in range(n_lines)] for _ in range(n)], "width_px": sub.choice([3, 5]),
               "tracks": [[[t, float(sub.randint(0, n - 1))] for t in range(n_lines)]]}
    r = rng.fork("c08-refine")
    for i in range(300 if quick else 5000):
        sub = r.fork(i)
        c = gen_refine(sub)
        c.update({"stream": "random-refine", "subseed": i})
        yield c
    r = rng.fork("c08-gauss")
    for i in range(70 if quick else 1200):
        sub = r.fork(i)
        c = gen_gauss(sub)
        c.update({"stream": "random-gaussian", "subseed": i})
        yield c
    r = rng.fork("c08-editops")
    for i in range(400 if quick else 6000):
        sub = r.fork(i)
        c = gen_editops(sub)
        c.update({"stream": "random-editops", "subseed": i})
        yield c

    # ---- seeded random
    r = rng.fork("c08-greedy")
    for i in range(450 if quick else 4500):
        sub = r.fork(i)
        c = gen_greedy(sub, big=(not quick and sub.chance(0.03)))
        c.update({"stream": "random-greedy", "subseed": i})
        yield c
    r = rng.fork("c08-link")
    for i in range(1500 if quick else 20000):
        sub = r.fork(i)
        c = gen_link(sub)
        c.update({"stream": "random-link", "subseed": i})
        yield c
        if all(float(x).is_integer() for f in c["frames"] for x, _ in f):
            yield dict(c, via="image", stream="random-link-public")
    r = rng.fork("c08-sumwin")
    for i in range(300 if quick else 5000):
        sub = r.fork(i)
        n = sub.randint(1, 30)
        col = [sub.randint(0, 50) for _ in range(n)]
        c = sub.choice([sub.uniform(-0.5, n - 0.5), sub.randint(0, n - 1) + sub.choice([0.0, 0.5, -0.5, 0.49999999, -0.49999999, 0.25]), sub.uniform(0, n - 1)])
        c = min(max(c, -0.5), n - 0.5000001)
        yield {"stream": "random-sumwin", "op": "sumwin", "col": col, "w": sub.randint(0, 6), "c": c, "subseed": i}
    r = rng.fork("c08-rect")
    for i in range(200 if quick else 3000):
        sub = r.fork(i)
        lt, ps = sub.choice(LINE_TIMES), sub.choice([p for p in PIXEL_SIZES if p])
        yield {"stream": "random-rect", "op": "rect", "line_time": lt, "pixel_size": ps, "subseed": i,
               "rect": [[off_grid(sub, lt, 0, 50, is_dyadic(lt)), off_grid(sub, ps, 0, 50, is_dyadic(ps))],
                        [off_grid(sub, lt, 0, 80, is_dyadic(lt)), off_grid(sub, ps, 0, 80, is_dyadic(ps))]]}
    r = rng.fork("c08-edit")
    for i in range(60 if quick else 800):
        sub = r.fork(i)
        c = gen_edit(sub)
        c.update({"stream": "random-edit", "subseed": i})
        yield c
    r = rng.fork("c08-greedy-border")
    for i in range(60 if quick else 1000):
        sub = r.fork(i)
        c = gen_greedy(sub, seg=True, pixel_sizes=PIXEL_SIZES_WIDE)
        c.update({"stream": "random-greedy-border", "subseed": i})
        yield c
    r = rng.fork("c08-lines")
    for i in range(100 if quick else 1500):
        sub = r.fork(i)
        c = gen_lines(sub)
        c.update({"stream": "random-lines", "subseed": i})
        yield c
    r = rng.fork("c08-edit-mixed")
    for i in range(100 if quick else 1500):
        sub = r.fork(i)
        c = gen_edit_mixed(sub)
        c.update({"stream": "random-edit-mixed", "subseed": i})
        yield c
    r = rng.fork("c08-multi")
    for i in range(80 if quick else 700):
        sub = r.fork(i)
        c = gen_multi(sub, big=(not quick and sub.chance(0.05)))
        c.update({"stream": "random-multi-source", "subseed": i})
        yield c


def extra_coverage(results):
    kinds, errs = {}, {}
    ties = links = gaps = rects = clipped = 0
    sizes = {"lines<=3": 0, "lines<=45": 0, "lines>45": 0}
    ntracks = {"0": 0, "1": 0, "2-5": 0, ">5": 0}
    for r in results:
        c = r["case"]
        kinds[c["op"]] = kinds.get(c["op"], 0) + 1
        a = r["impl"][0]
        if a.endswith("Error"):
            errs[a] = errs.get(a, 0) + 1
        if any(x.startswith("TIE ") for x in r["impl"]):
            ties += 1
        if c["op"] == "greedy":
            nl = len(c["image"][0])
            sizes["lines<=3" if nl <= 3 else ("lines<=45" if nl <= 45 else "lines>45")] += 1
            if c.get("rect") is not None:
                rects += 1
            if a.startswith("ok "):
                d = json.loads(a[3:])
                n = len(d["tracks"])
                ntracks["0" if n == 0 else "1" if n == 1 else "2-5" if n <= 5 else ">5"] += 1
                for t in d["tracks"]:
                    links += max(0, len(t["t"]) - 1)
                    gaps += sum(1 for x, y in zip(t["t"], t["t"][1:]) if y - x > 1)
        if c["op"] == "sumwin":
            k = pixel_of(c["c"])
            if k - c["w"] < 0 or k + c["w"] >= len(c["col"]):
                clipped += 1
    steps, refused, unreachable, line_tracked = {}, {}, {}, 0
    multi_cases = multi_steps = counts_stated = counts_sampled = 0
    unseen, src_guessed, lenient_links = {}, 0, 0
    for r in results:
        for o, a, m in zip(r["ops"], r["impl"], r["model"]):
            if a == UNSEEN:
                unseen[o.split(" ")[0]] = unseen.get(o.split(" ")[0], 0) + 1
            elif o.startswith("c08.link ") and not a.startswith("TIE ") and a != m and not r["disagree"]:
                lenient_links += 1
        if r["case"]["op"] == "greedy" and r["impl"][0].startswith("ok ") and json.loads(r["impl"][0][3:])["peaks"] is None:
            unseen["peak lists of the linker (partition clause: only 'no point in two tracks')"] = unseen.get("peak lists of the linker (partition clause: only 'no point in two tracks')", 0) + 1
    for r in results:
        c = r["case"]
        if c["op"] == "edit" and r["impl"][0].startswith("ok "):
            line_tracked += c.get("tracker") == "lines"
            several = False
            for st in json.loads(r["impl"][0][3:])["steps"]:
                d = refused if "refused" in st else unreachable if "unreachable" in st else steps
                d[st["step"]] = d.get(st["step"], 0) + 1
                src_guessed += sum(1 for t in st.get("tracks", []) if isinstance(t.get("src"), list))
                if "tracks" in st:
                    if len({json.dumps(t.get("src", 0)) for t in st["tracks"]}) > 1:
                        multi_steps += 1
                        several = True
                    for t, w in zip(st["tracks"], st.get("stated") or [None] * len(st["tracks"])):
                        if w is not None and t.get("pc") is not None:
                            counts_stated += len(t["t"])
                        if isinstance(t.get("samp"), list):
                            counts_sampled += len(t["t"])
            multi_cases += several
    refine_pts = {"points": 0, "on first or last pixel row": 0, "moved by at least one pixel": 0, "walks compared (c08.moment)": 0}
    for r in results:
        c = r["case"]
        if c["op"] == "refine" and r["impl"][0].startswith("ok "):
            d = json.loads(r["impl"][0][3:])
            n_ = len(c["image"])
            for t0_, t1_ in zip(d.get("init", []), d.get("tracks", [])):
                it_ = dict(zip(t0_["t"], t0_["cidx"]))
                for tt, cc in zip(t1_["t"], t1_["cidx"]):
                    refine_pts["points"] += 1
                    refine_pts["on first or last pixel row"] += pixel_of(cc) in (0, n_ - 1)
                    if tt in it_ and abs(cc - it_[tt]) >= 1:
                        refine_pts["moved by at least one pixel"] += 1
            refine_pts["walks compared (c08.moment)"] += sum(1 for o, a in zip(r["ops"], r["impl"]) if o.startswith("c08.moment ") and a != UNSEEN)
    refine_pts["compared leniently (an interpolated coordinate within 1e-9 of a half-integer, not on it)"] = sum(
        1 for r in results for o, a, m in zip(r["ops"], r["impl"], r["model"])
        if o.startswith("c08.refine ") and a != UNSEEN and not r["disagree"] and " " in a and " " in m and not agree_plain_group(a, m)
    )
    mc = {"frames compared": 0, "frames in which a peak was discarded": 0, "ops from track_greedy runs": 0, "compared leniently (a distance within 1e-12 of the minimum, not on it)": 0}
    for r in results:
        for o, a, m in zip(r["ops"], r["impl"], r["model"]):
            if o.startswith("c08.mergeclose ") and a != UNSEEN and " " in a:
                before, after = _dec_listlist(o.split(" ")[2], str), _dec_listlist(a.split(" ")[0], str)
                mc["frames compared"] += len(before)
                mc["frames in which a peak was discarded"] += sum(1 for x, y in zip(before, after) if len(y) < len(x))
                mc["ops from track_greedy runs"] += r["case"]["op"] == "greedy"
                mc["compared leniently (a distance within 1e-12 of the minimum, not on it)"] += a != m and not r["disagree"]
    # round H: Gaussian refinement (scan lines kept / dropped only where 'skip' may), bias-corrected refinement of
    # hand-made tracks, the rectangle as a crop of the detections of the run without it
    gs = {"refinements judged": 0, "on hand-made tracks": 0, "with overlap strategy skip": 0, "points dropped by skip": 0,
          "tracks dropped by skip": 0, "with two tracks on one scan line": 0, "deprecated strategy 'multiple'": 0}
    bias_h = {"groups refined": 0, "points": 0}
    rect_h = {"cases": 0, "peaks of the run without the rectangle": 0, "of them inside the rectangle": 0, "rectangles holding exactly one peak": 0}

    def _gauss_count(before, after, g, hand):
        ins = [before[i] for i in g["sel"] if i < len(before)]
        n_out = len(after) - (len(before) - len(g["sel"]))
        gs["refinements judged"] += 1
        gs["on hand-made tracks"] += hand
        gs["deprecated strategy 'multiple'"] += g["strategy"] == "multiple"
        lines_ = [ln for t in ins for ln in (range(t["t"][0], t["t"][-1] + 1) if g["missing"] and t["t"] else t["t"])]
        gs["with two tracks on one scan line"] += len(set(lines_)) < len(lines_)
        if g["strategy"] == "skip":
            gs["with overlap strategy skip"] += 1
            gs["points dropped by skip"] += max(0, len(lines_) - sum(len(t["t"]) for t in after[: max(n_out, 0)]))
            gs["tracks dropped by skip"] += max(0, len(ins) - n_out)

    for r in results:
        c = r["case"]
        if not r["impl"][0].startswith("ok "):
            continue
        if c["op"] == "refine":
            d = json.loads(r["impl"][0][3:])
            if "tracks" in d.get("gauss", {}):
                _gauss_count(d["init"], d["gauss"]["tracks"], d["gauss"], 1)
            if "tracks" in d.get("bias_corrected", {}):
                bias_h["groups refined"] += 1
                bias_h["points"] += sum(len(t["t"]) for t in d["bias_corrected"]["tracks"])
        elif c["op"] == "edit":
            prev_ = None
            for st in json.loads(r["impl"][0][3:])["steps"]:
                if "tracks" in st:
                    if "gauss" in st and prev_ is not None:
                        _gauss_count(prev_, st["tracks"], st["gauss"], 0)
                    prev_ = st["tracks"]
        elif c["op"] == "greedy" and c.get("rect") is not None:
            d = json.loads(r["impl"][0][3:])
            if d.get("norect") is not None:
                rect_h["cases"] += 1
                rect_h["peaks of the run without the rectangle"] += len(d["norect"])
                inside = sum(len(t["t"]) for t in d["tracks"])
                rect_h["of them inside the rectangle"] += inside
                rect_h["rectangles holding exactly one peak"] += inside == 1
    model_steps, lenient_filters, progs, trackofs = {}, 0, 0, 0
    for r in results:
        for o, a, m in zip(r["ops"], r["impl"], r["model"]):
            if o.startswith("c08.edit ") and a != UNSEEN:
                k_ = o.split(" ")[2].split(":")[0] + (" refused" if " " not in a else " done")
                model_steps[k_] = model_steps.get(k_, 0) + 1
                if " " in a and " " in m and a.split(" ")[0] != m.split(" ")[0] and not r["disagree"]:
                    lenient_filters += 1
            elif (o.startswith("c08.editprog ") or o.startswith("c08.steps ")) and a != UNSEEN:
                progs += 1
            elif o.startswith("c08.trackof ") and a != UNSEEN:
                trackofs += 1
    return {
        "refinement_without_bias_correction_compared_with_the_model": refine_pts,
        "merge_close_peaks_compared_with_the_model": mc,
        "gaussian_refinement_scan_lines_judged": gs,
        "bias_corrected_centroid_refinement_of_hand_made_tracks_judged": bias_h,
        "rectangle_as_crop_of_the_detections_without_it": rect_h,
        "edit_model_steps_compared_with_the_real_code": dict(sorted(model_steps.items())),
        "edit_and_refine_model_whole_programs_compared": progs,
        "edit_model_filter_steps_that_hang_on_the_last_bits_compared_leniently": lenient_filters,
        "linker_results_compared_as_line_coordinate_tracks": trackofs,
        "edit_steps_done": dict(sorted(steps.items())),
        "edit_steps_refused": dict(sorted(refused.items())),
        "edit_steps_not_reachable_private_method_gone": dict(sorted(unreachable.items())),
        "observations_not_reachable_on_this_code": dict(sorted(unseen.items())),
        "edit_tracks_whose_kymograph_was_told_from_public_data_only": src_guessed,
        "link_ops_that_hang_on_the_last_bits_compared_leniently": lenient_links,
        "edit_cases_tracked_with_track_lines": line_tracked,
        "edit_cases_with_tracks_of_several_kymographs_in_one_group": multi_cases,
        "edit_steps_on_groups_of_several_kymographs": multi_steps,
        "edit_photon_counts_compared_for_the_width_stated_in_the_call": counts_stated,
        "edit_points_sampled_from_image_with_a_stated_half_width": counts_sampled,
        "case_kinds": kinds,
        "error_kinds": errs,
        "greedy_image_sizes": sizes,
        "greedy_track_counts": ntracks,
        "greedy_links_made": links,
        "greedy_links_over_a_gap": gaps,
        "greedy_cases_with_rect": rects,
        "photon_windows_clipped_by_edge": clipped,
        "amplitude_tie_cases_compared_leniently": ties,
        "exhaustive": False,
        "exhaustive_note": "the small-scope streams enumerate their finite spaces completely (quick: strided for 3 frames); the random streams do not",
    }
