"""C09 — MSD and diffusion estimators: correspondence + oracle (see DESIGN.md 6/C09).

A case is expanded into CALLS (one protocol op each): the base input plus its metamorphic variants
(translate / mirror / frame shift / position scale through the pixel size / line-time scale / identical copies).
The implementation is driven through KymoTrack / KymoTrackGroup built on a blank kymograph (the way
lumicks/pylake/simulation/diffusion.py does), plus the anchored module functions calculate_msd_counts,
weighted_mean_and_sd and _msd_diffusion_covariance.  The model receives the exact rationals of the doubles the
implementation actually used (positions read back from the KymoTrack, line time, blur constant).
Simulated Brownian groups (kind 'brownian') are the exception: there the library builds the tracks AND their kymograph
(simulation/diffusion.py), several simulations are run in a row in the same process (a session), and every observation is made
on the group a simulation returned; the model and the oracle get the line time the simulation was asked for.
The frame indices of a track are handed to KymoTrack in the integer storage type of the case (`fdtype`: int8..int64, uint8..uint64,
a plain list); model and oracle get the integers.  With max_lag=None (the library chooses the number of lags) a track is
also compared with the ensemble of identical copies of itself ("copyopt" / the `copies` sub-case, see copies_auto)."""
import itertools
import math
import warnings
from fractions import Fraction as Fr

import numpy as np

from common import enc_list, enc_listlist, enc_rat, dec_rat, errname

PROP = "C09"
THEOREMS = [
    "Verif.C09.msd_def",
    "Verif.C09.msd_lags",
    "Verif.C09.msd_lags_take",
    "Verif.C09.msd_count_pos",
    "Verif.C09.kymo_msd_units",
    "Verif.C09.msd_translate",
    "Verif.C09.msd_mirror",
    "Verif.C09.msd_frame_shift",
    "Verif.C09.msd_scale",
    "Verif.C09.kymo_msd_time_scale",
    "Verif.C09.gls_inherits",
    "Verif.C09.cve_avg_step",
    "Verif.C09.cve_def",
    "Verif.C09.cve_def_known",
    "Verif.C09.cve_translate",
    "Verif.C09.cve_mirror",
    "Verif.C09.cve_frame_shift",
    "Verif.C09.cve_scale",
    "Verif.C09.cve_time_scale",
    "Verif.C09.ols_normal_equations",
    "Verif.C09.ols_minimises",
    "Verif.C09.ols_invariant",
    "Verif.C09.weighted_mean_def",
    "Verif.C09.weighted_identical",
    "Verif.C09.ensemble_identical_msd",
    "Verif.C09.ensemble_identical_cve",
    "Verif.C09.ensemble_identical_curve",
    "Verif.C09.ols_scale",
    "Verif.C09.ols_time_scale",
    "Verif.C09.optimal_points_cache",
    "Verif.C09.optimal_points_invariant",
    "Verif.C09.optimal_points_scale",
    "Verif.C09.ols_estimate_def",
    "Verif.C09.ols_auto_def",
    "Verif.C09.ols_auto_invariant",
    "Verif.C09.ols_auto_scale",
    "Verif.C09.ols_auto_time_scale",
    "Verif.C09.contiguous_full",
    "Verif.C09.ensemble_identical_auto",
    "Verif.C09.gls_normal_equations",
    "Verif.C09.covEntry_symm",
    "Verif.C09.estimate_max_lag_zero",
    "Verif.C09.estimate_dispatch_cve",
    "Verif.C09.estimate_dispatch_ols",
    "Verif.C09.estimate_rejects",
    "Verif.C09.estimate_invariant",
    "Verif.C09.gls_result_def",
    "Verif.C09.estimate_simple_time_scale",
    "Verif.C09.optimalPointsF_atLeastTwo",
    "Verif.C09.det_opt_iter_default",
    "Verif.C09.det_opt_iter_float",
    "Verif.C09.estimate_on_kymo_disjoint",
    "Verif.C09.estimate_on_kymo_noblur_value",
]
TOL = 1e-9
AUTO_OPS = ("optpts", "olsauto", "copyauto", "ensolsauto", "optraw")  # max_lag=None: determine_optimal_points and what is built on it
VARIANTS = ("base", "translate", "mirror", "shift", "scale", "time", "far")
BASIC = VARIANTS[1:6]  # the variants every generated case gets; "far" (a translation by a huge offset) is added explicitly

# ------------------------------------------------------------------ implementation objects


def _lk():
    from lumicks.pylake.kymo import _kymo_from_array
    from lumicks.pylake.kymotracker.detail import msd_estimation as me
    from lumicks.pylake.kymotracker.kymotrack import KymoTrack, KymoTrackGroup

    return _kymo_from_array, me, KymoTrack, KymoTrackGroup


_KYMOS = {}


def blank_kymo(dt, px, blur):
    """blank kymograph with the given line time, pixel size and motion blur constant (cf. simulation/diffusion.py)"""
    key = (dt, px, blur)
    if key not in _KYMOS:
        if len(_KYMOS) > 4096:
            _KYMOS.clear()
        kfa = _lk()[0]
        k = kfa(np.zeros((1, 1)), "r", line_time_seconds=dt, pixel_size_um=px)
        k._motion_blur_constant = blur
        _KYMOS[key] = k
    return _KYMOS[key]


# Kinds of kymograph a track can live on, as far as KymoTrack.estimate_diffusion reads them (strengthening round H).  All of
# them are made by the library itself: "array" = lumicks.pylake.kymo._kymo_from_array as it returns it (no motion blur
# constant defined), "posdown" = that kymograph downsampled by 2 along the position axis (Kymo.downsampled_by: pixel size
# doubles, still no blur constant), "timedown" = downsampled by 2 in time (line time doubles; the pixels are integrated over
# disjoint sections of time: contiguous = False).  The base kymograph gets half the pixel size / line time, so that the
# kymograph the track is attached to has exactly the requested ones (binary scaling is exact).
KYMO_KINDS = ("array", "posdown", "timedown")
MODEL_KIND = {"array": "noblur", "posdown": "noblur", "timedown": "disjoint"}


def special_kymo(kind, dt, px):
    key = (kind, dt, px)
    if key not in _KYMOS:
        if len(_KYMOS) > 4096:
            _KYMOS.clear()
        kfa = _lk()[0]
        with warnings.catch_warnings():
            warnings.simplefilter("ignore")
            if kind == "array":
                k = kfa(np.zeros((2, 4)), "r", line_time_seconds=dt, pixel_size_um=px)
            elif kind == "posdown":
                k = kfa(np.zeros((2, 4)), "r", line_time_seconds=dt, pixel_size_um=px / 2).downsampled_by(position_factor=2)
            elif kind == "timedown":
                k = kfa(np.zeros((2, 4)), "r", line_time_seconds=dt / 2, pixel_size_um=px).downsampled_by(time_factor=2)
            else:
                raise ValueError(kind)
        _KYMOS[key] = k
    return _KYMOS[key]


def positions_of(coords, px):
    """the doubles KymoTrack computes: np.array(localization) * pixelsize"""
    return (np.array(coords, dtype=float) * px).tolist()


# The integer type a track's frame indices are STORED in (KymoTrack accepts any integer array_like and keeps it as it is):
# what the tracker produces (int64), what image / file readers produce (narrow and unsigned types: HDF5 / TIFF frame
# numbers, np.nonzero on 32-bit platforms, ...), or a plain list.  A frame index is an integer; the property does not depend
# on how it is stored, so the model and the oracle are given the same integers whatever the storage type.
FDTYPES = ["int64", "int32", "int16", "int8", "uint8", "uint16", "uint32", "uint64", "list"]


def stored_frames(frames, want):
    """the frame indices as an array of the requested storage type (or a plain list); int64 when they do not fit it"""
    if want == "list":
        return [int(f) for f in frames]
    if want and want != "int64":
        info = np.iinfo(want)
        if all(info.min <= f <= info.max for f in frames):
            return np.array(frames, dtype=want)
    return np.array(frames, dtype=int)


def make_track(call, j=None):
    _, _, KymoTrack, _ = _lk()
    frames = call["frames"] if j is None else call["frames"][j]
    coords = call["coords"] if j is None else call["coords"][j]
    if call.get("kymo"):
        k = special_kymo(call["kymo"], call["dt"], call["px"])
    elif j is not None and "dts" in call:  # a group that mixes kymographs: every track on its own one
        k = blank_kymo(call["dts"][j], call["pxs"][j], call["blurs"][j])
    else:
        k = blank_kymo(call["dt"], call["px"], call["blur"])
    return KymoTrack(stored_frames(frames, call.get("fdtype")), np.array(coords, dtype=float), k, "red", 0)


# ------------------------------------------------------------------ expansion of a case into calls


def _tf(variant, case, frames, coords, j):
    """transformed (frames, coords, px, dt) of one track for a variant"""
    px, dt = case["px"], case["dt"]
    m = case.get("meta", {})
    if variant == "translate":
        c = m["c"] * (j + 1)
        coords = [x + c for x in coords]
    elif variant == "far":
        # a translation that takes the track FAR from the coordinate origin (offset >> step size): any formula that is
        # only algebraically translation invariant (x_i^2 + x_j^2 - 2 x_i x_j, sum x^2 - n mean^2 ...) cancels here
        c = m["far"] * (j + 1)
        coords = [x + c for x in coords]
    elif variant == "mirror":
        coords = [-x for x in coords]
    elif variant == "shift":
        k = m["k"] * (j + 1)
        frames = [f + k for f in frames]
    elif variant == "scale":
        px = px * m["a"]
    elif variant == "time":
        dt = dt * m["tc"]
    return frames, coords, px, dt


def pow2(a):
    """a is an exact (positive) power of two: scaling doubles by it is exact"""
    import math

    return a > 0 and math.frexp(a)[0] == 0.5


def auto_variants(case):
    """the variants on which the AUTO_OPS (automatic number of lags) of a case are run: base, the position scale (the lag
    search must not depend on the length unit: optimal_points_scale) and one more, cycling with the content of the case"""
    f = case["frames"][0] if case["kind"] == "ens" and case["frames"] else case["frames"]
    key = len(f) + int(sum(f)) + len(case.get("variants", []))
    if len(f) > 12:  # (the model's MSD is O(n^2) per lag)
        return ("base", "scale" if key % 2 else BASIC[key % len(BASIC)])
    return ("base", "scale", BASIC[key % len(BASIC)], "far" if key % 3 == 0 else "base")


def expand(case):
    """list of calls; each call = one protocol op with concrete inputs"""
    kind = case["kind"]
    calls = []
    if kind == "track":
        variants = ["base"] + [v for v in VARIANTS[1:] if v in case.get("variants", [])]
        for v in variants:
            frames, coords, px, dt = _tf(v, case, case["frames"], case["coords"], 0)
            base = {"v": v, "frames": frames, "coords": coords, "px": px, "dt": dt, "blur": case["blur"],
                    "fdtype": case.get("fdtype")}
            a2 = case["meta"]["a"] ** 2 if v == "scale" else 1.0
            for op in case["ops"]:
                if op in AUTO_OPS and (v not in auto_variants(case) or (op == "copyauto" and v == "scale" and len(frames) > 6)):
                    continue
                c = dict(base, op=op)
                if op in ("msd", "kmsd", "ols"):
                    c["L"] = case.get("L_" + op, case.get("L"))
                if op == "cvek":
                    c["lv"] = case["lv"] * a2 if case["lv"] is not None else None
                    c["vlv"] = case["vlv"] * a2 * a2 if case["vlv"] is not None else None
                if op == "copyauto":
                    c["copies_k"] = case.get("copies_k", 2)
                if op == "ols" and (v != "scale" or pow2(case["meta"]["a"])):
                    # GLS / automatic lag selection: exact under power-of-two scaling, so asserted there too
                    c["extras"] = case.get("extras", [])
                    c["copies_k"] = case.get("copies_k", 2)
                calls.append(c)
    elif kind == "ens":
        variants = ["base"] + [v for v in VARIANTS[1:] if v in case.get("variants", [])]
        for v in variants:
            fs, cs, px, dt = [], [], case["px"], case["dt"]
            for j, (f, x) in enumerate(zip(case["frames"], case["coords"])):
                f2, x2, px, dt = _tf(v, case, f, x, j)
                fs.append(f2)
                cs.append(x2)
            base = {"v": v, "frames": fs, "coords": cs, "px": px, "dt": dt, "blur": case["blur"], "fdtype": case.get("fdtype")}
            for op in case["ops"]:
                if op in AUTO_OPS and v not in auto_variants(case):
                    continue
                c = dict(base, op=op, L=case.get("L"), minc=case.get("minc", 2))
                if op == "ensols":
                    c["L"] = case.get("L_ols", case.get("L"))
                    if v != "scale" or pow2(case["meta"]["a"]):
                        # max_lag=None (automatic number of lags): exact under every variant but a non-dyadic scale
                        c["extras"] = case.get("extras", [])
                calls.append(c)
        if case.get("copies"):
            j, k = case["copies"]["track"], case["copies"]["k"]
            one = {"v": "single", "frames": case["frames"][j], "coords": case["coords"][j], "px": case["px"],
                   "dt": case["dt"], "blur": case["blur"], "fdtype": case.get("fdtype")}
            grp = {"v": "copies", "frames": [case["frames"][j]] * k, "coords": [case["coords"][j]] * k,
                   "px": case["px"], "dt": case["dt"], "blur": case["blur"], "fdtype": case.get("fdtype")}
            # "olsopt" on both sides: max_lag=None, the library chooses the number of lags for the track and for its copies
            calls.append(dict(one, op="msd", L=case.get("L")))
            calls.append(dict(one, op="cve"))
            calls.append(dict(one, op="ols", L=case.get("L_ols", case.get("L")), extras=["olsopt"]))
            for op in ("ensmsd", "enscve", "ensols"):
                calls.append(dict(grp, op=op, L=case.get("L_ols", case.get("L")) if op == "ensols" else case.get("L"), minc=2,
                                  **({"extras": ["olsopt"]} if op == "ensols" else {})))
    elif kind == "wmean":
        calls.append({"v": "base", "op": "wmean", "means": case["means"], "counts": case["counts"]})
    elif kind == "cov":
        calls.append({"v": "base", "op": "cov", "K": case["K"], "n": case["n"], "a": case["a"], "b": case["b"]})
    elif kind == "est":
        # KymoTrack.estimate_diffusion as a dispatcher: one call per request (method, max_lag, localization_variance, its variance)
        for q in case["reqs"]:
            calls.append({"v": "base", "op": "est", "frames": case["frames"], "coords": case["coords"], "px": case["px"],
                          "dt": case["dt"], "blur": case["blur"], "fdtype": case.get("fdtype"), "req": q,
                          **({"kymo": case["kymo"]} if case.get("kymo") else {})})
    elif kind == "optk":
        # determine_optimal_points(frame_idx, coordinate, max_iterations=k) called directly (it is an anchor): the iteration
        # budget k and the storage of the frame indices (an integer type, or float64: refused) are its own parameters
        for k in case["ks"]:
            calls.append({"v": "base", "op": "optptsk", "frames": case["frames"], "coords": case["coords"], "px": case["px"],
                          "dt": 1.0, "blur": 0, "fdtype": case.get("fdtype"), "k": k, "float": bool(case.get("float"))})
    elif kind == "ensmix":
        # a group whose tracks come from kymographs with different line times / pixel sizes / blur constants: ensemble cve
        calls.append({"v": "base", "op": "enscvemix", "frames": case["frames"], "coords": case["coords"], "dts": case["dts"],
                      "pxs": case["pxs"], "blurs": case["blurs"], "fdtype": case.get("fdtype")})
    elif kind == "glsupd":
        # one step of the GLS iteration on the inverse covariance matrix the library itself computes for (K, n, a, b)
        calls.append({"v": "base", "op": "glsupd", "K": case["K"], "n": case["n"], "a": case["a"], "b": case["b"], "msd": case["msd"]})
    elif kind == "optraw":  # optimal_points(localization_error, num_points) on a list of localisation errors
        for le in case["les"]:
            calls.append({"v": "base", "op": "optraw", "le": le, "n": case["n"]})
    elif kind == "brownian":
        # a SESSION: the simulations of the case are run one after the other in this process (after everything that was
        # simulated `before`), and every observation is made on the KymoTrackGroup the simulation RETURNED (`obs`, recorded by
        # simulate()); the model and the oracle are given the positions read back from it and the line time that was ASKED for
        for k, (sim, rec) in enumerate(zip(sims_of(case), simulate(case))):
            base = {"v": f"sim{k}", "frames": rec["frames"], "coords": rec["coords"], "px": 1.0, "dt": sim["dt"], "blur": 0}
            calls.append(dict(base, op="enscve", obs=rec["obs"]["enscve"]))
            if sim.get("ols", True):
                calls.append(dict(base, op="ensols", L=2, obs=rec["obs"]["ensols"]))
            one = dict(base, frames=rec["frames"][0] if rec["frames"] else [], coords=rec["coords"][0] if rec["coords"] else [])
            calls.append(dict(one, op="kmsd", L=SIM_MSD_LAGS, obs=rec["obs"]["kmsd"]))
    else:
        raise ValueError(kind)
    return calls


SIM_MSD_LAGS = 3
_SIM = {}
_SESSION = []  # the line times handed to simulate_diffusive_tracks so far in THIS process, in order of first use


def sims_of(case):
    """the simulations of a 'brownian' case in the order in which they are run (older single-simulation cases: one)"""
    return case.get("sims") or [{k: case[k] for k in ("D", "dt", "steps", "num", "noise")}]


def _simulate_group(sim):
    from lumicks.pylake.simulation.diffusion import simulate_diffusive_tracks

    if sim["dt"] not in _SESSION:
        _SESSION.append(sim["dt"])
    return simulate_diffusive_tracks(sim["D"], sim["steps"], sim["dt"], observation_noise=sim["noise"], num_tracks=sim["num"])


def observe_group(g):
    """what the property observes (observe_at: KymoTrack.msd, KymoTrackGroup.ensemble_diffusion) on a simulated group AS
    RETURNED by the library - its tracks keep whatever kymograph / line time the simulation gave them"""
    obs = {}
    for name, f in (
        ("enscve", lambda: g.ensemble_diffusion("cve")),
        ("ensols", lambda: g.ensemble_diffusion("ols", max_lag=2)),
        ("kmsd", lambda: g[0].msd(SIM_MSD_LAGS)),
    ):
        try:
            e = f()
            if name == "enscve":
                obs[name] = (f"ok {rat(e.value)} {rat(float(e.std_err) ** 2)} {rat(e.localization_variance)} "
                             f"{opt_rat(e.variance_of_localization_variance)} {int(e.num_points)}")
            elif name == "ensols":
                obs[name] = show_est(e)
            else:
                obs[name] = f"ok {rlist(e[0])} {rlist(e[1])}"
        except Exception as err:  # noqa: BLE001
            obs[name] = errname(err)
    return obs


def simulate(case):
    """run the session of a 'brownian' case: lumicks.pylake.simulation.simulate_diffusive_tracks once per entry of `sims`, in
    order, in this process, with numpy's global generator seeded from the case.  The line times simulated earlier in the run
    (`before`) are part of the input: in a full run the earlier cases have used them already; when the case is replayed alone
    they are simulated first (one 3-point track each), so that whatever the library keeps between calls is in the same state.
    Returns one record per simulation: frames / positions read back from the returned group + observe_group() of it."""
    sims = sims_of(case)
    key = (case["seed"], tuple(case.get("before", [])), tuple(tuple(sorted(s.items())) for s in sims))
    if key not in _SIM:
        if len(_SIM) > 1024:
            _SIM.clear()
        state = np.random.get_state()
        np.random.seed(case["seed"] % (2**32))
        out = []
        try:
            with warnings.catch_warnings():
                warnings.simplefilter("ignore")
                for dt in case.get("before", []):
                    if dt not in _SESSION:
                        try:
                            _simulate_group({"D": 1.0, "steps": 3, "dt": dt, "noise": 0, "num": 1})
                        except Exception:  # noqa: BLE001 - reported by the case that owns this line time
                            pass
                for sim in sims:
                    try:
                        g = _simulate_group(sim)
                        out.append({"frames": [[int(i) for i in t.time_idx] for t in g],
                                    "coords": [[float(x) for x in t.position] for t in g], "obs": observe_group(g)})
                    except Exception as err:  # noqa: BLE001 - the simulation itself raised: every observation is that error
                        out.append({"frames": [], "coords": [], "obs": {k: errname(err) for k in ("enscve", "ensols", "kmsd")}})
        finally:
            np.random.set_state(state)
        _SIM[key] = out
    return _SIM[key]


# ------------------------------------------------------------------ encoders


def rat(x):
    """exact rational token of a double ('nan'/'inf' tokens for non-finite values)"""
    x = float(x)
    if math.isnan(x):
        return "nan"
    if math.isinf(x):
        return "inf" if x > 0 else "-inf"
    return enc_rat(x)


def rlist(xs):
    return "[" + ",".join(rat(x) for x in xs) + "]"


def opt_rat(x):
    return "N" if x is None else rat(x)


def opt_int(x):
    return "N" if x is None else str(int(x))


def show_est(e):
    return f"ok {rat(e.value)} {rat(float(e.std_err) ** 2)} {rat(e.localization_variance)}"


# ------------------------------------------------------------------ impl


_W = {}


def gls_weight(c):
    """np.linalg.inv(_msd_diffusion_covariance(K, n, a, b)) - the matrix _diffusion_gls hands to _update_gls_estimate - as
    the doubles the implementation gets (the model is given exactly these doubles); None when singular"""
    key = (c["K"], c["n"], c["a"], c["b"])
    if key not in _W:
        if len(_W) > 5000:
            _W.clear()
        me = _lk()[1]
        try:
            with np.errstate(all="ignore"):
                w = np.linalg.inv(me._msd_diffusion_covariance(c["K"], c["n"], c["a"], c["b"]))
            _W[key] = w if np.all(np.isfinite(w)) else None
        except np.linalg.LinAlgError:
            _W[key] = None
    return _W[key]


def run_call(c):
    _, me, KymoTrack, KymoTrackGroup = _lk()
    op = c["op"]
    if "obs" in c:  # made on the group a simulation returned, at the time it returned it (see simulate)
        return c["obs"]
    if op == "wmean":
        w = me.weighted_mean_and_sd(np.array(c["means"], dtype=float), np.array(c["counts"], dtype=np.int64))
        return "ok " + " ".join(rat(x) for x in w)
    if op == "optptsk":
        tr = make_track(c)
        pos = np.array(tr.position)
        if pos.tolist() != positions_of(c["coords"], c["px"]):
            return "harness-position-mismatch"
        frames = np.array(tr.time_idx, dtype=float) if c["float"] else np.asarray(tr.time_idx)
        ns, ni = me.determine_optimal_points(frames, pos, max_iterations=c["k"])
        return f"ok {int(ns)} {int(ni)}"
    if op == "enscvemix":
        tracks = [make_track(c, j) for j in range(len(c["frames"]))]
        for j, tr in enumerate(tracks):
            if np.array(tr.position).tolist() != positions_of(c["coords"][j], c["pxs"][j]) or tr._line_time_seconds != c["dts"][j]:
                return "harness-position-mismatch"
        e = KymoTrackGroup(tracks).ensemble_diffusion("cve")
        return f"ok {rat(e.value)} {rat(float(e.std_err) ** 2)} {int(e.num_points)} {rat(e.localization_variance)}"
    if op == "est":
        tr = make_track(c)
        if c.get("kymo") and (np.array(tr.position).tolist() != positions_of(c["coords"], c["px"]) or tr._line_time_seconds != c["dt"]):
            return "harness-position-mismatch"
        q = c["req"]
        e = tr.estimate_diffusion(q["method"], max_lag=q["L"], localization_variance=q["lv"],
                                  variance_of_localization_variance=q["vlv"])
        ans = show_est(e) + " " + ("N" if q["method"] == "cve" else str(int(e.num_lags)))
        if q["method"] == "gls":
            # The GLS fixed-point iteration can amplify rounding errors without bound (e.g. when the fitted slope is negative
            # and the covariance built from it is close to singular).  Exact elimination in the model and np.linalg.inv in
            # doubles then legitimately differ by far more than the comparison tolerance.  Conditioning is measured on the
            # implementation itself: the same fit with every coordinate moved by a relative 2^-40; a result that moves by
            # more than 1e-7 relative (amplification > 1e5) is not comparable and is flagged (soak seed 8, corpus case).
            try:
                c2 = dict(c, coords=[float(x) * (1.0 + 2.0 ** -40) for x in c["coords"]])
                e2 = make_track(c2).estimate_diffusion("gls", max_lag=q["L"])
                v1, v2 = float(e.value), float(e2.value)
                if not (abs(v1 - v2) <= 1e-7 * max(abs(v1), abs(v2))) or int(e2.num_lags) != int(e.num_lags):
                    ans += " ## illcond"
            except Exception:  # noqa: BLE001
                ans += " ## illcond"
        return ans
    if op == "glsupd" and not hasattr(me, "_update_gls_estimate"):
        # a private helper that no anchor names: when a refactoring renames / re-signs it the step is still run inside every
        # GLS fit (op est); nothing to compare here
        return "helper-unavailable"
    if op == "glsupd" and gls_weight(c) is None:
        return "singular"
    if op == "glsupd":
        ch, slope, icpt, var = me._update_gls_estimate(gls_weight(c), np.array(c["msd"], dtype=float), c["a"], c["b"])
        return f"ok {rat(ch)} {rat(slope)} {rat(icpt)} {rat(var)}"
    if op == "optraw":
        le = {"inf": np.inf, "nan": np.nan, "zero": 0}.get(c["le"], c["le"])  # "zero": the Python int the code passes on
        ns, ni = me.optimal_points(le if isinstance(le, int) else np.float64(le), c["n"])
        return f"ok {int(ns)} {int(ni)}"
    if op == "cov":
        m = me._msd_diffusion_covariance(c["K"], c["n"], c["a"], c["b"])
        return "ok [" + ";".join(",".join(rat(x) for x in row) for row in m) + "]"
    if op in ("msd", "kmsd", "cve", "cvek", "ols", "optpts", "olsauto", "copyauto"):
        tr = make_track(c)
        pos = np.array(tr.position)
        if pos.tolist() != positions_of(c["coords"], c["px"]) or tr._line_time_seconds != c["dt"]:
            return "harness-position-mismatch"
        frames = np.array(tr.time_idx, dtype=int)
        if op == "msd":
            lags, msd, cnt = me.calculate_msd_counts(frames, pos, c["L"])
            return f"ok {enc_list(lags)} {enc_list(cnt)} {rlist(msd)}"
        if op == "kmsd":
            t, msd = tr.msd(c["L"])
            return f"ok {rlist(t)} {rlist(msd)}"
        if op == "optpts":  # the anchored lag search itself: (num_points_slope, num_points_intercept)
            ns, ni = me.determine_optimal_points(frames, pos)
            return f"ok {int(ns)} {int(ni)}"
        if op == "olsauto":  # max_lag=None: the library chooses the number of lags and reports it
            e = tr.estimate_diffusion("ols")
            return show_est(e) + f" {int(e.num_lags)}"
        if op == "copyauto":  # the ensemble of k identical copies of this track, max_lag=None
            e = KymoTrackGroup([make_track(c) for _ in range(c.get("copies_k", 2))]).ensemble_diffusion("ols")
            return show_est(e) + f" {int(e.num_lags)}"
        if op == "cve":
            return show_est(tr.estimate_diffusion("cve"))
        if op == "cvek":
            return show_est(tr.estimate_diffusion("cve", localization_variance=c["lv"], variance_of_localization_variance=c["vlv"]))
        if op == "ols":
            ans = show_est(tr.estimate_diffusion("ols", max_lag=c["L"]))
            ex = []
            for name in c.get("extras", []):
                try:
                    if name == "gls":
                        e = tr.estimate_diffusion("gls", max_lag=c["L"])
                    elif name == "glsall":
                        e = tr.estimate_diffusion("gls")
                    elif name == "copyopt":  # the ensemble of k identical copies of this track, number of lags chosen by the library
                        e = KymoTrackGroup([make_track(c) for _ in range(c.get("copies_k", 2))]).ensemble_diffusion("ols")
                    else:
                        e = tr.estimate_diffusion("ols")
                    ex.append(f"{name}={rat(e.value)},{rat(float(e.std_err) ** 2)},{rat(e.localization_variance)},{e.num_lags}")
                except Exception as err:  # noqa: BLE001
                    ex.append(f"{name}={errname(err)}")
            return ans + (" ## " + " ".join(ex) if ex else "")
    if op in ("ensmsd", "enscve", "ensols", "ensolsauto"):
        tracks = [make_track(c, j) for j in range(len(c["frames"]))]
        g = KymoTrackGroup(tracks)
        if op == "ensolsauto":  # ensemble OLS, max_lag=None
            e = g.ensemble_diffusion("ols")
            return show_est(e) + f" {int(e.num_lags)}"
        if op == "ensmsd":
            em = g.ensemble_msd(c["L"], c["minc"])
            return (f"ok {enc_list(em.lags)} {rlist(em.msd)} {rlist(em.variance)} {rlist(em.counts)} "
                    f"{rlist(em.effective_sample_size)} {rlist(np.asarray(em.sem) ** 2)}")
        if op == "enscve":
            e = g.ensemble_diffusion("cve")
            return (f"ok {rat(e.value)} {rat(float(e.std_err) ** 2)} {rat(e.localization_variance)} "
                    f"{opt_rat(e.variance_of_localization_variance)} {int(e.num_points)}")
        ans = show_est(g.ensemble_diffusion("ols", max_lag=c["L"]))
        ex = []
        for name in c.get("extras", []):  # "olsopt": the number of lags is chosen by the library and reported as num_lags
            try:
                e = g.ensemble_diffusion("ols")
                ex.append(f"{name}={rat(e.value)},{rat(float(e.std_err) ** 2)},{rat(e.localization_variance)},{e.num_lags}")
            except Exception as err:  # noqa: BLE001
                ex.append(f"{name}={errname(err)}")
        return ans + (" ## " + " ".join(ex) if ex else "")
    raise ValueError(op)


def impl(case):
    out = []
    with warnings.catch_warnings():
        warnings.simplefilter("ignore")
        with np.errstate(all="ignore"):
            for c in expand(case):
                try:
                    out.append(run_call(c))
                except Exception as e:  # noqa: BLE001 — mapped to the small enum, compared with the model's error answer
                    out.append(errname(e))
    return out


# ------------------------------------------------------------------ ops


def op_line(c):
    op = c["op"]
    if op == "wmean":
        return f"c09.wmean {rlist(c['means'])} {rlist(c['counts'])}"
    if op == "cov":
        return f"c09.cov {c['K']} {rat(c['n'])} {rat(c['a'])} {rat(c['b'])}"
    if op == "est":
        q = c["req"]
        fs, xs = enc_list(c["frames"]), rlist(positions_of(c["coords"], c["px"]))
        if c.get("kymo"):
            return (f"c09.estk {fs} {xs} {rat(c['dt'])} {MODEL_KIND[c['kymo']]} {q['method'].replace(' ', '~') or '-'} {opt_int(q['L'])} "
                    f"{opt_rat(q['lv'])} {opt_rat(q['vlv'])}")
        return (f"c09.est {fs} {xs} {rat(c['dt'])} {rat(c['blur'])} {q['method'].replace(' ', '~') or '-'} {opt_int(q['L'])} "
                f"{opt_rat(q['lv'])} {opt_rat(q['vlv'])}")
    if op == "optptsk":
        return (f"c09.optptsk {enc_list(c['frames'])} {rlist(positions_of(c['coords'], c['px']))} {int(c['k'])} "
                f"{'float' if c['float'] else 'int'}")
    if op == "enscvemix":
        xs = "[" + ";".join(",".join(rat(x) for x in positions_of(co, px)) for co, px in zip(c["coords"], c["pxs"])) + "]"
        return f"c09.enscvemix {enc_listlist(c['frames'])} {xs} {rlist(c['dts'])} {rlist(c['blurs'])}"
    if op == "glsupd":
        w = gls_weight(c)
        if w is None:
            return "c09.glsupd [] [] 0 0"
        return f"c09.glsupd [{';'.join(','.join(rat(x) for x in row) for row in w)}] {rlist(c['msd'])} {rat(c['a'])} {rat(c['b'])}"
    if op == "optraw":
        return f"c09.optraw {c['le'] if c['le'] in ('inf', 'nan') else '0' if c['le'] == 'zero' else rat(c['le'])} {int(c['n'])}"
    if op in ("msd", "kmsd", "cve", "cvek", "ols", "optpts", "olsauto", "copyauto"):
        fs, xs = enc_list(c["frames"]), rlist(positions_of(c["coords"], c["px"]))
        if op == "optpts":
            return f"c09.optpts {fs} {xs}"
        if op == "olsauto":
            return f"c09.olsauto {fs} {xs} {rat(c['dt'])}"
        if op == "copyauto":
            k = c.get("copies_k", 2)
            return f"c09.ensolsauto [{';'.join([fs[1:-1]] * k)}] [{';'.join([xs[1:-1]] * k)}] {rat(c['dt'])}"
        if op == "msd":
            return f"c09.msd {fs} {xs} {opt_int(c['L'])}"
        if op == "kmsd":
            return f"c09.kmsd {fs} {xs} {rat(c['dt'])} {opt_int(c['L'])}"
        if op == "cve":
            return f"c09.cve {fs} {xs} {rat(c['dt'])} {rat(c['blur'])} N N"
        if op == "cvek":
            return f"c09.cve {fs} {xs} {rat(c['dt'])} {rat(c['blur'])} {opt_rat(c['lv'])} {opt_rat(c['vlv'])}"
        return f"c09.ols {fs} {xs} {rat(c['dt'])} {int(c['L'])}"
    fs = enc_listlist(c["frames"])
    xs = "[" + ";".join(",".join(rat(x) for x in positions_of(co, c["px"])) for co in c["coords"]) + "]"
    if op == "ensmsd":
        return f"c09.ensmsd {fs} {xs} {opt_int(c['L'])} {int(c['minc'])}"
    if op == "enscve":
        return f"c09.enscve {fs} {xs} {rat(c['dt'])} {rat(c['blur'])}"
    if op == "ensols":
        return f"c09.ensols {fs} {xs} {rat(c['dt'])} {int(c['L'])}"
    if op == "ensolsauto":
        return f"c09.ensolsauto {fs} {xs} {rat(c['dt'])}"
    raise ValueError(op)


def ops(case):
    return [op_line(c) for c in expand(case)]


# ------------------------------------------------------------------ parsing / agreement

_LAST = [None, None]


def calls_of(case):
    if _LAST[0] is not case:
        _LAST[0], _LAST[1] = case, expand(case)
    return _LAST[1]


def ptok(tok):
    """token -> Fraction | float (nan/inf) | None ('N') | list (of lists)"""
    if tok.startswith("["):
        inner = tok[1:-1]
        if ";" in inner:
            return [[ptok(x) for x in row.split(",")] if row else [] for row in inner.split(";")]
        return [ptok(x) for x in inner.split(",")] if inner else []
    if tok == "N":
        return None
    if tok in ("nan", "inf", "-inf"):
        return float(tok)
    if tok == "nonfinite":
        return tok
    if "/" in tok:
        return dec_rat(tok)
    return Fr(int(tok))


def near(x, y, scale, tol=TOL):
    """|x - y| <= tol * scale, exact rational arithmetic; non-finite values never agree with a rational"""
    if isinstance(x, float) or isinstance(y, float):
        return False
    if x is None or y is None:
        return x is y
    return abs(x - y) <= Fr(tol) * abs(scale)


def near_list(xs, ys, scales=None, tol=TOL):
    if len(xs) != len(ys):
        return False
    return all(near(x, y, (scales[i] if scales is not None else y), tol) for i, (x, y) in enumerate(zip(xs, ys)))


def strip_extras(a):
    return a.split(" ## ")[0]


def agree(case, i, ia, ma):
    """DESIGN 2.2: ints exactly; rationals within 1e-9 * scale, the scale supplied by the model"""
    illcond = ia.endswith(" ## illcond")
    ia = strip_extras(ia)
    op = calls_of(case)[i]["op"]
    if op == "est":
        if ma in ("tie", "gls-not-modelled"):
            return True  # (a sign tie of the lag search) / (a GLS fit itself: the dispatcher got through all its checks)
        if illcond and ia.startswith("ok ") and ma.startswith("ok "):
            return ia.split()[-1] == ma.split()[-1]  # an ill-conditioned GLS iteration: only the number of lags is comparable
        if not ia.startswith("ok ") or not ma.startswith("ok "):
            return ia == ma
        xa, xm = ia.split()[1:], ma.split()[1:]
        if len(xa) != 4 or len(xm) != 4 or xa[3] != xm[3]:
            return False
        for j in range(3):
            pa, pm = ptok(xa[j]), ptok(xm[j])
            if pm == "nonfinite":
                if not isinstance(pa, float):
                    return False
            elif not near(pa, pm, max(abs(pm), EST_SCALE(case)[j]), 1e-5 if calls_of(case)[i]["req"]["method"] == "gls" else 1e-7):
                # (GLS: np.linalg.inv of the covariance matrix in doubles vs exact elimination, iterated)
                return False
        return True
    if op == "glsupd" and (ma == "singular" or ia == "helper-unavailable"):
        return True  # kappa*mu - lam^2 = 0 exactly (or no inverse): the step divides by zero, nothing is determined
    if op == "optptsk" and ma == "tie":
        return True
    if op in AUTO_OPS and ma == "tie":
        # the model reports that a sign / floor the lag search branches on is decided by the last bits of a double
        # (signTies / floorTie in the model): nothing to compare; counted in extra_coverage
        return True
    if not ia.startswith("ok ") or not ma.startswith("ok "):
        return ia == ma
    a = [ptok(t) for t in ia.split()[1:]]
    m = [ptok(t) for t in ma.split()[1:]]
    if op == "msd":
        return a[0] == m[0] and a[1] == m[1] and near_list(a[2], m[2])
    if op == "optptsk":
        return ma == "tie" or a == m
    if op == "enscvemix":  # value, std_err^2, num_points (the localisation variance of a mixed group is not calculated)
        return len(a) == 4 and len(m) == 5 and a[2] == m[2] and near(a[0], m[0], m[3]) and near(a[1], m[1], m[4])
    if op in ("optpts", "optraw"):
        return a == m
    if op == "glsupd":  # change, slope, intercept, var_slope | scales of slope, intercept, var_slope
        if len(a) != 4 or len(m) != 7:
            return False
        c = calls_of(case)[i]
        sc = [m[4] + m[5] + abs(Fr(c["a"])) + abs(Fr(c["b"])), m[4], m[5], m[6]]
        return all(near(a[j], m[j], sc[j], 1e-8) for j in range(4))
    if op in ("olsauto", "copyauto", "ensolsauto"):
        if len(a) != 4 or len(m) != 7 or a[3] != m[3]:  # the number of lags exactly
            return False
        for j in range(3):
            if m[j] == "nonfinite":
                if not isinstance(a[j], float):
                    return False
                continue
            if isinstance(a[j], float) and math.isnan(a[j]) and op != "olsauto" and j == 1:
                if not (m[1] <= Fr(TOL) * abs(m[5])):  # sqrt of a negative var_slope/ess
                    return False
                continue
            if not near(a[j], m[j], m[4 + j]):
                return False
        return True
    if op == "kmsd":
        return near_list(a[0], m[0]) and near_list(a[1], m[1])
    if op in ("cve", "cvek", "ols", "ensols"):
        if len(a) != 3 or len(m) != 6:
            return False
        for j in range(3):
            if m[j] == "nonfinite":  # division by zero inside the covariance matrix (more lags than points)
                if not isinstance(a[j], float):
                    return False
                continue
            if isinstance(a[j], float) and math.isnan(a[j]) and op == "ensols" and j == 1:
                # sqrt of a negative var_slope/ess: nan on the implementation side
                if not (m[1] <= Fr(TOL) * abs(m[4])):
                    return False
                continue
            if not near(a[j], m[j], m[3 + j]):
                return False
        return True
    if op == "cov":
        if m[0] and not isinstance(m[0][0], list):
            a[0], m[0] = [a[0]], [m[0]]
        flat = [abs(x) for row in m[0] for x in row]
        s = max(flat) if flat else Fr(0)
        return len(a[0]) == len(m[0]) and all(near_list(ra, rm, [s] * len(rm)) for ra, rm in zip(a[0], m[0]))
    if op == "wmean":
        return near(a[0], m[0], m[0]) and near(a[1], m[1], m[4]) and a[2] == m[2] and near(a[3], m[3], m[3])
    if op == "ensmsd":
        if not (a[0] == m[0] and near_list(a[1], m[1]) and near_list(a[2], m[2], m[5]) and a[3] == m[3] and near_list(a[4], m[4])):
            return False
        sem2 = [v / e for v, e in zip(m[2], m[4])]
        return near_list(a[5], sem2, [s / e for s, e in zip(m[5], m[4])])
    if op == "enscve":
        if len(a) != 5 or len(m) != 9 or a[4] != m[4]:
            return False
        for j in range(4):
            if j == 3 and a[3] is None:  # a single usable track: the (absent) input is passed through
                if m[3] != 0:
                    return False
                continue
            if not near(a[j], m[j], m[5 + j]):
                return False
        return True
    return ia == ma


# ------------------------------------------------------------------ oracle (plain Python from the property text)


def pyslice(lst, L):
    return lst[:L]


def brute_msd(frames, pos, L):
    """mean squared displacement over ALL point pairs separated by each lag, with the pair count"""
    d = {}
    n = len(frames)
    for i in range(n):
        for j in range(i + 1, n):
            lag = frames[j] - frames[i]
            if lag > 0:
                d.setdefault(lag, []).append((pos[j] - pos[i]) ** 2)
    lags = pyslice(sorted(d), L)
    return [(lag, sum(d[lag]) / len(d[lag]), len(d[lag])) for lag in lags]


def frs(xs):
    return [Fr(x) for x in xs]


def cve_closed_form(frames, pos, dt, R, lv, vlv):
    """Vestergaard's covariance-based estimator with the average time step (missing frames), 1D.
    returns ('ok', D, lv, scaleD, scaleLv) or the expected exception name"""
    if not (0 <= R <= 0.25):
        return ("ValueError",)
    n = len(pos)
    if n < 3:
        return ("RuntimeError",)
    R, dt = Fr(R), Fr(dt)
    adt = Fr(frames[-1] - frames[0], n - 1) * dt
    dx = [b - a for a, b in zip(pos, pos[1:])]
    m2 = sum(x * x for x in dx) / len(dx)
    cons = [a * b for a, b in zip(dx, dx[1:])]
    mc = sum(cons) / len(cons)
    mca = sum(abs(c) for c in cons) / len(cons)
    s = adt / dt  # average frame step
    if not lv:
        D, sig2 = m2 / (2 * adt) + mc / adt, R * m2 + (2 * R - 1) * mc
        sD, ssig2 = m2 / (2 * adt) + mca / adt, R * m2 + abs(2 * R - 1) * mca

        def var(D, sig2, sign):  # Vestergaard 2016 eq. 22 (1D), epsilon = sigma^2/dt - 2 R D (times D)
            eps = sig2 / dt + sign * 2 * R * D
            return ((6 * (s * D) ** 2 + 4 * eps * s * D + 2 * eps**2) / (n * s**2) + 4 * (s * D + eps) ** 2 / (n**2 * s**2))

        return ("ok", D, sig2, sD, ssig2, var(D, sig2, -1), var(sD, ssig2, 1))
    if vlv is None:
        return ("ValueError",)
    lv, vlv = Fr(lv), Fr(vlv)
    D = (m2 - 2 * lv) / (2 * (adt - 2 * R * dt))
    sD = (m2 + 2 * abs(lv)) / (2 * (adt - 2 * R * dt))

    def var(D, sign):  # Vestergaard 2016 eq. 24 (1D)
        eps = abs(lv) / dt + sign * 2 * R * D if sign > 0 else lv / dt - 2 * R * D
        return (2 * (s * D) ** 2 + 4 * eps * s * D + 3 * eps**2) / (n * (s - 2 * R) ** 2) + abs(vlv) / ((s - 2 * R) ** 2 * dt**2)

    return ("ok", D, lv, sD, abs(lv), var(D, -1), var(sD, 1))


def normal_equations(pts, value, lv, dt):
    """do intercept = 2*lv and slope = value*2*dt solve the normal equations of the points (lag, msd)?"""
    a, b = 2 * lv, value * 2 * Fr(dt)
    K = len(pts)
    al = sum(l for l, _ in pts)
    be = sum(l * l for l, _ in pts)
    ga = sum(abs(y) for _, y in pts)
    de = sum(abs(l * y) for l, y in pts)
    den = K * be - al * al
    if den == 0:
        return None
    sa, sb = (be * ga + al * de) / den, (K * de + al * ga) / den
    r0 = sum(y - a - b * l for l, y in pts)
    r1 = sum(l * (y - a - b * l) for l, y in pts)
    if abs(r0) > Fr(TOL) * (ga + K * sa + al * sb):
        return f"residuals do not sum to zero ({float(r0):.3e})"
    if abs(r1) > Fr(TOL) * (de + al * sa + be * sb):
        return f"residuals are not orthogonal to the lags ({float(r1):.3e})"
    return None


def weighted_stats(ms, ns):
    """documented weighted mean / variance / effective sample size of means `ms` with counts `ns`"""
    sn = sum(ns)
    mean = sum(m * n for m, n in zip(ms, ns)) / sn
    sn2 = sum(n * n for n in ns)
    var = Fr(sn) / (sn * sn - sn2) * sum(n * (m - mean) ** 2 for m, n in zip(ms, ns))
    vscale = Fr(sn) / (sn * sn - sn2) * sum(n * (abs(m) + abs(mean)) ** 2 for m, n in zip(ms, ns))
    return mean, var, sn, Fr(sn * sn, sn2), vscale


def ens_msd_expected(tracks, L, minc):
    """('ok', rows) with rows (lag, mean, var, count, ess, vscale) or the expected exception name"""
    if len(tracks) < 2:
        return ("ValueError",)
    per = [brute_msd(f, p, L) for f, p in tracks]
    lags = sorted({lag for rows in per for lag, _, _ in rows})
    out = []
    for lag in lags:
        ent = [(m, c) for rows in per for lg, m, c in rows if lg == lag]
        if len(ent) < minc:
            continue
        if len(ent) <= 1:
            return ("ValueError",)
        out.append((lag,) + weighted_stats([e[0] for e in ent], [e[1] for e in ent]))
    if not out:
        return ("ValueError",)
    return ("ok", out)


REL = {  # variant -> factors of (value, var, lv)
    "translate": lambda m: (1, 1, 1),
    "mirror": lambda m: (1, 1, 1),
    "shift": lambda m: (1, 1, 1),
    "far": lambda m: (1, 1, 1),
    "scale": lambda m: (Fr(m["a"]) ** 2, Fr(m["a"]) ** 4, Fr(m["a"]) ** 2),
    "time": lambda m: (1 / Fr(m["tc"]), 1 / Fr(m["tc"]) ** 2, 1),
}


def sym_scales(case, calls):
    """natural magnitudes used to bound rounding when two implementation answers are compared"""
    xs = []
    for c in calls:
        if "coords" in c:
            cs = c["coords"] if c["coords"] and isinstance(c["coords"][0], list) else [c["coords"]]
            for co in cs:
                xs.extend(abs(x) * c["px"] for x in co)
    xmax = Fr(max(xs)) if xs else Fr(0)
    base = calls[0]
    cs = base["coords"] if base["coords"] and isinstance(base["coords"][0], list) else [base["coords"]]
    rng = max((Fr(max(co)) - Fr(min(co))) * Fr(base["px"]) for co in cs if co) if any(cs) else Fr(0)
    smsd = rng * rng + Fr(1, 10**12) * xmax * xmax
    return smsd


def same_est(av, ab, f, S, what):
    """variant answer av vs base answer ab ('ok v var lv' strings or error names) under factors f"""
    av, ab = strip_extras(av), strip_extras(ab)
    if not ab.startswith("ok ") or not av.startswith("ok "):
        return None if av == ab else f"{what}: base gives {ab[:60]}, variant gives {av[:60]}"
    v = [ptok(t) for t in av.split()[1:4]]
    b = [ptok(t) for t in ab.split()[1:4]]
    for j, name in enumerate(("value", "std_err^2", "localization_variance")):
        if isinstance(b[j], float) or isinstance(v[j], float):
            if not (isinstance(b[j], float) and isinstance(v[j], float)):
                return f"{what}: {name} is non-finite on one side only"
            continue
        if not near(v[j], f[j] * b[j], max(abs(f[j] * b[j]), f[j] * S[j])):
            return f"{what}: {name} is {float(v[j])!r}, expected {float(f[j])!r} x {float(b[j])!r}"
    return None


def parse_extras(a):
    if " ## " not in a:
        return {}
    out = {}
    for kv in a.split(" ## ")[1].split():
        k, v = kv.split("=")
        out[k] = v
    return out


def extras_under(v, meta, a_v, a_b, f, S):
    """the extra estimates (GLS, automatic number of lags) of a variant answer vs those of the base answer"""
    ev, eb = parse_extras(a_v), parse_extras(a_b)
    for name in eb:
        if v == "scale" and not name.startswith("ols"):
            # GLS stops on an ABSOLUTE change of 1e-4 (documented `tolerance`), so it is only
            # scale-covariant up to that iteration tolerance: not asserted (DESIGN, C09 outside)
            continue
        if name not in ev:
            return f"harness: extra {name} missing for {v}"
        xv, xb = ev[name].split(","), eb[name].split(",")
        if len(xb) < 4 or len(xv) < 4:
            if xv != xb:
                return f"{name} under {v}: {eb[name]} vs {ev[name]}"
            continue
        if xv[3] != xb[3]:
            return f"{name} under {v}: number of lags changed from {xb[3]} to {xv[3]}"
        msg = same_est("ok " + " ".join(xv[:3]), "ok " + " ".join(xb[:3]), f, S, f"{name} under {v}")
        if msg:
            return msg
    return None


def auto_lags_line(extra, pts, dt, what):
    """`extra` = 'value,var,lv,num_lags' as reported for max_lag=None, `pts` = ALL (lag, msd) points in lag order: whatever
    number of lags the library chose (it reports it as num_lags), slope and intercept must be the ordinary least-squares
    line through exactly the first num_lags MSD points"""
    x = extra.split(",")
    if len(x) < 4:
        return None  # an exception name (too few points for the heuristic, nan localization error): compared across variants only
    k = int(x[3])
    if k < 2:
        return f"{what}: num_lags={k}, but a line needs at least two lags"
    used = pts[:k]
    if len(used) < 2:
        return None
    v, lv = ptok(x[0]), ptok(x[2])
    if isinstance(v, float) or isinstance(lv, float):
        return f"{what}: non-finite estimate"
    msg = normal_equations(used, v, lv, dt)
    return f"{what} (num_lags={k}, lags {[int(l) for l, _ in used]}): {msg}" if msg else None


def sign_ties(pts):
    """pts = (lag, msd) points in lag order, exact.  Is, for some number p >= 2 of leading points, the intercept or the slope
    of the exact least-squares line through the first p points zero (within 1e-7 of the size of its terms)?  The heuristic
    for the number of lags branches on the SIGNS of these two numbers (localisation error 0 / infinite / their ratio); on
    such a track (a constant one, a few coarse-grid patterns) the branch is taken on the rounding noise of the fit, and two
    computations of the same MSD curve that differ in the last bit may legitimately take different branches"""
    K, al, be, sy, sly, ga, de = 0, Fr(0), Fr(0), Fr(0), Fr(0), Fr(0), Fr(0)
    for l, y in pts:
        K, al, be, sy, sly, ga, de = K + 1, al + l, be + l * l, sy + y, sly + l * y, ga + abs(y), de + abs(l * y)
        den = K * be - al * al
        if K < 2 or den == 0:
            continue
        if abs(be * sy - al * sly) <= Fr(1, 10**7) * (be * ga + al * de) or abs(K * sly - al * sy) <= Fr(1, 10**7) * (K * de + al * ga):
            return True
    return False


_TIES = {}


def has_sign_tie(frames, pos, pts=None):
    """sign_ties of the complete MSD curve of a track (remembered: the coverage report asks again)"""
    key = (tuple(frames), tuple(pos))
    if key not in _TIES:
        if len(_TIES) > 200000:
            _TIES.clear()
        _TIES[key] = sign_ties(pts if pts is not None else [(Fr(e[0]), e[1]) for e in brute_msd(frames, pos, None)])
    return _TIES[key]


def copies_auto(single, copies, frames, pos, S, what, pts=None):
    """'an ensemble of identical tracks reproduces the single-track value' when the NUMBER OF LAGS is left to the library
    (max_lag=None) on both sides.  `single` / `copies` = 'value,var,lv,num_lags' (or an exception name) as reported by
    KymoTrack.estimate_diffusion("ols") and by KymoTrackGroup([track] * k).ensemble_diffusion("ols").  The ensemble MSD of
    identical tracks IS the single-track MSD curve, so the same number of lags has to come out and the same line.
    `pts` = all (lag, msd) points of the track, exact, if the caller has them.  Asserted for tracks without missing frames:
    with missing frames the library itself warns (on both paths) that the automatic number of lags is unreliable, and not
    asserted on tracks whose fits have a sign tie (sign_ties)"""
    if single is None or copies is None or any(b - a != 1 for a, b in zip(frames, frames[1:])):
        return None
    if has_sign_tie(frames, pos, pts):
        return None
    xs, xc = single.split(","), copies.split(",")
    if len(xs) < 4 or len(xc) < 4:
        if len(xs) < 4 and len(xc) < 4:
            return None  # too few points for the heuristic, on both sides
        return f"{what}: the single track gives {single[:60]}, the ensemble of its copies {copies[:60]}"
    if xs[3] != xc[3]:
        return (f"{what}: the single track is fitted with {xs[3]} lags, the ensemble of its copies with {xc[3]} "
                f"(D = {float(ptok(xs[0]))!r} vs {float(ptok(xc[0]))!r})")
    return same_est("ok " + " ".join([xc[0], "0/1", xc[2]]), "ok " + " ".join([xs[0], "0/1", xs[2]]), (1, 1, 1), S, what)


def oracle_glsupd(case, a):
    """the line a GLS step returns solves the weighted normal equations for the weight matrix it was given (plain Python,
    exact fractions of the doubles): sum_rc W[r,c] res_c = 0 and sum_rc (r+1) W[r,c] res_c = 0 with res_c = msd_c - a - b (c+1);
    the matrix the library computes must be symmetric (hypothesis of gls_normal_equations)"""
    w = gls_weight(calls_of(case)[0])
    if w is None:
        return None
    if a == "helper-unavailable":
        return None
    if not a.startswith("ok "):
        return f"_update_gls_estimate raised {a}"
    got = [ptok(t) for t in a.split()[1:]]
    if any(isinstance(g, float) for g in got):
        return None  # a vanishing determinant kappa*mu - lam^2 in doubles: nothing determined
    W = [[Fr(float(x)) for x in row] for row in w]
    y = frs(case["msd"])
    K = len(y)
    lam = sum((r + 1) * W[r][c] for r in range(K) for c in range(K))
    lam_t = sum((c + 1) * W[r][c] for r in range(K) for c in range(K))
    wabs = sum((r + 1) * abs(W[r][c]) for r in range(K) for c in range(K))
    if abs(lam - lam_t) > Fr(1, 10**6) * wabs:
        return "the inverse covariance matrix handed to the GLS step is not symmetric"
    slope, icpt = got[1], got[2]
    res = [y[c] - icpt - slope * (c + 1) for c in range(K)]
    mag = [abs(y[c]) + abs(icpt) + abs(slope) * (c + 1) for c in range(K)]
    for name, wt in (("", lambda r: 1), ("lag-weighted ", lambda r: r + 1)):
        tot = sum(wt(r) * W[r][c] * res[c] for r in range(K) for c in range(K))
        sc = sum(wt(r) * abs(W[r][c]) * mag[c] for r in range(K) for c in range(K))
        kap = sum(abs(W[r][c]) for r in range(K) for c in range(K))
        den = abs(sum(W[r][c] for r in range(K) for c in range(K)) * sum((r + 1) * (c + 1) * W[r][c] for r in range(K) for c in range(K)) - lam * lam)
        cancel = (kap * sum((r + 1) * (c + 1) * abs(W[r][c]) for r in range(K) for c in range(K)) + wabs * wabs) / den if den else None
        if cancel is None or cancel > 10**6:
            return None  # the 2x2 system of the step is itself ill conditioned: rounding decides
        if abs(tot) > Fr(1, 10**7) * sc * cancel:
            return f"GLS step: the {name}weighted residuals of the returned line do not sum to zero (not the generalised least-squares line)"
    return None


def EST_SCALE(case):
    """magnitudes of (D, var D, localisation variance) of a dispatcher case: position range^2 over the line time"""
    xs = positions_of(case["coords"], case["px"])
    r2 = Fr(max(xs) - min(xs)) ** 2 if xs else Fr(0)
    dt = Fr(case["dt"])
    return (r2 / dt, (r2 / dt) ** 2, r2)


def est_expected_error(case, q):
    """the documented refusals of KymoTrack.estimate_diffusion, in the order the code takes them; None = it must go on"""
    m, L, n = q["method"], q["L"], len(case["frames"])
    if m not in ("cve", "ols", "gls"):
        return "ValueError"
    if case.get("kymo") == "timedown":  # integrated over disjoint sections of time: documented as not supported
        return "NotImplementedError"
    if m == "cve" and case.get("kymo") and q["lv"]:
        return "ValueError"  # no motion blur constant and a localisation variance given: documented refusal
    if m == "cve":
        return None  # (judged by the cve ops of the track cases)
    if q["lv"] is not None or q["vlv"] is not None:
        return "NotImplementedError"
    if L and L < 2:
        return "ValueError"
    if not L and m == "ols" and n <= 4:
        return "RuntimeError"
    if m == "gls" and not contiguous_frames(case["frames"]) and (L or n) >= 2:
        return "RuntimeError"
    return None


def oracle_est(case, calls, ia):
    for c, a in zip(calls, ia):
        q = c["req"]
        exp = est_expected_error(case, q)
        if exp and a != exp:
            return f"estimate_diffusion({q['method']!r}, max_lag={q['L']}, lv={q['lv']}, vlv={q['vlv']}): expected {exp}, got {a[:60]}"
        if q["method"] == "cve" and case.get("kymo") in ("array", "posdown") and not q["lv"]:
            # no motion blur constant: the covariance-based estimate is still the closed form (which does not contain the blur)
            pos = frs(positions_of(case["coords"], case["px"]))
            cf = cve_closed_form(case["frames"], pos, case["dt"], 0, None, None)
            if cf[0] != "ok":
                if a != cf[0]:
                    return f"estimate_diffusion('cve') on a kymograph without blur constant: expected {cf[0]}, got {a[:60]}"
            else:
                if not a.startswith("ok "):
                    return f"estimate_diffusion('cve') on a kymograph without blur constant raised {a}"
                v = ptok(a.split()[1])
                if isinstance(v, float) or not near(v, cf[1], cf[3]):
                    return ("estimate_diffusion('cve') on a kymograph without blur constant: the diffusion constant is not the "
                            "closed-form CVE value")
        if q["L"] == 0:  # `if max_lag`: 0 means "choose", exactly like None
            twin = [b for d, b in zip(calls, ia) if d["req"] == dict(q, L=None)]
            if twin and twin[0] != a:
                return f"estimate_diffusion({q['method']!r}, max_lag=0) = {a[:50]} differs from max_lag=None = {twin[0][:50]}"
        if q["method"] == "cve" and q["L"] is not None:  # max_lag is ignored by cve
            twin = [b for d, b in zip(calls, ia) if d["req"] == dict(q, L=None)]
            if twin and twin[0] != a:
                return f"estimate_diffusion('cve', max_lag={q['L']}) differs from max_lag=None"
    return None


def est4(a):
    """'ok value var lv num_lags' -> 'value,var,lv,num_lags' (the form auto_lags_line / copies_auto take), else the exception name"""
    x = a.split()
    return ",".join(x[1:5]) if a.startswith("ok ") and len(x) >= 5 else a


def auto_under(op, v, exact_variant, av, ab, f, S, tie, what):
    """an AUTO_OPS answer of a variant vs the base answer: the SAME number of lags (optimal_points_invariant / _scale: the
    lag search is invariant under translate / mirror / frame shift / line time and under ANY position scale a != 0) and the
    estimate scaled by f.  Where the variant changes the doubles of the MSD curve by rounding (a non-dyadic scale, a
    translation that is not exact) a track with a sign tie (sign_ties) may legitimately take another branch: not asserted."""
    if av == ab:
        return None
    if tie() and not exact_variant:
        return None
    if op == "optpts" or not ab.startswith("ok ") or not av.startswith("ok "):
        return f"{what}: base gives {ab[:60]}, variant gives {av[:60]}"
    xv, xb = av.split(), ab.split()
    if xv[4] != xb[4]:
        return f"{what}: the number of lags chosen by the library changed from {xb[4]} to {xv[4]}"
    return same_est(" ".join(xv[:4]), " ".join(xb[:4]), f, S, what)


def oracle(case, ia):
    calls = calls_of(case)
    kind = case["kind"]
    idx = {(c["v"], c["op"]): i for i, c in enumerate(calls)}
    ans = lambda v, op: ia[idx[(v, op)]]  # noqa: E731
    if any(a == "harness-position-mismatch" for a in ia):
        return "harness: KymoTrack.position is not coords*pixelsize as the harness assumes"
    if kind == "wmean":
        a = ia[0]
        ms, ns = frs(case["means"]), [int(c) for c in case["counts"]]
        if len(ns) <= 1 or len(ms) != len(ns):
            return None if a == "ValueError" else f"weighted_mean_and_sd: expected ValueError, got {a[:60]}"
        if not a.startswith("ok "):
            return f"weighted_mean_and_sd raised {a}"
        got = [ptok(t) for t in a.split()[1:]]
        mean, var, sn, ess, vs = weighted_stats(ms, ns)
        if not (near(got[0], mean, max(abs(m) for m in ms)) and near(got[1], var, vs) and got[2] == sn and near(got[3], ess, ess)):
            return f"weighted mean/variance/effective sample size differ from the documented formulas: {a[:200]}"
        return None
    if kind == "cov":
        a = ia[0]
        if not a.startswith("ok "):
            return f"_msd_diffusion_covariance raised {a}"
        m = ptok(a.split()[1]) if case["K"] > 1 else [[ptok(a.split()[1])[0]]] if case["K"] == 1 else []
        for i in range(len(m)):
            for j in range(len(m)):
                if isinstance(m[i][j], float) or not near(m[i][j], m[j][i], m[i][j], 1e-12):
                    return f"covariance matrix is not symmetric/finite at ({i},{j})"
        return None
    if kind == "glsupd":
        return oracle_glsupd(case, ia[0])
    if kind == "est":
        return oracle_est(case, calls, ia)
    if kind == "optraw":
        for c, a in zip(calls, ia):
            if case["n"] <= 4:
                if a != "RuntimeError":
                    return f"optimal_points with {case['n']} points: expected RuntimeError, got {a[:40]}"
            elif a.startswith("ok ") and min(int(x) for x in a.split()[1:3]) < 2:
                return f"optimal_points({c['le']}, {case['n']}) = {a}: a line needs at least two lags"
        return None
    if kind == "brownian":
        return oracle_brownian(case, ia)
    if kind == "optk":
        n = len(case["frames"])
        for c, a in zip(calls, ia):
            if c["float"]:
                if a != "TypeError":
                    return f"determine_optimal_points with float frame indices: expected TypeError, got {a[:40]}"
            elif c["k"] >= 1 and n <= 4:
                if a != "RuntimeError":
                    return f"determine_optimal_points on {n} points: expected RuntimeError, got {a[:40]}"
            elif c["k"] >= 1 and a.startswith("ok ") and min(int(x) for x in a.split()[1:3]) < 2:
                return f"determine_optimal_points(max_iterations={c['k']}) = {a}: a line needs at least two lags"
        return None
    if kind == "ensmix":
        return oracle_ensmix(case, ia[0])
    meta = case.get("meta", {})
    S0 = sym_scales(case, calls)
    dt0 = Fr(case["dt"])
    S = (S0 / dt0, (S0 / dt0) ** 2, S0)
    if kind == "track":
        frames = case["frames"]
        pos = frs(positions_of(case["coords"], case["px"]))
        n = len(frames)
        for op in case["ops"]:
            a = strip_extras(ans("base", op))
            if op in ("msd", "kmsd"):
                L = calls[idx[("base", op)]]["L"]
                if op == "kmsd":
                    L = L if L else n
                exp = brute_msd(frames, pos, L)
                if not a.startswith("ok "):
                    return f"{op} raised {a}"
                got = [ptok(t) for t in a.split()[1:]]
                if op == "msd":
                    if got[0] != [e[0] for e in exp] or got[1] != [e[2] for e in exp]:
                        return f"msd: lags/counts {a.split()[1]} {a.split()[2]} but the pairs give {[e[0] for e in exp]} {[e[2] for e in exp]}"
                    if not near_list(got[2], [e[1] for e in exp]):
                        return "msd: a reported MSD is not the mean squared displacement over all pairs with that lag"
                else:
                    if not near_list(got[0], [e[0] * dt0 for e in exp]) or not near_list(got[1], [e[1] for e in exp]):
                        return "KymoTrack.msd: lag times are not lag*line_time or MSD values are not the pair means"
            elif op in ("cve", "cvek"):
                c = calls[idx[("base", op)]]
                exp = cve_closed_form(frames, pos, case["dt"], case["blur"], c.get("lv"), c.get("vlv"))
                if exp[0] != "ok":
                    if a != exp[0]:
                        return f"{op}: expected {exp[0]}, got {a[:60]}"
                else:
                    if not a.startswith("ok "):
                        return f"{op} raised {a}"
                    got = [ptok(t) for t in a.split()[1:]]
                    if not near(got[0], exp[1], exp[3]):
                        return f"{op}: diffusion constant {float(got[0])!r} is not the closed-form CVE value {float(exp[1])!r}"
                    if not near(got[2], exp[2], exp[4]):
                        return f"{op}: localization variance {float(got[2])!r} is not the closed-form value {float(exp[2])!r}"
                    if isinstance(got[1], float) or not near(got[1], exp[5], exp[6]):
                        return f"{op}: std_err^2 is not the documented variance of the CVE estimate (eq. 22/24 of Vestergaard 2016)"
            elif op == "ols":
                L = calls[idx[("base", op)]]["L"]
                if L < 2:
                    if a != "ValueError":
                        return f"ols with max_lag={L}: expected ValueError, got {a[:60]}"
                else:
                    pts = [(Fr(e[0]), e[1]) for e in brute_msd(frames, pos, L)]
                    if len(pts) >= 2:
                        if not a.startswith("ok "):
                            return f"ols raised {a}"
                        got = [ptok(t) for t in a.split()[1:]]
                        if isinstance(got[0], float) or isinstance(got[2], float) or (isinstance(got[1], float) and len(pts) <= n):
                            return "ols: non-finite estimate"
                        msg = normal_equations(pts, got[0], got[2], case["dt"])
                        if msg:
                            return "ols: " + msg
                auto = parse_extras(ans("base", op)).get("olsopt")
                if auto:
                    full = [(Fr(e[0]), e[1]) for e in brute_msd(frames, pos, None)]
                    msg = auto_lags_line(auto, full, case["dt"], "ols with the automatic number of lags")
                    if msg:
                        return msg
                    msg = copies_auto(auto, parse_extras(ans("base", op)).get("copyopt"), frames, pos, S,
                                      f"ensemble of {case.get('copies_k', 2)} identical tracks, automatic number of lags", full)
                    if msg:
                        return msg
            elif op in ("optpts", "olsauto", "copyauto"):
                if n <= 4:
                    if a != "RuntimeError":
                        return f"{op} on a track of {n} points: expected RuntimeError (5 points needed), got {a[:60]}"
                    continue
                full = [(Fr(e[0]), e[1]) for e in brute_msd(frames, pos, None)]
                if op == "optpts":
                    if a.startswith("ok "):
                        ns, ni = (int(x) for x in a.split()[1:3])
                        if ns < 2 or ni < 2:
                            return f"determine_optimal_points returned ({ns}, {ni}): a line needs at least two lags"
                        oa = ans("base", "olsauto") if ("base", "olsauto") in idx else None
                        if oa and oa.startswith("ok ") and int(oa.split()[4]) != ns:
                            return (f"estimate_diffusion('ols') reports num_lags={oa.split()[4]} but determine_optimal_points "
                                    f"returns {ns} lags for the slope")
                elif op == "olsauto":
                    msg = auto_lags_line(est4(a), full, case["dt"], "ols with the automatic number of lags (olsauto)")
                    if msg:
                        return msg
                elif ("base", "olsauto") in idx:
                    msg = copies_auto(est4(ans("base", "olsauto")), est4(a), frames, pos, S,
                                      f"ensemble of {case.get('copies_k', 2)} identical tracks, automatic number of lags (copyauto)", full)
                    if msg:
                        return msg
        # physical symmetries, evaluated on the implementation's own answers
        for v in sorted({c["v"] for c in calls} - {"base"}):
            f = REL[v](meta)
            for op in case["ops"]:
                if (v, op) not in idx:  # the AUTO_OPS run on auto_variants(case) only
                    continue
                av, ab = strip_extras(ans(v, op)), strip_extras(ans("base", op))
                what = f"{op} under {v}"
                if op in ("msd", "kmsd"):
                    if not ab.startswith("ok ") or not av.startswith("ok "):
                        if av != ab:
                            return f"{what}: {ab[:40]} vs {av[:40]}"
                        continue
                    gv = [ptok(t) for t in av.split()[1:]]
                    gb = [ptok(t) for t in ab.split()[1:]]
                    fm = Fr(meta["a"]) ** 2 if v == "scale" else 1
                    if op == "msd":
                        if gv[0] != gb[0] or gv[1] != gb[1]:
                            return f"{what}: lags or counts changed"
                        if not near_list(gv[2], [fm * x for x in gb[2]], [max(fm * x, fm * S0) for x in gb[2]]):
                            return f"{what}: MSD values are not {float(fm)} x the original"
                    else:
                        ft = Fr(meta["tc"]) if v == "time" else 1
                        if not near_list(gv[0], [ft * x for x in gb[0]]):
                            return f"{what}: lag times are not {float(ft)} x the original"
                        if not near_list(gv[1], [fm * x for x in gb[1]], [max(fm * x, fm * S0) for x in gb[1]]):
                            return f"{what}: MSD values are not {float(fm)} x the original"
                elif op in AUTO_OPS and (v, op) not in idx:
                    continue
                elif op in AUTO_OPS:
                    exact_v = v in ("mirror", "shift", "time") or (v == "scale" and pow2(meta["a"])) or (v == "translate" and case.get("exact"))
                    msg = auto_under(op, v, exact_v, av, ab, f, S, lambda: has_sign_tie(frames, pos), what)
                    if msg:
                        return msg
                else:
                    msg = same_est(av, ab, f, S, what)
                    if msg:
                        return msg
                    if op == "ols" and (v != "scale" or pow2(meta["a"])):
                        msg = extras_under(v, meta, ans(v, op), ans("base", op), f, S)
                        if msg:
                            return msg
        return None
    if kind == "ens":
        return oracle_ens(case, calls, ia, idx, ans, meta, S0, S)
    return None


def oracle_ens(case, calls, ia, idx, ans, meta, S0, S):
    tracks = [(f, frs(positions_of(x, case["px"]))) for f, x in zip(case["frames"], case["coords"])]
    L, minc = case.get("L"), case.get("minc", 2)
    dt0 = Fr(case["dt"])
    for op in case["ops"]:
        a = ans("base", op)
        if op == "ensmsd":
            exp = ens_msd_expected(tracks, L, minc)
            if exp[0] != "ok":
                if a != exp[0]:
                    return f"ensemble_msd: expected {exp[0]}, got {a[:60]}"
                continue
            if not a.startswith("ok "):
                return f"ensemble_msd raised {a}"
            g = [ptok(t) for t in a.split()[1:]]
            rows = exp[1]
            if g[0] != [r[0] for r in rows]:
                return f"ensemble_msd: lags {a.split()[1]} but {minc}+ tracks contribute at {[r[0] for r in rows]}"
            if not near_list(g[1], [r[1] for r in rows]):
                return "ensemble_msd: msd is not the count-weighted mean of the per-track MSDs"
            if not near_list(g[2], [r[2] for r in rows], [r[5] for r in rows]):
                return "ensemble_msd: variance is not the documented weighted variance"
            if g[3] != [r[3] for r in rows]:
                return "ensemble_msd: counts are not the summed pair counts"
            if not near_list(g[4], [r[4] for r in rows]):
                return "ensemble_msd: effective sample size is not (sum N)^2 / sum N^2"
            if not near_list(g[5], [r[2] / r[4] for r in rows], [r[5] / r[4] for r in rows]):
                return "ensemble_msd: sem^2 is not variance / effective sample size"
        elif op == "enscve":
            if not (0 <= case["blur"] <= 0.25):
                if any(len(f) >= 3 for f, _ in tracks) and a != "ValueError":
                    return f"ensemble cve with blur {case['blur']}: expected ValueError, got {a[:60]}"
                continue
            per = [(cve_closed_form(f, p, case["dt"], case["blur"], None, None), len(f)) for f, p in tracks if len(f) >= 3]
            if not per:
                if a.startswith("ok "):
                    return "ensemble cve of no usable track returned an estimate"
                continue
            if not a.startswith("ok "):
                return f"ensemble cve raised {a}"
            g = [ptok(t) for t in a.split()[1:]]
            ns = [n for _, n in per]
            if g[4] != sum(ns):
                return f"ensemble cve: num_points {g[4]} is not the total number of points {sum(ns)}"
            if len(per) == 1:
                if not near(g[0], per[0][0][1], per[0][0][3]) or not near(g[2], per[0][0][2], per[0][0][4]):
                    return "ensemble cve of one usable track is not that track's estimate"
                continue
            for j, (gi, vi) in ((1, (0, 1)), (2, (2, 3))):
                xs = [e[0][j] for e in per]
                sc = [e[0][j + 2] for e in per]
                mean = sum(x * n for x, n in zip(xs, ns)) / sum(ns)
                smean = sum(x * n for x, n in zip(sc, ns)) / sum(ns)
                var = sum(n * (x - mean) ** 2 for x, n in zip(xs, ns)) / ((len(ns) - 1) * sum(ns))
                svar = sum(n * (x + smean) ** 2 for x, n in zip(sc, ns)) / ((len(ns) - 1) * sum(ns))
                if not near(g[gi], mean, smean):
                    return f"ensemble cve: {'value' if j == 1 else 'localization variance'} is not the length-weighted mean of the track estimates"
                if not near(g[vi], var, svar):
                    return f"ensemble cve: variance of the {'value' if j == 1 else 'localization variance'} is not eq. 57 of Vestergaard et al."
        elif op == "ensolsauto":
            exp = ens_msd_expected(tracks, None, 2)
            if exp[0] != "ok":
                if a != exp[0]:
                    return f"ensemble ols (max_lag=None): expected {exp[0]} from the ensemble MSD, got {a[:60]}"
                continue
            if len(exp[1]) + 1 <= 4:
                if a != "RuntimeError":
                    return f"ensemble ols (max_lag=None) with {len(exp[1])} lags: expected RuntimeError, got {a[:60]}"
                continue
            msg = auto_lags_line(est4(a), [(Fr(r[0]), r[1]) for r in exp[1]], case["dt"],
                                 "ensemble ols with the automatic number of lags (ensolsauto)")
            if msg:
                return msg
        elif op == "ensols":
            auto = parse_extras(a).get("olsopt")
            if auto:
                exp = ens_msd_expected(tracks, None, 2)
                if exp[0] == "ok":
                    msg = auto_lags_line(auto, [(Fr(r[0]), r[1]) for r in exp[1]], case["dt"],
                                         "ensemble ols with the automatic number of lags")
                    if msg:
                        return msg
            a = strip_extras(a)
            Lo = calls[idx[("base", op)]]["L"]
            exp = ens_msd_expected(tracks, Lo, 2)
            if exp[0] != "ok":
                if a != exp[0]:
                    return f"ensemble ols: expected {exp[0]} from the ensemble MSD, got {a[:60]}"
                continue
            pts = [(Fr(r[0]), r[1]) for r in pyslice(exp[1], Lo)]
            if len(pts) >= 2:
                if not a.startswith("ok "):
                    return f"ensemble ols raised {a}"
                g = [ptok(t) for t in a.split()[1:]]
                if isinstance(g[0], float) or isinstance(g[2], float):
                    return "ensemble ols: non-finite estimate"
                msg = normal_equations(pts, g[0], g[2], case["dt"])
                if msg:
                    return "ensemble ols: " + msg
    for v in sorted({c["v"] for c in calls} - {"base", "single", "copies"}):
        f = REL[v](meta)
        for op in case["ops"]:
            if (v, op) not in idx:  # the AUTO_OPS run on auto_variants(case) only
                continue
            av, ab = ans(v, op), ans("base", op)
            what = f"{op} under {v}"
            if op == "ensmsd":
                if not ab.startswith("ok ") or not av.startswith("ok "):
                    if av != ab:
                        return f"{what}: {ab[:40]} vs {av[:40]}"
                    continue
                gv = [ptok(t) for t in av.split()[1:]]
                gb = [ptok(t) for t in ab.split()[1:]]
                if gv[0] != gb[0] or gv[3] != gb[3] or not near_list(gv[4], gb[4]):
                    return f"{what}: lags, counts or effective sample size changed"
                fm = f[2]
                if not near_list(gv[1], [fm * x for x in gb[1]], [max(fm * x, fm * S0) for x in gb[1]]):
                    return f"{what}: ensemble MSD is not {float(fm)} x the original"
                for j in (2, 5):
                    if not near_list(gv[j], [fm * fm * x for x in gb[j]], [max(fm * fm * x, fm * fm * S0 * S0) for x in gb[j]]):
                        return f"{what}: variance/sem^2 is not {float(fm * fm)} x the original"
            else:
                fa = (f[0], f[1], f[2])
                if op == "enscve":
                    if not ab.startswith("ok ") or not av.startswith("ok "):
                        if av != ab:
                            return f"{what}: {ab[:40]} vs {av[:40]}"
                        continue
                    tv, tb = av.split(), ab.split()
                    if tv[5] != tb[5]:
                        return f"{what}: num_points changed"
                    msg = same_est(" ".join(tv[:4]), " ".join(tb[:4]), fa, S, what)
                    if not msg and tv[4] != "N" and tb[4] != "N":
                        if not near(ptok(tv[4]), f[2] ** 2 * ptok(tb[4]), max(f[2] ** 2 * ptok(tb[4]), f[2] ** 2 * S0 * S0)):
                            msg = f"{what}: variance of the localization variance is not {float(f[2] ** 2)} x the original"
                elif op == "ensolsauto" and (v, op) not in idx:
                    continue
                elif op == "ensolsauto":
                    exact_v = v in ("mirror", "shift", "time") or (v == "scale" and pow2(meta["a"])) or (v == "translate" and case.get("exact"))

                    def ens_tie():
                        exp = ens_msd_expected(tracks, None, 2)
                        return exp[0] != "ok" or sign_ties([(Fr(r[0]), r[1]) for r in exp[1]])

                    msg = auto_under(op, v, exact_v, av, ab, fa, S, ens_tie, what)
                else:
                    msg = same_est(av, ab, fa, S, what)
                    if not msg and (v != "scale" or pow2(meta["a"])):
                        msg = extras_under(v, meta, av, ab, f, S)
                if msg:
                    return msg
    if case.get("copies"):
        k = case["copies"]["k"]
        sm, em = ans("single", "msd"), ans("copies", "ensmsd")
        if sm.startswith("ok ") and em.startswith("ok "):
            s_ = [ptok(t) for t in sm.split()[1:]]
            e_ = [ptok(t) for t in em.split()[1:]]
            if e_[0] != s_[0]:
                return "ensemble of identical tracks: lags differ from the single track"
            if not near_list(e_[1], s_[2]):
                return "ensemble of identical tracks: ensemble MSD differs from the single-track MSD"
            if not all(near(v, 0, m * m) for v, m in zip(e_[2], s_[2])):
                return "ensemble of identical tracks: variance is not zero"
            if e_[3] != [k * c for c in s_[1]] or not near_list(e_[4], [Fr(k)] * len(e_[4])):
                return "ensemble of identical tracks: counts / effective sample size are not k*count / k"
        elif sm.startswith("ok ") and s_nonempty(sm) and not em.startswith("ok "):
            return f"ensemble of identical tracks raised {em}"
        sc, ec = ans("single", "cve"), ans("copies", "enscve")
        if sc.startswith("ok ") != ec.startswith("ok "):
            return f"ensemble cve of identical tracks: single {sc[:30]} vs ensemble {ec[:30]}"
        if sc.startswith("ok "):
            msg = same_est(" ".join(ec.split()[:2] + ["0/1"] + ec.split()[3:4]), " ".join(sc.split()[:2] + ["0/1"] + sc.split()[3:4]), (1, 1, 1), S, "ensemble cve of identical tracks")
            if msg:
                return msg
            if not near(ptok(ec.split()[2]), 0, S[1]):
                return "ensemble cve of identical tracks: variance is not zero"
        so, eo = ans("single", "ols"), ans("copies", "ensols")
        if so.startswith("ok ") and eo.startswith("ok "):
            msg = same_est(" ".join(eo.split()[:2] + ["0/1"] + eo.split()[3:4]), " ".join(so.split()[:2] + ["0/1"] + so.split()[3:4]), (1, 1, 1), S, "ensemble ols of identical tracks")
            if msg:
                return msg
        fj, pj = tracks[case["copies"]["track"]]
        msg = copies_auto(parse_extras(so).get("olsopt"), parse_extras(eo).get("olsopt"), fj, pj, S,
                          f"ensemble of {k} identical tracks, automatic number of lags")
        if msg:
            return msg
    return None


def oracle_ensmix(case, a):
    """'ensemble estimates equal the documented weighted means' for a group that mixes kymographs: the ensemble CVE value is
    the length-weighted mean of the per-track closed-form estimates (each with the line time / pixel size / blur constant of
    its own kymograph), its variance is eq. 57 of Vestergaard et al., num_points the total number of points"""
    per = []
    for f, x, dt, px, R in zip(case["frames"], case["coords"], case["dts"], case["pxs"], case["blurs"]):
        if len(f) >= 3:
            per.append((cve_closed_form(f, frs(positions_of(x, px)), dt, R, None, None), len(f)))
    if not per:
        return "ensemble cve of no usable track returned an estimate" if a.startswith("ok ") else None
    if not a.startswith("ok "):
        return f"ensemble cve of a group that mixes kymographs raised {a}"
    g = [ptok(t) for t in a.split()[1:]]
    ns = [n for _, n in per]
    if g[2] != sum(ns):
        return f"ensemble cve (mixed kymographs): num_points {g[2]} is not the total number of points {sum(ns)}"
    if len(per) == 1:
        return None if near(g[0], per[0][0][1], per[0][0][3]) else "ensemble cve of one usable track is not that track's estimate"
    xs, sc = [e[0][1] for e in per], [e[0][3] for e in per]
    mean = sum(x * n for x, n in zip(xs, ns)) / sum(ns)
    smean = sum(x * n for x, n in zip(sc, ns)) / sum(ns)
    var = sum(n * (x - mean) ** 2 for x, n in zip(xs, ns)) / ((len(ns) - 1) * sum(ns))
    svar = sum(n * (x + smean) ** 2 for x, n in zip(sc, ns)) / ((len(ns) - 1) * sum(ns))
    if not near(g[0], mean, smean):
        return "ensemble cve (mixed kymographs): value is not the length-weighted mean of the track estimates"
    if isinstance(g[1], float) or not near(g[1], var, svar):
        return "ensemble cve (mixed kymographs): variance of the value is not eq. 57 of Vestergaard et al."
    return None


def s_nonempty(sm):
    return sm.split()[1] != "[]"


def oracle_brownian(case, ia):
    """On simulated Brownian tracks the estimators recover the simulated diffusion constant within sampling error - for every
    line time, whatever was simulated before in the same session.  Judged on the library's answers for the group each
    simulation RETURNED:
    * statistical (exploration, not proof): the ensemble estimates lie within 5 (cve) / 8 (ols, looser: its sampling error is
      only bounded through the cve's) standard deviations of the simulated diffusion constant;
    * exact: the simulated tracks live on the line time that was simulated - KymoTrack.msd reports the pair means of the
      track's positions at lag times lag * dt (the clause of the `kmsd` op, here for a kymograph the LIBRARY attached).  A group
      that carries another line time c * dt reports D / c however long the tracks are; the band above only sees that once
      |1 - 1/c| exceeds the sampling error."""
    calls = calls_of(case)
    sims = sims_of(case)
    for k, sim in enumerate(sims):
        D, dt, N, T, noise = sim["D"], sim["dt"], sim["steps"], sim["num"], sim["noise"]
        where = f"simulation {k + 1} of {len(sims)} of the session (D={D}, line time {dt!r}, {T} tracks of {N} points)"
        mine = {c["op"]: (c, ia[i]) for i, c in enumerate(calls) if c["v"] == f"sim{k}"}
        c, a = mine["kmsd"]
        if not a.startswith("ok "):
            return f"brownian time axis: KymoTrack.msd of a simulated track raised {a}; {where}"
        got = [ptok(t) for t in a.split()[1:]]
        exp = brute_msd(c["frames"], frs(positions_of(c["coords"], 1.0)), SIM_MSD_LAGS)
        if not near_list(got[0], [e[0] * Fr(dt) for e in exp]):
            return (f"brownian time axis: the simulated tracks do not live on the simulated line time, KymoTrack.msd lag times "
                    f"{[float(x) for x in got[0]]} are not lag * {dt!r}; {where}")
        if not near_list(got[1], [e[1] for e in exp]):
            return f"brownian msd: KymoTrack.msd of a simulated track is not the pair means of its positions; {where}"
        eps = noise**2 / (D * dt)
        var_track = D * D * ((6 + 4 * eps + 2 * eps * eps) / N + 4 * (1 + eps) ** 2 / N**2)
        sd = math.sqrt(var_track / T)
        for name, op, nsd in (("cve", "enscve", 5), ("ols", "ensols", 8)):
            if op not in mine:
                continue
            a = mine[op][1]
            if not a.startswith("ok "):
                return f"brownian {name}: raised {a}; {where}"
            v = ptok(a.split()[1])
            if isinstance(v, float) or abs(float(v) - D) > nsd * sd:
                return f"brownian {name}: ensemble estimate {float(v)!r} is more than {nsd} sigma ({sd:.3g}) from the simulated D; {where}"
    return None


# ------------------------------------------------------------------ bookkeeping


def nontrivial(case, ia):
    k = case["kind"]
    if case.get("stream") == "malformed":
        return any(not a.startswith("ok ") for a in ia)
    if k == "track":
        return len(case["frames"]) >= 3 and any(a.startswith("ok ") for a in ia) and len(case.get("variants", [])) >= 1
    if k == "ens":
        return len(case["frames"]) >= 2 and any(a.startswith("ok ") for a in ia)
    if k == "optraw":
        return any(a.startswith("ok ") for a in ia)
    if k == "est":
        return any(a.startswith("ok ") for a in ia) and any(not a.startswith("ok ") for a in ia)
    if k == "glsupd":
        return ia[0].startswith("ok ") and len(case["msd"]) >= 2
    if k == "optk":
        return any(a.startswith("ok ") for a in ia) or case.get("float") or len(case["frames"]) <= 4
    if k == "ensmix":
        return ia[0].startswith("ok ") and len(case["frames"]) >= 2
    return all(a.startswith("ok ") for a in ia)


def tags(case, r):
    return {"kind": case["kind"], "stream": case.get("stream")}


def shrink(case):
    k = case["kind"]
    if k in ("track", "ens") and case.get("fdtype") not in (None, "int64"):
        yield dict(case, fdtype="int64")  # does the storage type of the frame indices matter?
    if k == "track":
        n = len(case["frames"])
        if len(case.get("variants", [])) > 1:
            for v in case["variants"]:
                yield dict(case, variants=[v])
        if len(case["ops"]) > 1:
            for op in case["ops"]:
                yield dict(case, ops=[op])
        if case.get("extras"):
            yield dict(case, extras=[])
        if n > 3:
            for cut in (slice(0, n // 2 + 1), slice(1, n), slice(0, n - 1)):
                yield dict(case, frames=case["frames"][cut], coords=case["coords"][cut])
            for i in range(1, n - 1):
                yield dict(case, frames=case["frames"][:i] + case["frames"][i + 1:], coords=case["coords"][:i] + case["coords"][i + 1:])
    elif k == "ens":
        T = len(case["frames"])
        if case.get("copies"):
            yield dict(case, copies=None)
        if case.get("extras"):
            yield dict(case, extras=[])
        if len(case.get("variants", [])) > 1:
            for v in case["variants"]:
                yield dict(case, variants=[v])
        if len(case["ops"]) > 1:
            for op in case["ops"]:
                yield dict(case, ops=[op])
        if T > 2 and not case.get("copies"):
            for j in range(T):
                yield dict(case, frames=case["frames"][:j] + case["frames"][j + 1:], coords=case["coords"][:j] + case["coords"][j + 1:])
        for j in range(T):
            if len(case["frames"][j]) > 3:
                f = [list(x) for x in case["frames"]]
                c = [list(x) for x in case["coords"]]
                f[j], c[j] = f[j][:-1], c[j][:-1]
                yield dict(case, frames=f, coords=c)


# ------------------------------------------------------------------ generators

EXACT_PX = [1.0, 0.5, 0.25, 2.0, 0.125]
LOOSE_PX = [0.1, 0.0427, 1.37]
DTS = [1.0, 0.5, 0.25, 0.0625, 0.1, 0.0312, 1.7]
BLURS = [0, 1 / 6, 0.25]
ALL_OPS = ["msd", "kmsd", "cve", "cvek", "ols"]


def gen_frames(rng, n, contiguous=None):
    if contiguous is None:
        contiguous = rng.chance(0.45)
    f = rng.choice([0, 0, 1, 7, rng.randint(0, 500)])
    out = [f]
    pg = rng.choice([0.1, 0.3, 0.6])
    for _ in range(n - 1):
        f += 1 if (contiguous or not rng.chance(pg)) else 1 + rng.randint(1, rng.choice([1, 2, 4]))
        out.append(f)
    return out


def gen_pattern(rng):
    """a periodic sampling scheme (period, phases kept): every s-th frame, or a repeating on/off mask such as frames
    0,1,4,5,8,9,...  The frame differences of such a track miss whole residue classes, so its lag set has HOLES (lags
    1,3,4,5,7,... or 2,4,6,...): the k-th lag is then not the lag k, and `max_lag` = NUMBER of lags differs from a largest lag"""
    if rng.chance(0.35):
        return [rng.choice([2, 2, 3, 4]), [0]]
    p = rng.choice([3, 4, 4, 5, 6, 8])
    return [p, sorted(rng.sample(range(p), rng.randint(1, p - 1)))]


def pattern_frames(rng, pattern, n, drop=0.0):
    """n frames following the sampling scheme from a random start, optionally with further frames missing at random"""
    p, phases = pattern
    f = rng.choice([0, 0, 1, 7, rng.randint(0, 500)])
    out = []
    while len(out) < n:
        if f % p in phases and not (out and drop and rng.chance(drop)):
            out.append(f)
        f += 1
    return out


def gen_coords(rng, n, exact):
    style = rng.randint(0, 5)
    x = rng.randint(-512, 2048) / 64 if exact else rng.uniform(-8, 32)
    out = []
    step = rng.choice([0.05, 0.5, 3.0])
    drift = rng.choice([0, 0, 0.25, -1.0])
    for i in range(n):
        if style == 0:  # constant (all MSDs zero)
            v = x
        elif style == 1:  # pure drift
            v = x + drift * i
        elif style == 2:  # uniform noise
            v = x + rng.uniform(-step, step)
        else:  # random walk with optional drift and localisation noise
            x += rng.normal() * step + drift * 0.1
            v = x + (rng.normal() * 0.1 if style == 5 else 0)
        out.append(round(v * 64) / 64 if exact else float(v))
    return out


def gen_meta(rng, exact):
    return {"c": rng.randint(-640, 640) / 64, "k": rng.randint(-20, 60),
            # powers of two scale doubles exactly; the extreme ones expose absolute thresholds hiding in
            # quantities that carry units (seeded change C09a-m1: `slope < eps` instead of `slope < 0`)
            "a": rng.choice([2.0, 0.5, 4.0, 0.25, 3.0, 1.5, 2.0**-30, 2.0**24, 2.0**-30] if exact else [2.0, 0.5, 4.0, 2.0**-30]),
            "tc": rng.choice([2.0, 0.5, 4.0, 3.0])}


def gen_track_case(rng, nmax, stream="random", scheme=False):
    """scheme: the track follows a periodic sampling scheme (gen_pattern): its lag set has holes"""
    exact = rng.chance(0.8)
    n = rng.choice([3, 3, 4, 5, 6, rng.randint(3, 12), rng.randint(3, nmax), rng.randint(3, nmax)])
    frames = pattern_frames(rng, gen_pattern(rng), n, rng.choice([0.0, 0.0, 0.1])) if scheme else gen_frames(rng, n)
    contiguous = all(b - a == 1 for a, b in zip(frames, frames[1:]))
    case = {"stream": stream, "kind": "track", "frames": frames, "coords": gen_coords(rng, n, exact), "exact": exact,
            "px": rng.choice(EXACT_PX if exact else LOOSE_PX), "dt": rng.choice(DTS),
            "blur": rng.choice(BLURS + [round(rng.uniform(0, 0.25), 3)]), "meta": gen_meta(rng, exact)}
    case["variants"] = [v for v in BASIC if (v != "translate" or exact)]
    if n > 40:
        case["variants"] = rng.sample(case["variants"], 2)
    case["ops"] = list(ALL_OPS) if n <= 40 else rng.sample(ALL_OPS, 3)
    span = frames[-1] - frames[0]
    case["L_msd"] = rng.choice([None, 1, 2, 3, n - 1, n, span, span + 5, rng.randint(1, n)])
    case["L_kmsd"] = rng.choice([None, 0, 2, 3, n, rng.randint(1, n)])
    case["L_ols"] = rng.choice([2, 2, 3, 4, 5, n - 1, n + 2, rng.randint(2, max(2, min(n, 12)))])
    lvsel = rng.randint(0, 9)
    case["lv"] = 0.0 if lvsel == 0 else rng.randint(1, 4096) / 65536
    case["vlv"] = None if lvsel == 1 else rng.randint(0, 4096) / 2**20
    ex = []
    if exact and n <= 60:
        if contiguous and rng.chance(0.7):
            ex.append("gls")
        if contiguous and n <= 25 and rng.chance(0.3):
            ex.append("glsall")
        if n >= 5 and rng.chance(0.7):
            ex.append("olsopt")
        if not contiguous and rng.chance(0.2):
            ex.append("gls")  # RuntimeError on every variant
    case["extras"] = ex
    return case


def gen_ens_case(rng, tmax, nmax, stream="random", shared=False):
    """shared: all tracks of the group follow ONE sampling scheme (gen_pattern), so that the ensemble MSD has holes in its
    lag set; otherwise every track draws its own gaps (then small lags are practically always present)"""
    exact = rng.chance(0.8)
    pattern = gen_pattern(rng) if shared else None
    drop = rng.choice([0.0, 0.0, 0.1]) if shared else 0.0
    T = rng.choice([2, 2, 3, 4, 5, rng.randint(2, 8), rng.randint(2, tmax)])
    if T > 10:
        nmax = min(nmax, 12)
    frames, coords = [], []
    same_len = rng.chance(0.15)
    n0 = rng.randint(3, nmax)
    for _ in range(T):
        n = n0 if same_len else rng.choice([rng.randint(3, nmax), rng.randint(3, nmax), rng.randint(3, 8), rng.randint(1, 3)])
        frames.append(pattern_frames(rng, pattern, n, drop) if shared else gen_frames(rng, n))
        coords.append(gen_coords(rng, n, exact))
    L = rng.choice([2, 2, 3, 4, 6, None, rng.randint(2, 10)])
    case = {"stream": stream, "kind": "ens", "frames": frames, "coords": coords, "exact": exact,
            "px": rng.choice(EXACT_PX if exact else LOOSE_PX), "dt": rng.choice(DTS), "blur": rng.choice(BLURS),
            "meta": gen_meta(rng, exact), "L": L, "minc": rng.choice([2, 2, 2, 3, T, 1])}
    case["ops"] = ["ensmsd", "enscve"] + (["ensols"] if L else [])
    vs = [v for v in BASIC if (v != "translate" or exact)]
    case["variants"] = vs if T <= 6 else rng.sample(vs, 2)
    if L and rng.chance(0.5):
        long = [j for j, f in enumerate(frames) if len(f) >= 3]
        if long:
            case["copies"] = {"track": rng.choice(long), "k": rng.choice([2, 3, 5])}
    # (drawn last: the draws above are those of the earlier versions of this generator)
    if not L:  # ensemble_msd with all lags; the ensemble OLS still gets an explicit number of lags
        case["L_ols"] = rng.choice([2, 3, 4, 5])
        case["ops"].append("ensols")
    if rng.chance(0.6):
        case["extras"] = ["olsopt"]  # ensemble OLS with max_lag=None: the library chooses and reports the number of lags
    return case


def contiguous_frames(frames):
    return all(b - a == 1 for a, b in zip(frames, frames[1:]))


def with_copies(case):
    """wherever a single track is fitted with the automatic number of lags ("olsopt") and has no missing frames, the ensemble
    of k identical copies of it is fitted with the automatic number of lags as well ("copyopt"); no random draw"""
    if "olsopt" in case.get("extras", []) and "copyopt" not in case["extras"] and contiguous_frames(case["frames"]):
        case["extras"] = list(case["extras"]) + ["copyopt"]
        case["copies_k"] = (2, 3, 5)[len(case["frames"]) % 3]
    return case


def with_auto(case):
    """(no random draw) the ops of the automatic number of lags, tied to the model's determine_optimal_points: a track that is
    fitted with OLS also gets `optpts` (the lag search itself), `olsauto` (estimate_diffusion("ols"), max_lag=None) and - without
    missing frames - `copyauto` (the ensemble of k identical copies, max_lag=None); a group with the "olsopt" extra gets
    `ensolsauto`.  Each of them is run on every variant of the case."""
    if case["kind"] == "track" and "ols" in case["ops"] and "olsauto" not in case["ops"] and len(case["frames"]) <= 130:
        n = len(case["frames"])
        case["ops"] = list(case["ops"]) + ["optpts", "olsauto"]
        if contiguous_frames(case["frames"]) and n <= 60:
            case["ops"].append("copyauto")
            case.setdefault("copies_k", (2, 3, 5)[n % 3])
    elif case["kind"] == "ens" and "olsopt" in case.get("extras", []) and "ensolsauto" not in case["ops"]:
        case["ops"] = list(case["ops"]) + ["ensolsauto"]
    return case


# localisation errors optimal_points is evaluated at (every track length 0..520 on thorough): the constants the code passes on
# (0 as a Python int, inf, nan) and a grid from diffusion dominated to noise dominated
OPTRAW_LES = ["zero", 0.0, "inf", "nan", 1e-9, 1e-3, 0.01, 0.1, 0.25, 0.5, 1.0, 2.0, 3.3, 5.0, 10.0, 30.0, 100.0, 1e3, 1e4, 1e6, 1e9, 1e15]


EST_TRACKS = [  # (frames, coords in px): no missing frames / missing frames / too short for the lag search / minimal
    ([3, 4, 5, 6, 7, 8], [0.0, 1.25, 0.5, 2.0, 1.75, 3.5]),
    ([0, 1, 3, 4, 7, 8, 9], [1.0, 0.25, 1.5, 3.0, 2.5, 2.75, 4.0]),
    ([2, 3, 4, 5], [0.0, 1.0, 0.5, 2.0]),
    ([0, 2, 3], [0.5, 0.0, 1.5]),
]


def est_scope(quick):
    """the dispatcher, exhaustively: 4 tracks x method in {cve, ols, gls, wrong ones} x max_lag in {None, 0, 1, 2, 3, -1, 100}
    x localization_variance in {None, 0.0, 1/64} x its variance in {None, 1/1024} (quick: every second track)"""
    reqs = [{"method": m, "L": L, "lv": lv, "vlv": vlv} for m in ("cve", "ols", "gls", "OLS", "mse", "")
            for L in (None, 0, 1, 2, 3, -1, 100) for lv in (None, 0.0, 1 / 64) for vlv in (None, 1 / 1024)]
    for i, (f, x) in enumerate(EST_TRACKS):
        for half in (0, 1):
            if quick and (i + half) % 2:
                continue
            yield {"stream": "small-scope", "kind": "est", "frames": f, "coords": x, "px": 0.5, "dt": 0.25, "blur": (0, 1 / 6)[i % 2],
                   "fdtype": FDTYPES[i], "reqs": reqs[half::2]}


def glsupd_scope(quick):
    """every (K, n) with 2 <= K < n <= 7 (quick: <= 6), intercept / slope on a small grid, two MSD curves each"""
    for n in range(3, 7 if quick else 8):
        for K in range(2, n):
            for a, b in ((0.0, 1.0), (0.5, 1.0), (-0.25, 1.0), (2.0, 0.25), (1.0, 0.0)):
                for shape in (0, 1):
                    msd = [a + b * (l + 1) if shape == 0 else float((l * l + 1) % 5) / 4 for l in range(K)]
                    yield {"stream": "small-scope", "kind": "glsupd", "K": K, "n": n, "a": a, "b": b, "msd": [max(0.0, m) for m in msd]}


def optraw_scope(quick):
    ns = list(range(0, 141)) + [150, 200, 250, 299, 300, 301, 400, 500, 501] if quick else range(0, 521)
    for n in ns:
        yield {"stream": "small-scope", "kind": "optraw", "n": n, "les": OPTRAW_LES if (not quick or n % 3 == 2 or n <= 12) else OPTRAW_LES[:6]}


# reduced localisation error x = sigma^2 / (D dt) of a generated track: from diffusion dominated (the regime of the tracks
# above: the optimal number of lags is 2..3 and the same for slope and intercept) over the crossover to localisation-noise
# dominated and pure noise (D = 0), where the optimal numbers of lags grow with the track length (up to ~0.56 N for the slope,
# ~N^0.5 for the intercept) and differ from each other and from the starting guess N // 10
NOISE_RATIOS = [0.1, 1.0, 3.0, 10.0, 30.0, 100.0, 1e3, 1e4, float("inf")]


def gen_noisy_case(rng, nmax):
    """a track without missing frames, 20..nmax points: a random walk observed with localisation noise, at a reduced
    localisation error between 0.1 and infinity (NOISE_RATIOS), on the dyadic grid; OLS with an explicit max_lag (the model),
    with the automatic number of lags, and the ensemble of identical copies with the automatic number of lags"""
    n = rng.choice([20, 30, 40, 50, 60, 80, 100, rng.randint(20, nmax), rng.randint(40, nmax)])
    n = min(n, nmax)
    x = rng.choice(NOISE_RATIOS)
    sig = rng.choice([0.25, 1.0, 2.0])
    step = 0.0 if math.isinf(x) else math.sqrt(2 * sig * sig / x)
    drift = rng.choice([0.0, 0.0, 0.0, 0.02 * sig])
    p = rng.randint(-512, 2048) / 64
    coords = []
    for i in range(n):
        p += rng.normal() * step + drift
        coords.append(round((p + rng.normal() * sig) * 64) / 64)
    f0 = rng.choice([0, 0, 1, 7, rng.randint(0, 500)])
    case = {"stream": "random", "kind": "track", "frames": list(range(f0, f0 + n)), "coords": coords, "exact": True,
            "px": rng.choice(EXACT_PX), "dt": rng.choice(DTS), "blur": rng.choice(BLURS), "meta": gen_meta(rng, True),
            "noise_ratio": "inf" if math.isinf(x) else x}
    case["variants"] = rng.sample(list(BASIC), 2)[:2 if n <= 60 else 1]  # (the model's MSD is O(n^2) per lag)
    case["ops"] = ["ols"] + rng.sample(["kmsd", "cve", "msd"], 1)
    case["L_msd"] = rng.choice([None, 2, n - 1, n + 5]) if n <= 50 else rng.randint(1, 4)
    case["L_kmsd"] = rng.choice([None, 0, n - 1, n, 1000]) if n <= 50 else rng.randint(1, 4)
    case["L_ols"] = rng.choice([2, 3, 4, 5])
    case["lv"], case["vlv"] = 1 / 64, 1 / 1024
    case["extras"] = ["olsopt"]
    return with_copies(case)


def pick_storage(rng, case):
    """(drawn after everything else of a case) the integer type the frame indices are stored in, and now and then a
    KymoTrack.msd request for at least as many lags as the track has (all of them have to come back, and nothing else)"""
    case["fdtype"] = rng.choice(FDTYPES + ["int64", "int64", "int64", "uint8", "uint16"])
    if case["kind"] == "track" and "kmsd" in case["ops"] and len(case["frames"]) <= 60 and rng.chance(0.3):
        span = case["frames"][-1] - case["frames"][0]
        case["L_kmsd"] = rng.choice([None, span, span + 5, 1000])
    return case


# Offsets from the coordinate origin that are huge compared to any step (a kymograph position is a legitimate input wherever
# the origin is: stage coordinates, concatenated fields of view, nm instead of um).  All are integers below 2^37, so a 1/64-pixel
# grid position plus (a small multiple of) the offset, times a power-of-two pixel size and a scale in {3, 1.5, 2^k}, is still an
# exact double: the translation itself introduces no rounding and the unchanged library answers bit-for-bit the same.
FAR_OFFSETS = [2.0**26, 2.0**20, 2.0**30, 1e8, 2.0**33, 12345678.0, 2.0**36, 3.0 * 2.0**24]


def far_offset(rng):
    return rng.choice([1, 1, -1]) * rng.choice(FAR_OFFSETS + [2.0**26, float(rng.randint(2**18, 2**34))])


def make_far(rng, case):
    """move a generated track / group case far from the coordinate origin: its base positions (then every op and every
    variant runs there; also for arbitrary doubles, where the sum is rounded and simply IS the input), and/or - on the dyadic
    grid, where the sum is exact - through the "far" variant, which is compared with the near-origin base answer; now and then
    the frame shift is huge as well (late frames of a long recording)"""
    mode = rng.choice(["base", "variant", "both"]) if case["exact"] else "base"
    ens = case["kind"] == "ens"
    if mode != "variant":
        if ens:  # every track of the group at its own distance, or all of them at the same one
            o = far_offset(rng)
            offs = [o if rng.chance(0.5) else far_offset(rng) for _ in case["coords"]]
            case["coords"] = [[float(x + oj) for x in co] for co, oj in zip(case["coords"], offs)]
        else:
            o = far_offset(rng)
            case["coords"] = [float(x + o) for x in case["coords"]]
    case["meta"] = dict(case["meta"])
    if mode != "base":
        case["meta"]["far"] = far_offset(rng)
        case["variants"] = list(case["variants"]) + ["far"]
    if case["exact"] and rng.chance(0.3):  # the ordinary translate variant by a large amount, too
        case["meta"]["c"] = far_offset(rng) / 64
    if rng.chance(0.25):
        case["meta"]["k"] = rng.choice([2**20, 10**6, 2**31, -(2**20)])
    case["far"] = mode
    return case


# line times of simulated acquisitions: the ones the library's own tests use (5 s, 10 ms), confocal line times of 1 s .. 30 ms,
# and fast scans of a few ms down to 0.1 ms
SIM_DTS = [5.0, 1.0, 0.5, 0.1, 0.0312, 0.01, 0.0016, 2.5e-4, 1e-4, 1.7]
SESSION_MODES = ["digits", "digits", "digits", "relative", "relative", "repeat", "free"]


def close_line_times(rng):
    """(mode, 2-3 line times) for consecutive simulations in one session.  Mostly DIFFERENT line times that are close in one
    of the ways two acquisitions can be close, so that anything the library remembers from the earlier simulation under a key
    that is coarser than the line time itself (rounded, truncated, compared with a tolerance, float32 ...) is handed to the
    later one:
    digits   - equal when rounded to d = 1..6 decimals (and, for some of the pairs, when truncated there) although they differ
               by a sizeable factor: (m + u) * 10^-d with a small m, e.g. 0.1 / 0.3 / 0.45 ms, 1.6 / 2.4 ms, 10.1 / 10.4 ms, 0.7 / 1.3 s
    relative - a common line time and one that is larger by a factor 1 + 2^-e (e = 4..28), or its float32 rounding
    repeat   - the SAME line time again, with another one in between (remembering is then legitimate)
    free     - unrelated line times"""
    k = rng.choice([2, 2, 3])
    mode = rng.choice(SESSION_MODES)
    if mode == "digits":
        d, m = rng.choice([1, 2, 3, 3, 4, 5, 6]), rng.choice([0, 0, 1, 2, 2, 3, 7, 10])
        us = rng.sample([u for u in (-0.45, -0.35, -0.2, -0.1, 0.1, 0.2, 0.3, 0.4, 0.45) if m + u > 0], k)
        dts = [round((m + u) * 10.0**-d, d + 2) for u in us]
    elif mode == "relative":
        b = rng.choice(SIM_DTS)
        dts = [b] + [b * (1 + 2.0 ** -rng.choice([4, 6, 10, 16, 22, 28])) for _ in range(k - 1)]
        if rng.chance(0.3) and float(np.float32(b)) != b:
            dts[-1] = float(np.float32(b))
        rng.shuffle(dts)
    elif mode == "repeat":
        b, o = rng.sample(SIM_DTS, 2)
        dts = [b, o, b] if k == 3 else [b, b]
    else:
        dts = rng.sample(SIM_DTS, k)
    return mode, [float(x) for x in dts]


def gen_session(rng, quick):
    """a session of simulate_diffusive_tracks calls (kind 'brownian').  Groups of many short tracks: the sampling error of the
    ensemble estimates goes with 1/sqrt(points in the group), the cost of the model's MSD mesh with points * track length.
    5 sigma of the ensemble CVE is then 0.26-0.32 D, so that the band itself sees a group whose estimates are off by 1.5x
    (0.4 D and more on the one simulation per session that also gets the ensemble OLS, whose model cost is the mesh)."""
    mode, dts = close_line_times(rng)
    D = rng.choice([0.5, 2.0, 10.0])
    sizes = [(40, 50), (30, 50), (40, 40)] if quick else [(40, 50), (30, 50), (40, 40), (60, 30), (100, 10), (25, 50)]
    rel = rng.choice([0.0, 0.0, 0.5])
    ols_at = rng.randint(0, len(dts) - 1)  # the ensemble OLS (expensive in the model) on one simulation of the session
    ols_sizes = [(20, 50), (25, 40)] if quick else [(20, 50), (25, 40), (30, 50), (40, 40), (60, 10), (100, 10)]
    sims = []
    for k, dt in enumerate(dts):
        if rng.chance(0.25):
            D = rng.choice([0.5, 2.0, 10.0])
        steps, num = rng.choice(sizes)
        if k == ols_at:
            steps, num = rng.choice(ols_sizes)
        sims.append({"D": D, "dt": dt, "steps": steps, "num": num, "noise": rel * math.sqrt(D * dt), "ols": k == ols_at})
    return {"stream": "brownian", "kind": "brownian", "seed": rng.randint(0, 2**31), "mode": mode, "sims": sims}


MIX_DTS = [1.0, 0.5, 0.25, 0.0625, 0.1, 1.7]


def gen_optk_case(rng, nmax):
    """determine_optimal_points with an iteration budget: tracks of 3..nmax points - short arbitrary ones and longer ones
    without missing frames at a reduced localisation error where the search takes several steps; budgets 1, 2, 3, some
    k <= 8 and the default 100 (the budget 0 returns the starting guess, about which nothing is stated); every fifth
    case hands the frame indices over as float64 (refused with TypeError whatever the budget)"""
    if rng.chance(0.5):
        c = gen_track_case(rng, min(nmax, 24))
        frames, coords, px = c["frames"], c["coords"], c["px"]
    else:
        c = gen_noisy_case(rng, nmax)
        frames, coords, px = c["frames"], c["coords"], c["px"]
    return {"stream": "random", "kind": "optk", "frames": frames, "coords": coords, "px": px,
            "ks": sorted({1, 2, 3, rng.randint(4, 8), 100}), "float": rng.chance(0.2)}


def gen_ensmix_case(rng, tmax, nmax):
    """a group of 2..tmax tracks of unequal length that come from 2-3 different kymographs (line time and/or pixel size
    and/or blur constant differ): ensemble cve"""
    exact = rng.chance(0.8)
    T = rng.choice([2, 2, 3, 4, rng.randint(2, tmax)])
    nk = rng.choice([2, 2, 3])
    px0, dt0, b0 = rng.choice(EXACT_PX if exact else LOOSE_PX), rng.choice(MIX_DTS), rng.choice(BLURS)
    what = rng.choice(["dt", "dt", "px", "both", "blur"])
    kymos = [(dt0, px0, b0)]
    while len(kymos) < nk:
        dt = rng.choice([d for d in MIX_DTS if d != dt0]) if what in ("dt", "both") else dt0
        px = rng.choice([p_ for p_ in (EXACT_PX if exact else LOOSE_PX) if p_ != px0]) if what in ("px", "both") else px0
        kymos.append((dt, px, rng.choice(BLURS) if what == "blur" or rng.chance(0.3) else b0))
    frames, coords, which = [], [], []
    for j in range(T):
        n = rng.choice([rng.randint(3, nmax), rng.randint(3, nmax), rng.randint(3, 8), rng.randint(1, 3)])
        frames.append(gen_frames(rng, n))
        coords.append(gen_coords(rng, n, exact))
        which.append(j % nk if j < nk else rng.randint(0, nk - 1))
    return {"stream": "random", "kind": "ensmix", "frames": frames, "coords": coords, "exact": exact, "differs": what,
            "dts": [kymos[w][0] for w in which], "pxs": [kymos[w][1] for w in which], "blurs": [kymos[w][2] for w in which]}


def kymo_scope(quick):
    """the dispatcher on the kymograph kinds of KYMO_KINDS: the 4 dispatcher tracks x 3 kinds (quick: kind cycling with the
    track) x method in {cve, ols, gls, a wrong one} x max_lag in {None, 2} x localization_variance in {None, 0.0, 1/64} x its
    variance in {None, 1/1024}"""
    reqs = [{"method": m, "L": L, "lv": lv, "vlv": vlv} for m in ("cve", "ols", "gls", "mse")
            for L in (None, 2) for lv in (None, 0.0, 1 / 64) for vlv in (None, 1 / 1024)]
    for i, (f, x) in enumerate(EST_TRACKS):
        for j, kind in enumerate(KYMO_KINDS):
            if quick and j != i % 3:
                continue
            yield {"stream": "small-scope", "kind": "est", "frames": f, "coords": x, "px": (0.5, 0.1)[i % 2], "dt": (0.25, 0.1)[j % 2],
                   "blur": 0, "fdtype": FDTYPES[i + j], "reqs": reqs, "kymo": kind}


def small_scope(quick):
    """_small_scope with the ops of the automatic number of lags on every track of 4 and 5 points (4: RuntimeError)"""
    for c in _small_scope(quick):
        yield with_auto(c) if len(c["frames"]) >= 4 else c


def _small_scope(quick):
    """every track of 3..5 points on frames within 0..4 (all gap patterns) with positions in {0,1,3}/4 px (first = 0)"""
    i = 0
    for n in (3, 4, 5):
        for frames in itertools.combinations(range(5 if n < 5 else 6), n):
            if n == 5 and quick and frames[-1] == 5 and frames[0] != 0:
                continue
            for tail in itertools.product((0, 1, 3), repeat=n - 1):
                if quick and n >= 4 and (sum(tail) + frames[-1]) % 3:
                    continue
                i += 1  # the "far" variant cycles through the offsets 2^20 .. 2^36, 1e8 (both signs)
                meta = {"c": 5 / 64, "k": 3, "a": 2.0, "tc": 0.5, "far": FAR_OFFSETS[i % len(FAR_OFFSETS)] * (-1) ** (i // len(FAR_OFFSETS))}
                # the storage type of the frame indices cycles through FDTYPES; every third track is asked for ALL its lags
                # through KymoTrack.msd (max_lag=None / more than there are), the others for two
                yield {"stream": "small-scope", "kind": "track", "frames": list(frames), "coords": [0.0] + [t / 4 for t in tail],
                       "exact": True, "px": 0.5, "dt": 0.25, "blur": 1 / 6, "meta": meta, "variants": list(VARIANTS[1:]),
                       "ops": list(ALL_OPS), "L_msd": None, "L_kmsd": (2, None, 2, 2, 9, 2)[i % 6], "L_ols": 3 if n > 3 else 2,
                       "lv": 1 / 64, "vlv": 1 / 1024, "extras": [], "fdtype": FDTYPES[(i // 6) % len(FDTYPES)]}


def small_scope_ens(quick):
    """every pair of tracks that observe two fixed trajectories on 3-4 of the frames 0..5 (all gap patterns of both, incl.
    pairs that share no lag or only lags with holes), ensemble MSD over all lags and ensemble OLS with max_lag 2 and 3"""
    xa, xb = [0, 1, 3, 2, 5, 4], [1, 0, 2, 5, 3, 7]  # quarter pixels, indexed by frame
    subsets = [fs for n in (3, 4) for fs in itertools.combinations(range(6), n)]
    i = 0
    for ia, fa in enumerate(subsets):
        for fb in subsets[ia:]:
            for L in (2, 3):
                i += 1
                if quick and i % 2:
                    continue
                # every 6th pair is also moved far from the origin (the two tracks by different amounts)
                meta = {"c": 5 / 64, "k": 3, "a": 2.0, "tc": 0.5, "far": FAR_OFFSETS[(i // 6) % len(FAR_OFFSETS)]}
                yield {"stream": "small-scope", "kind": "ens", "frames": [list(fa), list(fb)],
                       "coords": [[xa[f] / 4 for f in fa], [xb[f] / 4 for f in fb]], "exact": True, "px": 0.5, "dt": 0.25,
                       "blur": 0, "meta": meta, "L": None, "L_ols": L, "minc": 2, "ops": ["ensmsd", "ensols"],
                       "variants": ["far"] if i % 6 == 0 else [], "fdtype": FDTYPES[(i // 2) % len(FDTYPES)]}


def malformed(rng, count):
    base = {"stream": "malformed", "kind": "track", "exact": True, "px": 0.5, "dt": 0.25, "blur": 0, "meta": gen_meta(rng, True),
            "variants": ["scale"], "extras": [], "L_msd": 2, "L_kmsd": 2, "L_ols": 2, "lv": 1 / 64, "vlv": 1 / 1024}
    fixed = [
        dict(base, frames=[0, 1, 2, 3], coords=[0, 1, 3, 2], blur=0.3, ops=["cve", "cvek"]),
        dict(base, frames=[0, 1, 2, 3], coords=[0, 1, 3, 2], blur=-0.125, ops=["cve", "cvek"]),
        dict(base, frames=[0, 1], coords=[0, 1], blur=0.3, ops=["cve"]),  # blur is checked before the length
        dict(base, frames=[0, 1], coords=[0, 1], ops=["cve", "cvek", "msd", "kmsd"]),
        dict(base, frames=[4], coords=[2], ops=["cve", "msd", "kmsd"]),
        dict(base, frames=[0, 1], coords=[0, 1], ops=["ols"], L_ols=2),  # one lag only: ZeroDivisionError
        dict(base, frames=[0, 2, 3, 7], coords=[0, 1, 3, 2], ops=["ols"], L_ols=1),
        dict(base, frames=[0, 2, 3, 7], coords=[0, 1, 3, 2], ops=["ols"], L_ols=-2),
        dict(base, frames=[0, 2, 3, 7], coords=[0, 1, 3, 2], ops=["cvek"], vlv=None),
        dict(base, frames=[0, 2, 3, 7], coords=[0, 1, 3, 2], ops=["cvek"], lv=0.0, vlv=None),  # 0.0 counts as "not given"
        dict(base, frames=[0, 2, 3, 7], coords=[0, 1, 3, 2], ops=["msd", "kmsd"], L_msd=-1, L_kmsd=-2),
        dict(base, frames=[0, 2, 3, 7], coords=[0, 1, 3, 2], ops=["msd", "kmsd"], L_msd=0, L_kmsd=0),
        dict(base, frames=[0, 2, 3, 7], coords=[0, 1, 3, 2], ops=["msd"], L_msd=-100),
        {"stream": "malformed", "kind": "wmean", "means": [1.5], "counts": [3]},
        {"stream": "malformed", "kind": "wmean", "means": [], "counts": []},
        {"stream": "malformed", "kind": "wmean", "means": [1.5, 2.0, 1.0], "counts": [3, 4]},
        {"stream": "malformed", "kind": "wmean", "means": [1.5], "counts": [3, 4]},
    ]
    ens = {"stream": "malformed", "kind": "ens", "exact": True, "px": 0.5, "dt": 0.25, "blur": 0, "meta": gen_meta(rng, True),
           "variants": [], "L": 2, "minc": 2, "ops": ["ensmsd", "enscve", "ensols"]}
    fixed += [
        dict(ens, frames=[[0, 1, 2, 3]], coords=[[0, 1, 3, 2]]),  # a single track
        dict(ens, frames=[[0, 1, 2, 3], [0, 3]], coords=[[0, 1, 3, 2], [1, 2]], minc=1, L=None, ops=["ensmsd"]),
        dict(ens, frames=[[0, 2, 4], [0, 3]], coords=[[0, 1, 3], [1, 2]]),  # no common lag
        dict(ens, frames=[[0, 1, 2, 3], [5, 6, 7]], coords=[[0, 1, 3, 2], [1, 2, 0]], blur=0.26),
        dict(ens, frames=[[0, 1], [5, 6]], coords=[[0, 1], [1, 2]]),  # no track usable for cve
        dict(ens, frames=[[0, 1, 2, 3], [5, 6, 7]], coords=[[0, 1, 3, 2], [1, 2, 0]], L=1),
        dict(ens, frames=[[0, 1, 2, 3], [5, 6, 7]], coords=[[0, 1, 3, 2], [1, 2, 0]], L=-1),
        dict(ens, frames=[[0, 1, 2, 3], [5, 6, 7], [1]], coords=[[0, 1, 3, 2], [1, 2, 0], [4]], minc=3),
    ]
    for c in fixed:
        if c["kind"] in ("track", "ens"):
            c = dict(c)
            if c["kind"] == "track":
                c["coords"] = [float(x) for x in c["coords"]]
            else:
                c["coords"] = [[float(x) for x in t] for t in c["coords"]]
        yield c
    for i in range(count):
        sub = rng.fork(("malformed", i))
        c = gen_track_case(sub, 10, "malformed")
        what = sub.randint(0, 4)
        if what == 0:
            c["blur"] = sub.choice([0.2501, 0.5, -0.01, 1.0])
        elif what == 1:
            c["frames"], c["coords"] = c["frames"][:2], c["coords"][:2]
        elif what == 2:
            c["L_ols"] = sub.choice([1, -1, -5])
        elif what == 3:
            c["vlv"] = None
        else:
            c["L_msd"], c["L_kmsd"] = -sub.randint(1, 6), -sub.randint(1, 6)
        c["extras"] = []
        c["subseed"] = i
        yield c


def corpus():
    import glob
    import json
    import os

    d = os.path.join(os.path.dirname(os.path.dirname(os.path.abspath(__file__))), "corpus", "C09")
    for p in sorted(glob.glob(os.path.join(d, "*.json"))):
        c = json.load(open(p))
        c = c.get("case", c)
        c["stream"] = "corpus"
        yield c


def cases(tier, rng):
    """all cases of a run; the simulation sessions ('brownian') additionally get the line times that the earlier cases of the
    run have simulated (`before`): the run is ONE Python session, and a case replayed alone must see the same past"""
    past = []
    for c in _cases(tier, rng):
        if c["kind"] == "brownian":
            c["before"] = list(past)
            past.extend(dt for dt in (s_["dt"] for s_ in sims_of(c)) if dt not in past)
        yield c


def _cases(tier, rng):
    quick = tier == "quick"
    yield from corpus()
    yield from malformed(rng.fork("c09-malformed"), 40 if quick else 600)
    yield from small_scope(quick)
    r = rng.fork("c09-tracks")
    for i in range(260 if quick else 3500):
        sub = r.fork(i)
        big = (not quick) and i % 250 == 0
        c = gen_track_case(sub, 60 if not big else 500)
        if len(c["frames"]) > 120:  # a 500-point track: few lags, two ops (the model is O(n^2) per lag)
            c["ops"], c["variants"], c["extras"] = ["msd", "cve"], ["mirror"], []
            c["L_msd"] = sub.randint(1, 4)
        c["subseed"] = i
        yield pick_storage(sub, with_auto(with_copies(c)))
    r = rng.fork("c09-ens")
    for i in range(70 if quick else 1200):
        sub = r.fork(i)
        c = gen_ens_case(sub, 12 if quick else 50, 30)
        c["subseed"] = i
        yield pick_storage(sub, with_auto(c))
    yield from small_scope_ens(quick)
    r = rng.fork("c09-wmean")
    for i in range(60 if quick else 1500):
        sub = r.fork(i)
        n = sub.randint(2, 10)
        yield {"stream": "random", "kind": "wmean", "subseed": i, "means": [sub.choice([0.0, sub.uniform(0, 5), sub.randint(0, 640) / 64]) for _ in range(n)],
               "counts": [sub.choice([1, 1, 2, sub.randint(1, 60)]) for _ in range(n)]}
    r = rng.fork("c09-cov")
    for i in range(60 if quick else 1500):
        sub = r.fork(i)
        K = sub.randint(1, 8)
        yield {"stream": "random", "kind": "cov", "subseed": i, "K": K, "n": K + sub.choice([0, 1, 2, sub.randint(0, 30)]),
               "a": sub.choice([0.0, sub.uniform(-1, 2), sub.randint(-64, 64) / 64]), "b": sub.choice([0.0, sub.uniform(0, 3), sub.randint(0, 128) / 64])}
    r = rng.fork("c09-brownian")  # sessions of 2-3 simulations with (mostly) close line times, see gen_session
    for i in range(8 if quick else 120):
        sub = r.fork(i)
        c = gen_session(sub, quick)
        c["subseed"] = i
        yield c
    # (forked last: the streams above are those of the earlier versions of this check)
    r = rng.fork("c09-ens-shared")  # groups whose tracks share a sampling scheme: holes in the ensemble lag set
    for i in range(40 if quick else 900):
        sub = r.fork(i)
        c = gen_ens_case(sub, 8 if quick else 30, 16 if quick else 24, shared=True)
        c["subseed"] = i
        yield pick_storage(sub, with_auto(c))
    r = rng.fork("c09-tracks-scheme")  # single tracks on a periodic sampling scheme: the k-th lag is not the lag k
    for i in range(30 if quick else 600):
        sub = r.fork(i)
        c = gen_track_case(sub, 24 if quick else 40, scheme=True)
        c["subseed"] = i
        yield pick_storage(sub, with_auto(with_copies(c)))
    r = rng.fork("c09-far")  # tracks and groups far from the coordinate origin (offset >> step size), see make_far
    for i in range(60 if quick else 800):
        sub = r.fork(i)
        if i % 3 == 2:
            c = gen_ens_case(sub, 6 if quick else 30, 16 if quick else 24, shared=sub.chance(0.3))
        else:
            c = gen_track_case(sub, 30 if quick else 60, scheme=sub.chance(0.2))
        c = make_far(sub, c)
        c["subseed"] = i
        yield pick_storage(sub, with_auto(with_copies(c) if c["kind"] == "track" else c))
    r = rng.fork("c09-noisy")  # long tracks from diffusion dominated to pure localisation noise, see gen_noisy_case
    for i in range(32 if quick else 300):
        sub = r.fork(i)
        c = gen_noisy_case(sub, 80 if quick else 128)
        c["subseed"] = i
        yield pick_storage(sub, with_auto(c))
    yield from optraw_scope(quick)
    yield from glsupd_scope(quick)
    yield from est_scope(quick)
    r = rng.fork("c09-gls")  # the GLS iteration itself: tracks of 3..7 points without missing frames (exact elimination in the model)
    for i in range(8 if quick else 120):
        sub = r.fork(i)
        n = sub.choice([3, 4, 5, 5, 6] + ([6] if quick else [7, 7]))
        sig, step = sub.choice([0.0, 0.3, 1.0, 3.0]), sub.choice([0.0, 0.25, 1.0])
        p, coords = sub.randint(-256, 256) / 64, []
        for _ in range(n):
            p += sub.normal() * step
            coords.append(round((p + sub.normal() * sig) * 64) / 64)
        f0 = sub.choice([0, 3, sub.randint(0, 200)])
        reqs = [{"method": "gls", "L": L, "lv": None, "vlv": None} for L in (None, sub.choice([0, 2, 3, 4, n - 1, n, n + 2]))]
        yield {"stream": "random", "kind": "est", "subseed": i, "frames": list(range(f0, f0 + n)), "coords": coords,
               "px": sub.choice(EXACT_PX), "dt": sub.choice(DTS), "blur": 0, "fdtype": sub.choice(FDTYPES), "reqs": reqs}
    r = rng.fork("c09-est")  # the dispatcher on random tracks: a few requests each, mostly valid ones
    for i in range(40 if quick else 300):
        sub = r.fork(i)
        c = gen_track_case(sub, 20)
        n = len(c["frames"])
        reqs = []
        for _ in range(4):
            m = sub.choice(["ols", "ols", "gls", "cve", "cve", "ols ", "GLS"])
            lv = sub.choice([None, None, None, 0.0, c["lv"]])
            reqs.append({"method": m, "L": sub.choice([None, None, 0, 1, 2, 3, n - 1, n, n + 3, -2]), "lv": lv,
                         "vlv": sub.choice([None, c["vlv"]]) if lv is not None else sub.choice([None, None, None, c["vlv"]])})
            if reqs[-1]["L"] == 0 or (m == "cve" and reqs[-1]["L"] is not None):
                reqs.append(dict(reqs[-1], L=None))
        yield {"stream": "random", "kind": "est", "subseed": i, "frames": c["frames"], "coords": c["coords"], "px": c["px"],
               "dt": c["dt"], "blur": c["blur"], "fdtype": sub.choice(FDTYPES), "reqs": reqs}
    # (strengthening round H; forked after the streams above, which stay those of the earlier versions)
    yield from kymo_scope(quick)
    r = rng.fork("c09-kymo")  # the dispatcher on kymographs without blur constant / integrated over disjoint time windows
    for i in range(12 if quick else 200):
        sub = r.fork(i)
        c = gen_track_case(sub, 20)
        n = len(c["frames"])
        reqs = []
        for _ in range(4):
            m = sub.choice(["cve", "cve", "cve", "ols", "gls", "CVE"])
            lv = sub.choice([None, None, 0.0, c["lv"]]) if m.lower() == "cve" else sub.choice([None, None, None, c["lv"]])
            reqs.append({"method": m, "L": sub.choice([None, None, 0, 2, 3, n - 1, n + 3]), "lv": lv,
                         "vlv": sub.choice([None, c["vlv"]])})
        yield {"stream": "random", "kind": "est", "subseed": i, "frames": c["frames"], "coords": c["coords"], "px": c["px"],
               "dt": c["dt"], "blur": 0, "fdtype": sub.choice(FDTYPES), "reqs": reqs, "kymo": sub.choice(KYMO_KINDS[:2] + KYMO_KINDS)}
    r = rng.fork("c09-optk")  # determine_optimal_points with an iteration budget / float frame indices
    for i in range(24 if quick else 300):
        sub = r.fork(i)
        c = gen_optk_case(sub, 40 if quick else 100)
        c["subseed"] = i
        c["fdtype"] = sub.choice(FDTYPES)
        yield c
    r = rng.fork("c09-ensmix")  # groups that mix kymographs (line time / pixel size / blur constant): ensemble cve
    for i in range(30 if quick else 500):
        sub = r.fork(i)
        c = gen_ensmix_case(sub, 8 if quick else 30, 20)
        c["subseed"] = i
        c["fdtype"] = sub.choice(FDTYPES)
        yield c
    r = rng.fork("c09-glsupd")
    for i in range(60 if quick else 600):
        sub = r.fork(i)
        K = sub.choice([2, 2, 3, 4, 5, 6, sub.randint(2, 10)])
        n = K + sub.choice([1, 1, 1, 2, 5, sub.randint(1, 40)])  # K = n - 1: all lags of a track without missing frames
        b = sub.choice([sub.uniform(0.01, 3), sub.randint(1, 128) / 64, 2.0**-20, 1e3])
        a = sub.choice([0.0, sub.uniform(-0.5, 2) * b, sub.randint(-32, 128) / 64, 30 * b])
        msd = [max(0.0, a + b * (l + 1) + sub.choice([0.0, sub.uniform(-0.3, 0.3) * b * (l + 1) ** 0.5])) for l in range(K)]
        yield {"stream": "random", "kind": "glsupd", "subseed": i, "K": K, "n": n, "a": a, "b": b, "msd": msd}


def lag_holes(case):
    """do the MSD points that enter the (ensemble) OLS fit with the explicit max_lag skip a lag, i.e. are the first max_lag
    lags (for a group: of those that occur in at least two tracks) not 1, 2, ..., k?"""
    def lagset(f, L):
        return sorted({b - a for i, a in enumerate(f) for b in f[i + 1:]})[:L]

    if case["kind"] == "track":
        used = lagset(case["frames"], case.get("L_ols"))
    else:
        L = case.get("L_ols", case.get("L"))
        per = [lagset(f, L) for f in case["frames"]]
        used = sorted(u for u in {x for p in per for x in p} if sum(u in p for p in per) >= 2)[:L]
    return used != list(range(1, len(used) + 1))


def extra_coverage(results):
    kinds, errs, sizes, per_op, variants = {}, {}, {}, {}, {}
    holes = {"track": 0, "ens": 0}
    gaps = {"contiguous": 0, "missing-frames": 0}
    exact = {"dyadic-grid": 0, "arbitrary-doubles": 0}
    blur, groups = {}, {}
    dist = {}  # largest |position| / position range of a call: how far from the origin relative to the displacements
    sess = {"sessions": 0, "simulations": 0, "by_mode": {}, "closest_pair_of_distinct_line_times_in_or_before_a_session": {}}
    storage, all_lags = {}, {}  # storage type of the frame indices (as actually used by a call); KymoTrack.msd asked for >= all lags
    auto = {"compared": 0, "not_asserted_missing_frames": 0, "not_asserted_sign_tie": 0, "too_few_points_or_error_on_both_sides": 0,
            "compared_by_track_length": {}, "compared_by_num_lags_vs_start_guess": {}, "noise_ratio_of_generated_tracks": {}}
    # the automatic number of lags as the MODEL runs it (determine_optimal_points / _ensemble, optimal_points, GLS step)
    lagsearch = {"by_op": {}, "num_lags_chosen": {}, "num_lags_vs_start_guess": {}, "slope_vs_intercept_lags": {},
                 "optimal_points_localization_error": {}, "gls_step": {}, "dispatcher": {}}
    for r in results:
        c = r["case"]
        if c["kind"] in ("track", "ens", "optraw", "glsupd", "est"):
            for call, a, m in zip(expand(c), r["impl"], r["model"]):
                op = call["op"]
                if op == "est":
                    q = call["req"]
                    meth = q["method"] if q["method"] in ("cve", "ols", "gls") else "unknown method"
                    out = "estimate" if m.startswith("ok ") else m[:24]
                    d_ = lagsearch["dispatcher"].setdefault(meth, {})
                    d_[out] = d_.get(out, 0) + 1
                if op == "glsupd":
                    key = "singular" if m == "singular" else f"K={call['K']}" if call["K"] <= 6 else "K>=7"
                    lagsearch["gls_step"][key] = lagsearch["gls_step"].get(key, 0) + 1
                if op not in AUTO_OPS:
                    continue
                d_ = lagsearch["by_op"].setdefault(op, {})
                key = "tie (not compared)" if m == "tie" else "compared: numbers" if m.startswith("ok ") else "compared: " + m[:30]
                d_[key] = d_.get(key, 0) + 1
                if op == "optraw":
                    le = call["le"]
                    key = le if isinstance(le, str) else "0" if le == 0 else "<0.1" if le < 0.1 else "0.1-10" if le <= 10 else ">10"
                    lagsearch["optimal_points_localization_error"][key] = lagsearch["optimal_points_localization_error"].get(key, 0) + 1
                if not m.startswith("ok "):
                    continue
                if op == "optpts":
                    ns, ni = (int(x) for x in m.split()[1:3])
                    n = len(call["frames"])
                    g0 = max(2, n // 10)
                    key = "= start guess" if ns == g0 else "< start guess" if ns < g0 else "> start guess"
                    lagsearch["num_lags_vs_start_guess"][key] = lagsearch["num_lags_vs_start_guess"].get(key, 0) + 1
                    key = "slope = intercept" if ns == ni else "slope < intercept" if ns < ni else "slope > intercept (cache refreshed for the intercept only when larger)"
                    lagsearch["slope_vs_intercept_lags"][key] = lagsearch["slope_vs_intercept_lags"].get(key, 0) + 1
                if op in ("olsauto", "copyauto", "ensolsauto"):
                    k = int(m.split()[4])
                    key = str(k) if k <= 4 else "5-9" if k < 10 else "10-29" if k < 30 else ">=30"
                    lagsearch["num_lags_chosen"][key] = lagsearch["num_lags_chosen"].get(key, 0) + 1
    round_h = {"dispatcher_by_kymograph_kind": {}, "lag_search_by_iteration_budget": {}, "mixed_groups_by_what_differs": {}}
    for r in results:
        c = r["case"]
        if c["kind"] == "est" and c.get("kymo"):
            d_ = round_h["dispatcher_by_kymograph_kind"].setdefault(c["kymo"], {})
            for a in r["impl"]:
                key = "estimate" if a.startswith("ok ") else a[:24]
                d_[key] = d_.get(key, 0) + 1
        if c["kind"] == "optk":
            for call, a, m in zip(expand(c), r["impl"], r["model"]):
                key = ("float frame indices" if call["float"] else "budget 100" if call["k"] == 100 else f"budget {call['k']}" if call["k"] <= 3 else "budget 4-8")
                d_ = round_h["lag_search_by_iteration_budget"].setdefault(key, {})
                by100 = [x for cl, x in zip(expand(c), r["impl"]) if cl["k"] == 100]
                out = ("tie (not compared)" if m == "tie" else a[:20] if not a.startswith("ok ") else
                       "same as budget 100" if by100 and by100[0] == a else "budget exhausted before the fixed point")
                d_[out] = d_.get(out, 0) + 1
        if c["kind"] == "ensmix":
            d_ = round_h["mixed_groups_by_what_differs"]
            d_[c.get("differs", "?")] = d_.get(c.get("differs", "?"), 0) + 1
    for r in results:
        c = r["case"]
        if c["kind"] in ("track", "ens"):
            for call, a in zip(expand(c), r["impl"]):
                if call["op"] in ("msd", "wmean", "cov"):
                    continue
                for f in (call["frames"] if call["op"].startswith("ens") else [call["frames"]]):
                    st = stored_frames(f, call.get("fdtype"))
                    key = "list" if isinstance(st, list) else str(st.dtype)
                    storage[key] = storage.get(key, 0) + 1
                if call["op"] == "kmsd" and a.startswith("ok "):
                    f = call["frames"]
                    nl = len({y - x for i, x in enumerate(f) for y in f[i + 1:]})
                    L = call["L"] if call["L"] else len(f)
                    key = ("all lags requested" if L >= nl else "fewer") if L > 0 else "negative max_lag"
                    all_lags.setdefault(key, {})
                    dk = "list" if isinstance(stored_frames(f, call.get("fdtype")), list) else str(stored_frames(f, call.get("fdtype")).dtype)
                    all_lags[key][dk] = all_lags[key].get(dk, 0) + 1
                # the ensemble of identical copies with the automatic number of lags (copies_auto)
                pair = None
                if call["op"] == "ols" and call["v"] in ("base", "single"):
                    ex = parse_extras(a)
                    if call["v"] == "base" and "copyopt" in ex and "olsopt" in ex:
                        pair = (ex["olsopt"], ex["copyopt"])
                    elif call["v"] == "single" and "olsopt" in ex:
                        eo = [x for cl, x in zip(expand(c), r["impl"]) if cl["v"] == "copies" and cl["op"] == "ensols"]
                        if eo and "olsopt" in parse_extras(eo[0]):
                            pair = (ex["olsopt"], parse_extras(eo[0])["olsopt"])
                if pair:
                    f = call["frames"]
                    if not contiguous_frames(f):
                        auto["not_asserted_missing_frames"] += 1
                    elif len(pair[0].split(",")) < 4 and len(pair[1].split(",")) < 4:
                        auto["too_few_points_or_error_on_both_sides"] += 1
                    elif has_sign_tie(f, frs(positions_of(call["coords"], call["px"]))):
                        auto["not_asserted_sign_tie"] += 1
                    else:
                        auto["compared"] += 1
                        n = len(f)
                        b = "5-19" if n < 20 else "20-39" if n < 40 else "40-79" if n < 80 else ">=80"
                        auto["compared_by_track_length"][b] = auto["compared_by_track_length"].get(b, 0) + 1
                        x = pair[0].split(",")
                        if len(x) >= 4:
                            k = int(x[3])
                            b = "2" if k == 2 else "<= N//10" if k <= n // 10 else "<= N//4" if k <= n // 4 else "> N//4"
                            auto["compared_by_num_lags_vs_start_guess"][b] = auto["compared_by_num_lags_vs_start_guess"].get(b, 0) + 1
            if "noise_ratio" in c:
                d_ = auto["noise_ratio_of_generated_tracks"]
                d_[str(c["noise_ratio"])] = d_.get(str(c["noise_ratio"]), 0) + 1
        if c["kind"] == "brownian":
            sess["sessions"] += 1
            sess["simulations"] += len(sims_of(c))
            sess["by_mode"][c.get("mode", "?")] = sess["by_mode"].get(c.get("mode", "?"), 0) + 1
            mine = [s_["dt"] for s_ in sims_of(c)]
            rel = [abs(a - b) / max(a, b) for i, a in enumerate(mine) for b in mine[:i] + list(c.get("before", [])) if a != b]
            q = min(rel) if rel else None
            b = "none" if q is None else "<1e-6" if q < 1e-6 else "1e-6..1e-2" if q < 1e-2 else "1e-2..0.2" if q < 0.2 else ">=0.2"
            d_ = sess["closest_pair_of_distinct_line_times_in_or_before_a_session"]
            d_[b] = d_.get(b, 0) + 1
        if c["kind"] in ("track", "ens"):
            for call in expand(c):
                if call["op"] in ("msd", "ensmsd"):
                    tl = call["coords"] if call["op"] == "ensmsd" else [call["coords"]]
                    q = max((max(abs(x) for x in t) / (max(t) - min(t)) if max(t) > min(t) else 0.0) for t in tl if t) if any(tl) else 0.0
                    b = "<1e3" if q < 1e3 else "1e3-1e6" if q < 1e6 else "1e6-1e9" if q < 1e9 else ">=1e9"
                    dist[b] = dist.get(b, 0) + 1
        kinds[c["kind"]] = kinds.get(c["kind"], 0) + 1
        for call, a in zip(expand(c), r["impl"]):
            per_op[call["op"]] = per_op.get(call["op"], 0) + 1
            variants[call["v"]] = variants.get(call["v"], 0) + 1
            if not a.startswith("ok "):
                errs[a[:40]] = errs.get(a[:40], 0) + 1
        if c["kind"] in ("track", "ens"):
            if c.get("stream") != "malformed" and (c.get("L_ols") or c.get("L")) and lag_holes(c):
                holes[c["kind"]] += 1
            exact["dyadic-grid" if c.get("exact") else "arbitrary-doubles"] += 1
            blur[str(round(c["blur"], 4))] = blur.get(str(round(c["blur"], 4)), 0) + 1
            tl = [c["frames"]] if c["kind"] == "track" else c["frames"]
            for f in tl:
                n = len(f)
                b = "1-2" if n < 3 else "3-5" if n <= 5 else "6-20" if n <= 20 else "21-60" if n <= 60 else "61-500"
                sizes[b] = sizes.get(b, 0) + 1
                gaps["contiguous" if all(y - x == 1 for x, y in zip(f, f[1:])) else "missing-frames"] += 1
            if c["kind"] == "ens":
                T = len(c["frames"])
                b = "1" if T < 2 else "2-5" if T <= 5 else "6-12" if T <= 12 else "13-50"
                groups[b] = groups.get(b, 0) + 1
    return {"case_kinds": kinds, "calls_per_op": per_op, "calls_per_variant": variants, "error_kinds": errs,
            "track_lengths": sizes, "frame_gaps": gaps, "position_grid": exact, "blur_constants": blur, "group_sizes": groups,
            "cases_whose_fitted_lags_skip_a_value": holes,
            "msd_calls_by_distance_from_origin_over_position_range": dist,
            "simulation_sessions": sess,
            "frame_index_storage_types_of_kymotrack_calls": storage,
            "kymotrack_msd_calls_by_requested_lags_and_storage_type": all_lags,
            "identical_copies_with_automatic_number_of_lags": auto,
            "lag_search_as_run_by_the_model": lagsearch,
            "strengthening_round_h": round_h,
            "tolerance": "1e-9 * scale (scale computed by the model from absolute values of every term)",
            "exhaustive": False,
            "exhaustive_note": "the small-scope stream enumerates its finite space completely on thorough (strided on quick); random streams do not"}


RULE = (
    "corpus + malformed stream (blur outside [0,1/4], <3 points, max_lag<2 or negative, known variance without its variance, "
    "single-track / no-common-lag ensembles, mismatched weighted-mean inputs) + small scope (every 3-5 point track on frames "
    "within 0..5 with all gap patterns and positions in {0,1,3}/4 px; strided on quick) + seeded random tracks (3-60 points, "
    "every 250th up to 500 on thorough; contiguous or with gaps of 1-4 frames; constant / drift / noise / random-walk positions "
    "on the 1/64-pixel grid (80%) or arbitrary doubles; pixel sizes, line times, blur in {0,1/6,1/4,random}; max_lag around 2, n-1, n, "
    "the frame span, None, 0; known localisation variance incl. 0.0) each expanded into base + translate/mirror/frame-shift/"
    "pixel-size-scale/line-time-scale variants; groups of 2-50 tracks of unequal length (1-30 points) with min_count in "
    "{1,2,3,T}, identical-copies sub-case; ensemble small scope (every pair of tracks observing two fixed trajectories on 3-4 of "
    "the frames 0..5, ensemble OLS with max_lag 2 and 3; every second one on quick); groups (2-30 tracks) and single tracks that "
    "follow ONE periodic sampling scheme (every s-th frame, or a repeating on/off frame mask, plus random extra missing frames) so "
    "that the lag set of the (ensemble) MSD has holes and the k-th lag is not the lag k; ensemble OLS with an explicit max_lag on "
    "every group and, on 60%, also with max_lag=None (the reported num_lags decides which MSD points the line must fit; single "
    "tracks likewise); tracks and groups FAR from the coordinate origin (offset 2^18..2^36, 1e8 >> step size; base positions "
    "there - dyadic grid or arbitrary doubles - and/or an exact translation there as the extra variant 'far', every track of a "
    "group by its own amount; also in both small scopes; now and then a frame shift of 2^20..2^31), where only a formula in "
    "terms of displacements keeps its accuracy; the frame indices of every track / group case are stored in an integer type "
    "drawn from int8..int64, uint8..uint64, plain list (int64 when they do not fit; cycled in both small scopes) and KymoTrack.msd "
    "is asked for all lags / more lags than exist on a third of the small scope and ~30% of the random tracks; long tracks "
    "without missing frames (20-80 points, thorough -128) from diffusion dominated to pure localisation noise (reduced "
    "localisation error 0.1..1e4, inf), where the automatic number of lags grows with the track and differs for slope and "
    "intercept; wherever a track without missing frames is fitted with max_lag=None, the ensemble of 2/3/5 identical copies of "
    "it is fitted with max_lag=None too and must report the same number of lags and the same line (also in the identical-copies "
    "sub-case of the groups); direct weighted_mean_and_sd and _msd_diffusion_covariance calls; seeded Brownian "
    "simulation SESSIONS: 2-3 simulate_diffusive_tracks calls in a row in the one process of the run (which is itself one session: "
    "every case also records the line times simulated before it and re-simulates them when replayed alone), with line times "
    "0.1 us..5 s that are mostly close to each other - equal when rounded/truncated to 1..6 decimals though they differ by a "
    "sizeable factor (0.1/0.3/0.45 ms, 1.6/2.4 ms, 0.7/1.3 s), differing by a factor 1+2^-4..1+2^-28 or by float32 rounding, "
    "the same line time repeated with another in between, unrelated ones - on groups of 40-50 tracks of 30-40 points (thorough "
    "also 10-30 tracks of 60-100; the ensemble OLS on one simulation per session, quick: 40-50 tracks of 20-25 points); ensemble "
    "CVE / OLS and KymoTrack.msd are taken from the group the simulation RETURNED "
    "(5/8-sigma band around the simulated D, exploration; lag times = lag * simulated line time, exact; model fed with the line time asked for). "
    "Deepening round D - the automatic number of lags and the dispatcher are now MODEL ops: every track case that is fitted with OLS also "
    "runs determine_optimal_points itself (optpts), estimate_diffusion('ols') with max_lag=None (olsauto) and - without missing frames - "
    "the ensemble of 2/3/5 identical copies with max_lag=None (copyauto); every group with the olsopt extra runs ensemble_diffusion('ols') "
    "with max_lag=None (ensolsauto); each on base + position scale (any a, not only powers of two) + one more variant cycling with the "
    "case; tracks of 4 and 5 points of the small scope included (4: RuntimeError); optimal_points(localization_error, n) for every "
    "n in 0..520 (quick: 0..140 and some) x 22 localisation errors incl. the int 0, inf, nan (optraw); one GLS update step "
    "_update_gls_estimate on the inverse covariance matrix the library computes, every (K, n) with 2 <= K < n <= 7 x 5 (intercept, slope) "
    "x 2 curves + random K <= 10 (glsupd); KymoTrack.estimate_diffusion as a dispatcher (est): 4 tracks x 6 methods (3 wrong) x 7 max_lag "
    "x 3 localization_variance x 2 variance-of-it exhaustively, random tracks with 4-6 requests, and GLS fits on tracks of 3-7 points "
    "without missing frames (exact Gauss-Jordan elimination in the model, state rounded to doubles, 1e-5 relative). Where a sign / floor / "
    "stop criterion the code branches on is decided by the last bits of a double the model answers `tie` and nothing is compared "
    "(counted in lag_search_as_run_by_the_model). Strengthening round H - inputs of the anchored functions that tracks of one blur-calibrated "
    "kymograph never reach: determine_optimal_points called with an iteration budget max_iterations in {1, 2, 3, one of 4..8, 100} (the budget "
    "exhausted returns the last optimal_points pair; budget 0 = the starting guess is not asserted) and, every fifth case, with float64 frame "
    "indices (TypeError) on short arbitrary tracks and 20-40 (thorough -100) point noisy ones (optk); the dispatcher on kymographs the LIBRARY "
    "makes without a motion blur constant (_kymo_from_array as returned; downsampled_by(position_factor=2)) or integrated over disjoint time "
    "windows (downsampled_by(time_factor=2)): 4 tracks x kinds x 4 methods x 2 max_lag x 3 localization_variance x 2 variances + random tracks "
    "(cve there = the closed-form D, nan errors; a localisation variance is refused; disjoint: NotImplementedError); groups of 2-8 (thorough -30) "
    "tracks from 2-3 kymographs that differ in line time / pixel size / both / blur constant: ensemble cve = length-weighted mean and eq. 57 "
    "variance of the per-track closed forms, each with its own line time (ensmix). Non-trivial: a track case with >=3 points, a numeric estimate and at least one "
    "metamorphic variant; an ensemble with >=2 tracks and a numeric answer; a malformed case that raises."
)
TRUSTED = [
    "IEEE doubles are read as exact rationals; the implementation's rounding is absorbed by the tolerance 1e-9 * scale, the scale "
    "being the same formula evaluated by the model on absolute values (conditioning-aware, DESIGN 2.2); square roots (std_err, sem) are compared through their squares",
    "lumicks.pylake.kymo._kymo_from_array with _motion_blur_constant set (as simulation/diffusion.py does) stands for a tracked kymograph: "
    "only line_time_seconds, pixelsize, motion_blur_constant, contiguous and the calibration unit are read by the estimators",
    "numpy np.unique / meshgrid / boolean selection / np.diff / np.mean semantics as transcribed in lean/Verif/Model/C09.lean",
    "np.polyfit(x, y, 1) is the least-squares line (the model uses the closed form olsLine; sign decisions within 1e-7 of zero are not compared); "
    "np.linalg.inv is the matrix inverse (the model eliminates exactly over Q; compared to 1e-5 on <= 6x6 covariance matrices); libm pow/cbrt "
    "vs exp(y log x)/cbrt in Lean's Float (floors within 1e-6 of an integer are not compared)",
]
ASSUMPTIONS = [
    "frame indices of a track are strictly increasing integers (hypothesis Increasing of msd_def; KymoTrack data always are); "
    "the integer type they are stored in is part of the input of the implementation only (int8..uint64, list) - the model and the oracle work on the integers",
    "theorems are over Q: they hold for the exact rational value of every double input, not for the rounded float arithmetic",
    "deepening round D: determine_optimal_points / _determine_optimal_points_ensemble / optimal_points / calculate_localization_error, the GLS "
    "iteration and the dispatcher KymoTrack.estimate_diffusion are now IN the model (theorems for every optimal_points function, every matrix "
    "inverse and state rounding); hypotheses: a != 0 (optimal_points_scale, ols_auto_scale), AtLeastTwo op + >= 5 points + N-1 lags i.e. no "
    "missing frames (ensemble_identical_auto; necessary: kernel-checked witness with a missing frame), a symmetric inverse covariance matrix and a "
    "non-vanishing determinant kappa*mu - lam^2 (gls_normal_equations); the older oracle-side exploration of the same code stays: "
    "(oracle/metamorphic exploration: GLS iteration on longer tracks, determine_optimal_points (max_lag=None for ols and "
    "ensemble ols: the oracle takes the reported num_lags and checks the normal equations through the first num_lags MSD points; "
    "the single track and the ensemble of identical copies of it must report the same num_lags and line - asserted for tracks "
    "without missing frames, where the track length ensemble_ols derives (lags + 1, theorem ensemble_identical_curve) is the "
    "number of points; with missing frames the two differ on the unchanged library, which warns on both paths that the automatic "
    "number of lags is then unreliable: observation, corpus auto_lags_missing_frames_observation; not asserted either when a "
    "least-squares line through leading MSD points has an exactly zero slope/intercept, i.e. a sign the heuristic branches on is rounding noise), "
    "GLS under position scaling (absolute tolerance 1e-4 in the iteration), ensemble OLS / ensemble MSD of groups mixing kymographs "
    "(refused by the library), recovery of D on simulated Brownian tracks (statistical, 5-sigma band on the group the simulation "
    "returned; that the returned tracks carry the simulated line time is checked exactly, for sessions of several simulations)",
    "strengthening round H: KymoKind (blur R / no blur constant / disjoint) and the iteration budget + storage check of determine_optimal_points are "
    "model parameters (detOptIter, estimateOnKymo, ensembleCveMixed); theorems det_opt_iter_default/_float, estimate_on_kymo_disjoint, "
    "estimate_on_kymo_noblur_value (the value without a blur constant is the D of _cve for EVERY admissible blur constant); the weighted mean of a "
    "mixed group is tied and judged by the oracle, not proved; its localisation variance (nan by documentation) is not compared",
    "cve_scale needs a != 0; ols_normal_equations/ols_minimises need a non-degenerate design (K*sum(l^2) != (sum l)^2, i.e. >= 2 distinct lags)",
]
