"""C20 — physical models reproduce the published equations and their limits: correspondence + oracle
(see DESIGN.md 6/C20).

Three things happen for every case:
  * `impl`   calls the real pylake functions (public API / the anchored `detail` functions),
  * `ops`    asks the compiled Lean model (lean/Verif/Model/C20.lean, executed at Float) for the same numbers,
  * `oracle` re-evaluates the property on the implementation's numbers with an independent plain-Python transcription
             of the published equations (complex arithmetic through `cmath`, polynomials through exact `Fraction`s,
             Stimson–Jeffery through the classical equal-sphere series, equipartition by quadrature of the
             implementation's own spectrum) and checks the qualitative clauses (positivity, bounds, limits,
             monotonicity).
Observables the model does not reach (Stimson–Jeffery, 2-D coupling, hydrodynamic equipartition, brentq round trip)
travel through the protocol as `c20.outside <tag>` and are judged by the oracle only.

Two case kinds run SEQUENCES on the same objects / in the same process, because a result could be remembered or a
wrapper dropped between calls: `chain` derives a lineage of model objects (`model._motion_blur(T)._alias_model(fs, n)` …,
any order and length) and evaluates every object of the lineage after all of them exist; `waterseq` sends a list of
queries to the public `viscosity_of_water` / `density_of_water` in one process, built so that two of (temperature,
molarity, pressure) repeat while the third changes, scalar and array temperatures mixed, invalid queries in between.
`setdrag` evaluates one model object before and after `_set_drag(gamma)` (what `calibrate_force(..., drag=…)` does) and
then through further wrapper steps.  `stimson2` asks the Stimson-Jeffery factors of two beads of DIFFERENT radii, with
both labellings.  `fixeddiode` gives the model the filter `calibrate_force(..., fixed_diode=…, fixed_alpha=…)` installs
(`FixedDiodeModel`: either diode parameter, or both, fixed — at the ends of the allowed ranges as well, a relaxation
factor of 0 or 1 is a value like any other) and calls that ONE object several times with different free parameters,
itself and behind wrapper steps.  `couplevec` hands `coupling_correction_2d` ARRAYS of bead pairs (the documented
"array_like or float": the same geometry in every frame, sweeps of separations, mixed directions; numpy arrays, lists,
floats) and compares every entry with the pair evaluated on its own and with the decomposition into the two
one-dimensional factors at that pair's own distance (the model computes the decomposition, the Stimson-Jeffery factor
is handed to it).  `axis` hands the spectral functions (Lorentzian, diode filter, complex drag, hydrodynamic spectrum, the
model object bare and behind wrapper steps) a whole frequency AXIS in one call - 1-12 frequencies in a numpy array of a
stated dtype (float64, and the integer dtypes an integer-valued axis comes in: int64, int32 - numpy's default integer on
Windows before numpy 2 -, uint32, int16, uint16), arange-like / log-spaced / unsorted, biased towards the top of the range
(100 kHz) and towards the frequencies whose SQUARE leaves the axis' own dtype - and compares every entry with the published
equation at that frequency and with the model asked at that frequency: the value at 50 kHz does not depend on how the
number 50000 is stored.

Private names of the library (robustness against behaviour-preserving refactorings):
  * the anchored functions are looked up by NAME (`_Anchored`): in the `detail` module the anchor names while it exists,
    else in whichever loaded module of lumicks.pylake.force_calibration carries the function now - a moved / renamed /
    merged private module does not break the tie; a function that is gone under its name does (TieBroken);
  * private members of the model object are used only while they are reachable (`priv`), each with a PUBLIC route to the
    same observation behind it: `_motion_blur` / `_alias_model` -> the anchored wrapper functions around the public
    `__call__` (`derive`); `_set_drag` and the `_filter` slot -> the model object the public `calibrate_force(..., drag=… /
    fixed_diode=…, fixed_alpha=…)` hands back (`calibrated_model`); `_drag`, `_drag_correction_factor` -> kappa of the
    public `calibration_results` (`public_drag`); `salty_water._density_of_salt_solution` -> the public
    `density_of_water` at the corresponding molarity; the filter's own value -> the FixedDiodeModel object the harness made;
  * `_to_local_drag_coefficient` has no cheap public route (only active calibration reports it): observed while reachable,
    otherwise "?" - an unobserved value, which neither `agree` nor the oracle looks at (`unobserved`).
"""
import cmath
import math
from fractions import Fraction

import numpy as np

from common import enc_float, dec_float, errname, close, InfraError, REPO

PROP = "C20"
THEOREMS = [
    "Verif.C20.lorentzian_pos",
    "Verif.C20.lorentzian_equipartition",
    "Verif.C20.g_diode_bounds",
    "Verif.C20.fixed_diode_is_g_diode",
    "Verif.C20.fixed_diode_bounds",
    "Verif.C20.alias_is_sum_of_shifts",
    "Verif.C20.alias_pos",
    "Verif.C20.alias_ge_unaliased",
    "Verif.C20.motion_blur_le",
    "Verif.C20.motion_blur_nonneg",
    "Verif.C20.wrap_chain_keeps_earlier_steps",
    "Verif.C20.blur_then_alias_is_sum_of_blurred_shifts",
    "Verif.C20.alias_then_blur_is_blurred_sum_of_shifts",
    "Verif.C20.wrap_chain_nonneg",
    "Verif.C20.wrap_chain_step_order",
    "Verif.C20.set_drag_keeps_spectrum",
    "Verif.C20.hydro_bulk_pos",
    "Verif.C20.passive_lorentzian_pos",
    "Verif.C20.faxen_gt_one",
    "Verif.C20.faxen_antitone_in_distance",
    "Verif.C20.faxen_tends_to_one",
    "Verif.C20.brenner_gt_one",
    "Verif.C20.brenner_ge_faxen",
    "Verif.C20.brenner_antitone_in_distance",
    "Verif.C20.brenner_tends_to_one",
    "Verif.C20.goldman_in_unit_interval",
    "Verif.C20.goldman_tends_to_one",
    "Verif.C20.coupling_2d_decomposition",
    "Verif.C20.coupling_2d_in_unit_interval",
    "Verif.C20.coupling_2d_between_the_1d_factors",
    "Verif.C20.coupling_2d_vectorised_is_pairwise",
    "Verif.C20.viscosity_water_antitone",
    "Verif.C20.viscosity_water_pos",
    "Verif.C20.viscosity_units",
    "Verif.C20.hydro_low_frequency_limit",
    "Verif.C20.hydro_bulk_tends_to_lorentzian",
    "Verif.C20.salt_joins_water",
    "Verif.C20.bisect_brackets_sign_change",
    # deepening round D
    "Verif.C20.salt_zero_pressure_viscosity_increases_with_concentration",
    "Verif.C20.salt_viscosity_increases_with_concentration",
    "Verif.C20.salt_density_increases_with_concentration",
    "Verif.C20.salt_models_join_water_continuously",
    "Verif.C20.hydro_bulk_small_bead_limit",
    "Verif.C20.passive_init_wall_drag_exceeds_bulk",
    "Verif.C20.bispherical_coordinates_published",
    "Verif.C20.stimson_refuses_overlap",
    "Verif.C20.stimson_label_swap",
    "Verif.C20.stimson_sum_is_truncated_series",
    "Verif.C20.hydro_surface_low_frequency_limit",
    "Verif.C20.hydro_surface_tends_to_lorentzian",
    "Verif.C20.hydro_surface_pos",
    "Verif.C20.salt_zero_pressure_viscosity_decreases_with_temperature",
    "Verif.C20.molality_to_molarity_increases",
    "Verif.C20.molarity_to_molality_root_is_unique",
    "Verif.C20.hydro_surface_small_bead_limit",
    "Verif.C20.water_functions_increase_with_molarity",
    "Verif.C20.density_of_water_in_range",
    "Verif.C20.viscosity_of_water_positive",
    "Verif.C20.passive_init_hydro_spectrum_pos",
]
RULE = (
    "corpus (reference points, boundary inputs) + fixed dense log-spaced grids over the property's domain (f 0.1 Hz-100 kHz, "
    "radii 0.1-4 um, distances from the validity limit (R for Faxen/Brenner with a 1e-3 margin, 1.5R for the hydrodynamic "
    "model) to 1e3 R, T over each model's range, molality 0-5.9 mol/kg (molarity 0-5.25 M), 0.1-35 MPa, separations from contact "
    "to 100 diameters) + seeded log-uniform random points with boundary bias (exact range ends, f=0, R/h=1 for Faxen, l=1.5R, "
    "bead gap down to 1e-6 R; touching beads only as the F14 corpus inputs) + sequences: chains of 1-3 motion-blur / aliasing "
    "steps in every order on one model object (exposure = 1/sample rate and f at Nyquist as boundaries), every object of the "
    "lineage evaluated twice; lists of 3-10 public viscosity/density queries in one process drawn from small pools of "
    "temperatures, molarities (0-5 M) and pressures (None, 0.1, 0.101325, 35 MPa, random) so that two coordinates repeat while "
    "the third changes, in both orders, scalar and array temperatures, with invalid queries in between; one model object "
    "evaluated before and after _set_drag(k * 3 pi eta d), k = 1 or 0.2-5, then through 0-2 wrapper steps (every option "
    "combination, hydrodynamic models near a surface included); Stimson-Jeffery factors for unequal radii 0.1-4 um (ratio up to "
    "40) with both labellings, gap >= 2e-4 of the summed radii (random: mostly >= 2e-3) to 1e4 summed radii; the model with a fixed "
    "diode filter: f_diode fixed / alpha fixed / both, alpha fixed at 0, 1 (the inclusive ends), 1e-12..1, f_diode at 1 Hz..40 kHz, one "
    "object called 1-4 times with different free parameters (the first call repeated at the end), bare and behind 0-2 wrapper steps, "
    "Lorentzian / hydrodynamic / axial models; coupling_correction_2d for 1-8 bead pairs in one call (same geometry repeated, sorted "
    "sweep of separations, mixed directions and separations 2.005-1e4 radii, axis-aligned directions) as numpy arrays, lists or floats, "
    "every option combination; frequency AXES handed over in one call (Lorentzian, diode filter, complex drag, hydrodynamic spectrum bulk / near a surface, "
    "the model object of every kind bare and behind 0-2 wrapper steps): 1-12 frequencies in a numpy array of dtype float64 / int64 / int32 / uint32 / int16 / "
    "uint16 (integers 1 Hz .. min(100 kHz, the dtype's maximum)), evenly spaced (k df, often ending at the top of the range), log-spaced, unsorted, "
    "and around the frequency whose square leaves the axis' own dtype (181/182, 255/256, 46340/46341, 65535/65536 Hz) - its own random stream; "
    "bispherical coordinates (to_curvilinear_coordinates) for every ordered pair of sizes x separations from a relative gap of 1e-6 to 1e4 summed radii; the Stimson-Jeffery factors of every `couple` / `stimson2` case with a gap >= 1e-6 also from the model + a "
    "malformed stream (PassiveCalibrationModel arguments, temperatures/pressures/molalities outside the validity ranges, "
    "overlapping beads (alone and as one pair of an array), fixed relaxation factors outside [0, 1], fixed diode frequencies <= 0) whose only oracle is 'the documented error, never data'. Non-trivial: the case evaluates a formula "
    "inside its validity domain (not an error case) and, for wall/coupling corrections, at R/h or R/d >= 1e-3 (where the "
    "correction differs from 1 by more than rounding), for spectra at f > 0; a chain has at least one step, a query "
    "sequence at least two valid queries, a fixed-diode case at least one fixed parameter, an array of bead pairs at least two pairs."
)
TRUSTED = [
    "RealLike formulas are proved at R and executed at Float; rounding is not modelled, the comparison tolerance "
    "(rel 1e-9; complex drag: 1e-9 of the modulus) absorbs it",
    "C pow / numpy power for real exponents (RPow.rpow = Float.pow at Float, Real.rpow at R)",
    "np.sinc semantics (y = pi*where(x==0, 1e-20, x); sin(y)/y) are mirrored by the model and self-tested by the c20.sinc op",
    "scipy.optimize.brentq (molarity -> molality) is not transcribed: where the model is asked a public-API question (c20.water) it brackets the root of the same residual on [0, 6] by 100 bisections (theorem bisect_brackets_sign_change); elsewhere it takes the molality; that the root is unique on [0, 6] mol/kg and is the molality the molarity was made from is a theorem about the exact residual (molarity_to_molality_root_is_unique), brentq's own convergence to it is explored (round trip to 1e-9)",
    "Stimson-Jeffery series: the model writes sinh / cosh / arccosh through exp / log / sqrt (RealLike has no hyperbolic functions); near contact the series has thousands of cancelling summands, so c20.stimson is compared at rel 2e-8 instead of 1e-9; bispherical coordinates at rel 1e-9",
]
ASSUMPTIONS = [
    "np.sqrt of the complex number r+0i is the principal root: real for r >= 0, +i sqrt(-r) for r < 0 (negative frequencies are reached through aliasing only); the hydrodynamic theorems are stated for f >= 0",
    "Brenner factor: distances h >= R(1+1e-3) in generated cases (the denominator vanishes at h = R; cancellation amplifies rounding by 1/(1-R/h))",
    "bead-bead separations d >= 2R(1+1e-6) in generated cases (closer: open finding F14, corpus only)",
    "molality <= 5.9 mol/kg (5.25 M) in generated cases: at the model's edge m = 6 the brentq round trip lands a rounding error outside the validity check",
    "public water functions (waterseq): molarity <= 5 M for T <= 90 C and <= 4.7 M above (molality stays below ~5.8 mol/kg, away from the validity edge), viscosity_of_water(T, 0.0) without a pressure is not generated (0.0 is falsy: the code answers with the Huber formula)",
    "after _set_drag the oracle accepts the published spectrum with either bulk drag coefficient (the one the model was built with, which is what the code and the model keep, or the transferred one): the property does not say which; the distance to the surface, radius and densities must be the model's",
    "Stimson-Jeffery factors: computed by the model (c20.stimson: bispherical coordinates, Eq. 25-31, the summation loop with its stopping rule and the overflow guard) for every generated case with a relative gap >= 1e-6 between the beads; theorems: the coordinates are the published ones, exchanging the labels exchanges the factors exactly, the loop is the series truncated at the first summand small for both beads; bounds (0,1) and the far-field limit stay with the oracle (bounds, label-swap symmetry to 1e-8, agreement with the method-of-reflections expansion 1 - 3/2 b/d + 9/4 ab/d^2 to 5 (max(a,b)/d)^3 for max(a,b)/d <= 0.2, the equal-sphere series when the radii coincide)",
    "explored by the oracle only (no theorem): bounds (0,1) and far-field limit of the Stimson-Jeffery factors, equipartition of the hydrodynamic spectrum, temperature dependence of the salt viscosity at non-zero pressure (the zero-pressure part is a theorem)",
    "2-D coupling: the theorems are about the decomposition GIVEN the two one-dimensional factors (bounds and limit of the 2-D factor follow from those of the Goldman factor, a theorem, and of the Stimson-Jeffery factor, explored); the model is handed the implementation's own Stimson-Jeffery factor at each pair's distance; arrays of bead pairs keep separations >= 2.0045 radii (closer: the scalar `couple` cases; the series needs ~1/sqrt(gap) summands per pair and call), dx and dy have the same length (a float against an array is not documented to broadcast)",
    "fixed diode filter: installed the way calibrate_force does (model._filter = FixedDiodeModel(fixed_diode, fixed_alpha)) on models built with fast_sensor=False, BEFORE wrappers are derived; every call passes exactly the free parameters (f_diode first)",
    "frequency axes: numpy arrays (what the docstrings name) of float64 and of integer dtypes; float32 / float16 axes are not generated (the spectrum is then computed in that precision: the property does not state one), nor lists (`f**2` is not defined for them), nor integer sample rates / exposure times; motion-blur exposure times on an axis stay below 0.9 / (its highest frequency) (no entry on a zero of the sinc factor); the Lorentzian on an integer axis holding a frequency whose square leaves the axis' dtype is the open finding F-C20-1",
    "private members of the library are used while they are reachable under the names of the pinned tree; when one is not (renamed by a refactoring) the same observation is made through a public route (calibrate_force(...).model for the drag transfer and the fixed filter, on one fixed synthetic trace, a fit that fails or takes more than a second skips the case; kappa of calibration_results for the corrected drag; the wrapper functions around __call__ for the wrapper methods; density_of_water for the salt-solution density) or, for the local drag factor of the hydrodynamic model, not at all ('?': ignored by the comparison and the oracle)",
]

PI = math.pi
OUTSIDE = "outside-model"

# ------------------------------------------------------------------ implementation access


class TieLost(ImportError):
    """an anchored function cannot be reached under its name any more"""


_FC = "lumicks.pylake.force_calibration."
_RESOLVED = {}
MISSING = object()


class _Anchored:
    """The functions of one anchored module, looked up by NAME.  Where a function lives is private bookkeeping of the
    library (`detail` is a private path): it is taken from the module the anchor names while that module exists, and -
    when the module was moved, renamed, split or merged - from whichever loaded module of lumicks.pylake.force_calibration
    defines or imports a function of that name now (importing lumicks.pylake loads all of them).  A function that is gone
    under its NAME is a lost tie (`TieLost`, an ImportError: common.errname reports it as TieBroken) unless the caller
    knows a public route to the same observation and catches it at the point of access."""

    def __init__(self, module):
        self._module = _FC + module

    def __getattr__(self, name):
        key = (self._module, name)
        if key not in _RESOLVED:
            _RESOLVED[key] = self._find(name)
        if _RESOLVED[key] is None:
            raise TieLost(f"{name} (anchored in {self._module}) is not reachable under that name", name=name)
        return _RESOLVED[key]

    def _find(self, name):
        import importlib
        import sys

        try:
            fn = getattr(importlib.import_module(self._module), name, None)
        except ImportError:
            fn = None
        if fn is not None:
            return fn
        import lumicks.pylake  # noqa: F401  (loads every module of the package)

        found = {}
        for mname in sorted(sys.modules):
            mod = sys.modules[mname]
            if mod is not None and mname.startswith(_FC[:-1]) and ".tests" not in mname:
                obj = vars(mod).get(name)
                if callable(obj):
                    found[id(obj)] = obj
        return next(iter(found.values())) if len(found) == 1 else None


def _mods():
    import lumicks.pylake as lk

    return (_Anchored("detail.power_models"), _Anchored("detail.hydrodynamics"), _Anchored("detail.drag_models"),
            _Anchored("detail.salty_water"), _Anchored("calibration_models"), lk)


def priv(obj, name):
    """a PRIVATE attribute of a library object while it is reachable, else MISSING (renamed or inlined by a refactoring:
    bookkeeping the property does not speak about - the caller takes the public route to the same observation, or skips
    it with "?")"""
    try:
        return getattr(obj, name)
    except AttributeError:
        return MISSING


def derive(pm, cur, st):
    """one wrapper step on a model object: the model's own private method (what the library's camera calibration uses)
    while it is reachable; otherwise the anchored wrapper function of power_models around the object's public __call__ -
    the same published equation, composed in the same order"""
    meth = priv(cur, "_motion_blur" if st[0] == "B" else "_alias_model")
    if meth is not MISSING:
        return meth(st[1]) if st[0] == "B" else meth(st[1], st[2])
    return pm.motion_blur_spectrum(cur, st[1]) if st[0] == "B" else pm.alias_spectrum(cur, st[1], st[2])


def public_drag(model):
    """the corrected drag coefficient (bulk drag x wall correction) as the public calibration_results reports it:
    kappa [pN/nm] = 2 pi gamma fc 1e3, asked at fc = 1 Hz (a product and a quotient away from the private property)"""
    res = model.calibration_results(1.0, 1.0, [], 0.0, 0.0, [])
    return float(res["kappa"].value) / (2 * PI * 1e3)


def corrected_drag(model):
    v = priv(model, "_drag")
    return public_drag(model) if v is MISSING else v


def wall_correction(model):
    v = priv(model, "_drag_correction_factor")
    return public_drag(model) / model.drag_coeff if v is MISSING else v


def local_drag_factor(model):
    """zero-frequency drag of the hydrodynamic model relative to bulk: only the active calibration's results show it
    publicly; the same number is calculate_complex_drag(f=0, gamma0=1, ...), which the `drag` cases tie at f = 0"""
    v = priv(model, "_to_local_drag_coefficient")
    return None if v is MISSING else scalar(v)


def model_state(model, f, args):
    """spectrum, bulk drag, wall correction, local drag factor (None when unreachable), viscosity of one model object"""
    return efl([scalar(model(f, *args)), model.drag_coeff, wall_correction(model), local_drag_factor(model), scalar(model.viscosity)])


def nacl(convert, x, t, p):
    """molality <-> molarity of NaCl through the anchored conversion functions of salty_water: the molecular weight is the
    fourth parameter, which the library itself passes by keyword - a private keyword that may be renamed (then: by position)"""
    try:
        return convert(x, t, p, molecular_weight=58.4428)
    except TypeError as e:
        if "molecular_weight" not in str(e):
            raise
        return convert(x, t, p, 58.4428)


def salt_density(sw, lk, t, m, p):
    """density of the salt solution at a MOLALITY: the private function of salty_water while it is reachable; otherwise the
    PUBLIC density_of_water at the molarity the anchored molality_to_molarity gives for it (brentq brings the molality
    back to ~1e-12; at the model's edge m = 6 that can land outside the validity range: then the observation is skipped)"""
    try:
        fn = sw._density_of_salt_solution
    except TieLost:
        try:
            return ef(scalar(lk.density_of_water(t, nacl(sw.molality_to_molarity, m, t, p), p)))
        except ValueError:
            return "?"
    return ef(scalar(fn(t, m, p)))


_VOLTS = []


def calibrated_model(lk, cfg, **kw):
    """The model object the PUBLIC calibrate_force builds, configures (drag=…, fixed_diode=…, fixed_alpha=…) and fits:
    `CalibrationResults.model`.  Only used when the private slot / setter calibrate_force itself uses is not reachable
    under its name.  The data are one fixed synthetic trace (an Ornstein-Uhlenbeck process, corner frequency 2 kHz at
    78.125 kHz): WHAT is fitted does not matter, only that calibrate_force runs; a fit that fails on this trace says
    nothing about the property (None: the case is skipped)."""
    if not _VOLTS:
        from common import Rng

        r, a, x, xs = Rng(20), math.exp(-2 * PI * 2000.0 / 78125.0), 0.0, []
        for _ in range(8192):
            x = a * x + math.sqrt(1 - a * a) * r.normal()
            xs.append(x)
        _VOLTS.append(np.array(xs))
    import signal

    def too_slow(*_):
        raise TimeoutError("calibrate_force on the synthetic trace")

    pars = {k_: v for k_, v in cfg.items() if k_ != "bead_diameter" and k_ != "temperature"}
    try:
        if len(_VOLTS) == 1:
            _VOLTS.append(lk.calibrate_force(_VOLTS[0], 1.0, 20.0, sample_rate=78125.0, num_points_per_block=100))  # (loads scipy.optimize)
        # a fit that wanders (a diode frequency fixed far below the fitted range, say) is abandoned after a second
        before = signal.signal(signal.SIGALRM, too_slow)
        signal.setitimer(signal.ITIMER_REAL, 1.0)
        try:
            return lk.calibrate_force(_VOLTS[0], cfg["bead_diameter"], cfg["temperature"], sample_rate=78125.0, num_points_per_block=100,
                                      **pars, **kw).model
        finally:
            signal.setitimer(signal.ITIMER_REAL, 0.0)
            signal.signal(signal.SIGALRM, before)
    except Exception:
        return None


def ef(x):
    """canonical answer for one double"""
    x = float(x)
    return "nan" if math.isnan(x) else enc_float(x)


def efl(xs):
    """a list of doubles; None stands for an observation that could not be made (unreachable private bookkeeping): "?" """
    return "[" + ",".join("?" if x is None else ef(x) for x in xs) + "]"


def eo(x):
    return "N" if x is None else enc_float(x)


def eb(b):
    return "T" if b else "F"


def scalar(a):
    a = np.asarray(a)
    if a.size != 1:
        raise ValueError(f"expected one value, got shape {a.shape}")
    return float(a.reshape(-1)[0])


CFG_KEYS = ["bead_diameter", "viscosity", "temperature", "hydrodynamically_correct", "distance_to_surface", "rho_sample", "rho_bead", "fast_sensor", "axial"]


def cfg_tokens(c):
    return " ".join([
        enc_float(c["bead_diameter"]), eo(c["viscosity"]), enc_float(c["temperature"]), eb(c["hydrodynamically_correct"]),
        eo(c["distance_to_surface"]), eo(c["rho_sample"]), enc_float(c["rho_bead"]), eb(c["fast_sensor"]), eb(c["axial"]),
    ])


def call_args(c):
    return [c["f"], c["fc"], c["D"]] + ([] if c["cfg"]["fast_sensor"] else [c["fd"], c["alpha"]])


_FRESH = None
_FRESH_CACHE = {}
_FRESH_PENDING = []


def _fresh_server():
    """the pristine-process server of harness/c20_fresh.py (started once, stopped with the check)"""
    global _FRESH
    if _FRESH is not None and _FRESH.poll() is not None and _FRESH_PENDING:
        raise InfraError("C20: the fresh-process server died while working through the sequences of this run")
    if _FRESH is None or _FRESH.poll() is not None:
        import atexit
        import os
        import subprocess
        import sys

        helper = os.path.join(os.path.dirname(os.path.abspath(__file__)), "c20_fresh.py")
        _FRESH = subprocess.Popen([sys.executable, helper, REPO], stdin=subprocess.PIPE, stdout=subprocess.PIPE, text=True)
        atexit.register(_stop_fresh_server)
    return _FRESH


def _stop_fresh_server():
    global _FRESH
    if _FRESH is not None:
        try:
            _FRESH.stdin.close()
            _FRESH.wait(timeout=10)
        except Exception:
            _FRESH.kill()
        _FRESH = None


def _fresh_request(doc, wait=True):
    import json

    srv = _fresh_server()
    try:
        if doc is not None:
            srv.stdin.write(json.dumps(doc) + "\n")
            srv.stdin.flush()
        line = srv.stdout.readline() if wait else "null"
    except OSError as e:
        raise InfraError(f"C20: the fresh-process server died: {e}")
    if not line:
        raise InfraError("C20: the fresh-process server died (could pylake be imported from VERIF_REPO?)")
    return json.loads(line)


def fresh_process_prefetch(sequences):
    """hand all sequences of the run to the server at once; it works through them (each in its own process) while the
    other cases are evaluated here"""
    import json

    if sequences and not _FRESH_PENDING:
        _FRESH_PENDING.extend(json.dumps(q, sort_keys=True) for q in sequences)
        _fresh_request({"batch": sequences}, wait=False)


def fresh_process_answers(queries):
    """the answers of a process that imported pylake, has answered nothing yet, and is sent `queries` in order"""
    import json

    key = json.dumps(queries, sort_keys=True)
    if key not in _FRESH_CACHE and _FRESH_PENDING:
        for k_, a in zip(_FRESH_PENDING, _fresh_request(None)):
            _FRESH_CACHE[k_] = a
        del _FRESH_PENDING[:]
    ans = _FRESH_CACHE[key] if key in _FRESH_CACHE else _fresh_request(queries)
    if isinstance(ans, dict):
        raise InfraError(f"C20: the fresh-process child crashed: {ans.get('crash')}")
    return list(ans)


def impl(case):
    k = case["op"]
    c = case
    if k == "waterseq":
        # one process per sequence: the sequence is all the library has ever been asked, so a failure replays
        return fresh_process_answers(c["queries"])
    pm, hy, dm, sw, cm, lk = _mods()
    if k == "axis":
        axis = axis_array(c)
    try:
        if k == "axis":
            # ONE call with the whole frequency axis (an array of the stated dtype); one answer per entry
            n, fn = len(c["axis"]), c["fn"]
            if fn == "lor":
                cols = [pm.passive_power_spectrum_model(axis, c["fc"], c["D"])]
            elif fn == "diode":
                cols = [pm.g_diode(axis, c["fd"], c["alpha"])]
            elif fn == "drag":
                cols = list(hy.calculate_complex_drag(axis, c["gamma0"], c["rho"], c["R"], c["l"]))
            elif fn == "hydro":
                cols = [hy.passive_power_spectrum_model_hydro(axis, c["fc"], c["D"], c["gamma0"], c["R"], c["rho_s"], c["rho_b"], c["l"])]
            elif fn == "model":
                model = lk.PassiveCalibrationModel(**c["cfg"])
                args = [c["fc"], c["D"]] + ([] if c["cfg"]["fast_sensor"] else [c["fd"], c["alpha"]])
                lineage = [model]
                for st in c["steps"]:
                    lineage.append(derive(pm, lineage[-1], st))
                cols = [m(axis, *args) for m in lineage]
            else:
                raise ValueError(fn)
            cols = [np.asarray(col, dtype=float) for col in cols]
            if any(col.shape != (n,) for col in cols):
                return [f"shape-mismatch:{[col.shape for col in cols]}"] * n
            if fn in ("lor", "diode", "hydro"):
                return [ef(cols[0][i]) for i in range(n)]
            return [efl([col[i] for col in cols]) for i in range(n)]
        if k == "lor":
            return [ef(scalar(pm.passive_power_spectrum_model(np.array([c["f"]]), c["fc"], c["D"])))]
        if k == "diode":
            return [ef(scalar(pm.g_diode(np.array([c["f"]]), c["fd"], c["alpha"])))]
        if k == "sinc":
            return [ef(scalar(np.sinc(c["x"])))]
        if k == "blur":
            b = pm.motion_blur_spectrum(pm.passive_power_spectrum_model, c["T"])
            pk = pm.motion_blur_peak(lambda fc: c["peak"], c["f"], c["T"])
            return [ef(scalar(b(np.array([c["f"]]), c["fc"], c["D"]))), ef(scalar(pk(c["fc"])))]
        if k == "alias":
            def psd(f, fc, D, fd, a):
                return pm.passive_power_spectrum_model(f, fc, D) * pm.g_diode(f, fd, a)

            al = pm.alias_spectrum(psd, c["fs"], c["n"])
            return [ef(scalar(al(np.array([c["f"]]), c["fc"], c["D"], c["fd"], c["alpha"])))]
        if k == "drivenlor":
            return [ef(pm.theoretical_driving_power_lorentzian(c["fc"], c["fd"], c["A"]))]
        if k == "drag":
            re, im = hy.calculate_complex_drag(np.array([c["f"]]), c["gamma0"], c["rho"], c["R"], c["l"])
            return [efl([scalar(re), scalar(im)])]
        if k == "hydro":
            args = (c["gamma0"], c["R"], c["rho_s"], c["rho_b"], c["l"])
            return [
                ef(scalar(hy.passive_power_spectrum_model_hydro(np.array([c["f"]]), c["fc"], c["D"], *args))),
                ef(scalar(hy.theoretical_driving_power_hydrodynamics(c["fc"], c["f"], c["A"], *args))),
            ]
        if k == "hydrolimit":
            # low-frequency and small-bead limits: the same spectrum at a tiny frequency / for a tiny bead
            args = (c["gamma0"], c["R"], c["rho_s"], c["rho_b"], c["l"])
            tiny = (c["gamma0"] * c["R0"] / c["R"], c["R0"], c["rho_s"], c["rho_b"], c["l"])
            return [
                ef(scalar(hy.passive_power_spectrum_model_hydro(np.array([c["f0"]]), c["fc"], c["D"], *args))),
                ef(scalar(hy.passive_power_spectrum_model_hydro(np.array([c["f"]]), c["fc"], c["D"], *tiny))),
            ]
        if k == "equip":
            args = (c["gamma0"], c["R"], c["rho_s"], c["rho_b"], c["l"])
            return [ef(_integrate(lambda f: hy.passive_power_spectrum_model_hydro(f, c["fc"], c["D"], *args), c["fc"]))]
        if k == "wall":
            if c.get("no_brenner"):
                return [ef(dm.faxen_factor(c["h"], c["R"])), ef(dm.faxen_factor(c["h2"], c["R"]))]
            return [ef(dm.faxen_factor(c["h"], c["R"])), ef(dm.brenner_axial(c["h"], c["R"])),
                    ef(dm.faxen_factor(c["h2"], c["R"])), ef(dm.brenner_axial(c["h2"], c["R"]))]
        if k == "contact":
            import warnings

            with warnings.catch_warnings():
                warnings.simplefilter("ignore")
                return [ef(dm.coupling_correction_factor_stimson(c["R"], c["R"], c["d"])[0])]
        if k == "couple":
            R, d = c["R"], c["d"]
            st = dm.coupling_correction_factor_stimson(R, R, d)
            th = c["theta"]
            dx, dy = d * math.cos(th), d * math.sin(th)
            return [
                ef(dm.coupling_correction_factor_goldmann(R, d, True)),
                ef(dm.coupling_correction_factor_goldmann(R, d, False)),
                ef(dm.coupling_correction_factor_goldmann(R, c["d2"], True)),
                ef(dm.coupling_correction_factor_goldmann(R, c["d2"], False)),
                ef(st[0]), ef(st[1]),
                ef(scalar(lk.coupling_correction_2d(dx, dy, 2 * R, c["is_y"], c["rot"]))),
                ef(dx), ef(dy),
            ]
        if k == "visc":
            return [ef(scalar(lk.viscosity_of_water(c["T"]))), ef(scalar(lk.viscosity_of_water(np.array([c["T2"]]))))]
        if k == "salt":
            t, m, p = c["T"], c["m"], c["p"]
            mol = nacl(sw.molality_to_molarity, m, t, p)
            out = [ef(mol)]
            out.append(ef(scalar(lk.viscosity_of_water(t, mol, p))))
            out.append(ef(scalar(lk.density_of_water(t, mol, p))))
            out.append(ef(scalar(sw.zero_pressure_viscosity(t, m))))
            out.append(ef(scalar(sw.pressure_factor(t, m))))
            # neighbours for monotonicity (molality m2 > m, temperature T2 > T) through the detail functions
            m2, t2 = c["m2"], c["T2"]
            out.append(ef(1e-6 * scalar(sw.zero_pressure_viscosity(t, m2)) * (1.0 + scalar(sw.pressure_factor(t, m2)) * p / 1000)))
            out.append(salt_density(sw, lk, t, m2, p))
            out.append(ef(1e-6 * scalar(sw.zero_pressure_viscosity(t2, m)) * (1.0 + scalar(sw.pressure_factor(t2, m)) * p / 1000)))
            # m = 0 through the public API (pressure given, molarity 0): joins the water values
            out.append(ef(scalar(lk.viscosity_of_water(t, 0.0, p))))
            out.append(ef(scalar(lk.density_of_water(t, 0.0, p))))
            # brentq round trip
            out.append(ef(nacl(sw.molarity_to_molality, mol, t, p)))
            return out
        if k == "saltbad":
            t, m, p = c["T"], c["m"], c["p"]
            which = c["which"]
            if which == "dens":
                try:
                    fn = sw._density_of_salt_solution
                except TieLost:
                    # the validity check behind the public functions is what the 'dens_api' and 'visc' cases ask
                    return ["?"]
                return [ef(scalar(fn(t, m, p)))]
            if which == "visc":
                return [ef(scalar(lk.viscosity_of_water(t, m, p)))]  # m is a molarity here
            if which == "dens_api":
                return [ef(scalar(lk.density_of_water(t, m, p)))]
            raise ValueError(which)
        if k == "stimsonbad":
            return [ef(dm.coupling_correction_factor_stimson(c["R1"], c["R2"], c["d"])[0])]
        if k == "bispherical":
            return [efl([float(v) for v in dm.to_curvilinear_coordinates(c["R1"], c["R2"], c["d"])])]
        if k == "stimson2":
            a = dm.coupling_correction_factor_stimson(c["R1"], c["R2"], c["d"])
            b = dm.coupling_correction_factor_stimson(c["R2"], c["R1"], c["d"])
            return [ef(a[0]), ef(a[1]), ef(b[0]), ef(b[1])]
        if k == "setdrag":
            model = lk.PassiveCalibrationModel(**c["cfg"])
            f = np.array([c["f"]])
            args = call_args(c)[1:]
            out = [scalar(model(f, *args))]
            set_drag = priv(model, "_set_drag")
            if set_drag is not MISSING:
                set_drag(c["gamma"])  # the same object, now carrying a drag coefficient from elsewhere
            else:
                # the private setter is not reachable: the PUBLIC route to the same transfer - calibrate_force(..., drag=gamma)
                # hands back the model object it configured and fitted
                model = calibrated_model(lk, c["cfg"], drag=c["gamma"])
                if model is None:
                    return ["?"]
            out.append(scalar(model(f, *args)))
            cur = model
            for st in c["steps"]:
                cur = derive(pm, cur, st)
                out.append(scalar(cur(f, *args)))
            last = cur if priv(cur, "drag_coeff") is not MISSING else model  # (a wrapper composed by `derive` carries no attributes)
            return [efl(out + [last.drag_coeff, corrected_drag(last)])]
        if k == "fixeddiode":
            model = lk.PassiveCalibrationModel(**c["cfg"])
            flt = cm.FixedDiodeModel(c["fix"][0], c["fix"][1])
            installed = priv(model, "_filter") is not MISSING
            if installed:
                # what calibrate_force(..., fixed_diode=…, fixed_alpha=…) does to the model it is about to fit
                try:
                    model._filter = flt
                except AttributeError:  # (kept as a read-only alias of the real slot)
                    installed = False
            if not installed:
                # the model keeps its filter in a slot this harness does not know any more (assigning `_filter` would only
                # create a stray attribute): the PUBLIC route - calibrate_force itself installs the fixed filter and hands
                # back the model it fitted (an object that has been called hundreds of times already)
                model = calibrated_model(lk, c["cfg"], fixed_diode=c["fix"][0], fixed_alpha=c["fix"][1])
                if model is None:
                    return ["?"]
            cur = model
            for st in c["steps"]:
                cur = derive(pm, cur, st)
            f = np.array([c["f"]])
            out = []
            for pair in c["calls"]:  # the SAME objects, one call after the other (a fit calls the model hundreds of times)
                free = [v for v, fixed in zip(pair, c["fix"]) if fixed is None]
                out.append(scalar(flt(f, *free)))  # (the filter object itself: the one installed in the model on the direct route)
                out.append(scalar(model(f, c["fc"], c["D"], *free)))
                out.append(scalar(cur(f, c["fc"], c["D"], *free)))
            return [efl(out)]
        if k == "couplevec":
            case.pop("_st", None)
            R, pairs = c["R"], c["pairs"]
            dx, dy = [p[0] for p in pairs], [p[1] for p in pairs]
            if c["form"] == "scalar":
                args = (dx[0], dy[0])
            elif c["form"] == "list":
                args = (dx, dy)
            else:
                args = (np.array(dx), np.array(dy))
            vec = np.asarray(lk.coupling_correction_2d(*args, 2 * R, c["is_y"], c["rot"]), dtype=float)
            if vec.size != len(pairs) or vec.ndim > 1:
                return [f"shape-mismatch:{vec.shape}"] * _nops(case)
            vec = vec.reshape(-1)
            # the same pairs one at a time, and the two one-dimensional factors at each pair's own distance
            # (a geometry that occurs several times in the arrays is asked once here: the Stimson-Jeffery series is slow)
            memo1, memo2 = {}, {}
            single, st = [], []
            for x, y in pairs:
                if (x, y) not in memo1:
                    memo1[(x, y)] = scalar(lk.coupling_correction_2d(x, y, 2 * R, c["is_y"], c["rot"]))
                single.append(memo1[(x, y)])
                d = math.sqrt(x * x + y * y)
                if d not in memo2:
                    memo2[d] = float(dm.coupling_correction_factor_stimson(R, R, d)[0])
                st.append(memo2[d])
            dist = [math.sqrt(x * x + y * y) for x, y in pairs]
            go = [float(dm.coupling_correction_factor_goldmann(R, d, c["rot"])) for d in dist]
            case["_st"] = st  # the model takes the Stimson-Jeffery factor (outside the model) as given
            return [efl(vec), efl(single), efl(st)] + [ef(g) for g in go]
        if k == "chain":
            model = lk.PassiveCalibrationModel(**c["cfg"])
            f = np.array([c["f"]])
            args = call_args(c)[1:]
            lineage, first = [model], [scalar(model(f, *args))]
            for st in c["steps"]:
                cur = lineage[-1]
                lineage.append(derive(pm, cur, st))
                first.append(scalar(lineage[-1](f, *args)))
            # … and again once the whole lineage exists, youngest first: deriving a model leaves its parent as it was
            again = [scalar(m(f, *args)) for m in reversed(lineage)][::-1]
            return [efl(first), efl(again), model_state(model, f, args)]
        if k in ("passive", "passiveblur", "passivealias"):
            model = lk.PassiveCalibrationModel(**c["cfg"])
            f = np.array([c["f"]])
            args = call_args(c)[1:]
            if k == "passive":
                return [model_state(model, f, args)]
            if k == "passiveblur":
                return [ef(scalar(derive(pm, model, ["B", c["T"]])(f, *args)))]
            return [ef(scalar(derive(pm, model, ["A", c["fs"], c["n"]])(f, *args)))]
    except Exception as e:
        n = _nops(case)
        return [errname(e)] * n
    raise ValueError(k)


def _nops(case):
    return len(ops(case))


AXIS_DTYPES = ("float64", "int64", "int32", "uint32", "int16", "uint16")


def axis_array(c):
    """the frequency axis of an `axis` case: a numpy array of the stated dtype holding exactly the listed frequencies"""
    if c["dtype"] not in AXIS_DTYPES:
        raise InfraError(f"C20: unknown axis dtype {c['dtype']!r}")
    vals = [float(x) for x in c["axis"]]
    a = np.array(vals, dtype=float).astype(getattr(np, c["dtype"]))
    if [float(x) for x in a] != vals:
        raise InfraError(f"C20: axis {vals!r} is not representable as {c['dtype']}")
    return a


def axis_int_bits(dtype):
    """(bits available for a non-negative value, or None for a float axis)"""
    return {"int64": 63, "int32": 31, "uint32": 32, "int16": 15, "uint16": 16}.get(dtype)


def _water_query(lk, q):
    """one call of the public viscosity_of_water / density_of_water, the way a user writes it (each query has its
    own try: an invalid query must not end the sequence, nor poison what follows)"""
    try:
        T = q["T"][0] if q["scalar"] else np.array(q["T"], dtype=float)
        c, p = q["c"], q["p"]
        if q["fn"] == "V":
            r = lk.viscosity_of_water(T) if (c is None and p is None) else (
                lk.viscosity_of_water(T, c) if p is None else lk.viscosity_of_water(T, c, p))
        else:
            r = lk.density_of_water(T, c) if p is None else lk.density_of_water(T, c, p)
        r = np.atleast_1d(np.asarray(r, dtype=float)).reshape(-1)
        if r.size != len(q["T"]):
            return f"shape-mismatch:{r.size}"
        return efl(r)
    except Exception as e:
        return errname(e)


def step_tokens(steps):
    return " ".join(f"B {enc_float(st[1])}" if st[0] == "B" else f"A {enc_float(st[1])} {int(st[2])}" for st in steps)


STIMSON_MODEL_GAP = 1e-6  # relative gap between the beads from which the model is asked (closer: F14 corpus inputs, oracle only)
STIMSON_REL = 2e-8        # model vs implementation for the Stimson-Jeffery series (thousands of cancelling summands near contact)


def _stimson_ops(r1, r2, d):
    """both factors of `coupling_correction_factor_stimson(r1, r2, d)` from the Lean model (`stimson`: bispherical
    coordinates, Eq. 25-31, the summation loop with its stopping rule) - from contact + 1e-6 outwards"""
    E = enc_float
    if d >= (r1 + r2) * (1 + STIMSON_MODEL_GAP):
        return [f"c20.stimson {E(r1)} {E(r2)} {E(d)} 1", f"c20.stimson {E(r1)} {E(r2)} {E(d)} 2"]
    return ["c20.outside stimson", "c20.outside stimson"]


def ops(case):
    c = case
    k = c["op"]
    E = enc_float
    if k == "lor":
        return [f"c20.lor {E(c['f'])} {E(c['fc'])} {E(c['D'])}"]
    if k == "diode":
        return [f"c20.diode {E(c['f'])} {E(c['fd'])} {E(c['alpha'])}"]
    if k == "sinc":
        return [f"c20.sinc {E(c['x'])}"]
    if k == "blur":
        return [f"c20.blur {E(c['f'])} {E(c['T'])} {E(c['fc'])} {E(c['D'])}", f"c20.blurpeak {E(c['peak'])} {E(c['f'])} {E(c['T'])}"]
    if k == "alias":
        return [f"c20.alias {E(c['f'])} {E(c['fs'])} {c['n']} {E(c['fc'])} {E(c['D'])} {E(c['fd'])} {E(c['alpha'])}"]
    if k == "drivenlor":
        return [f"c20.drivenlor {E(c['fc'])} {E(c['fd'])} {E(c['A'])}"]
    if k == "drag":
        return [f"c20.drag {E(c['f'])} {E(c['gamma0'])} {E(c['rho'])} {E(c['R'])} {eo(c['l'])}"]
    if k == "hydro":
        tail = f"{E(c['gamma0'])} {E(c['R'])} {E(c['rho_s'])} {E(c['rho_b'])} {eo(c['l'])}"
        return [f"c20.hydro {E(c['f'])} {E(c['fc'])} {E(c['D'])} {tail}", f"c20.drivenhydro {E(c['fc'])} {E(c['f'])} {E(c['A'])} {tail}"]
    if k == "hydrolimit":
        tail = f"{E(c['gamma0'])} {E(c['R'])} {E(c['rho_s'])} {E(c['rho_b'])} {eo(c['l'])}"
        tiny = f"{E(c['gamma0'] * c['R0'] / c['R'])} {E(c['R0'])} {E(c['rho_s'])} {E(c['rho_b'])} {eo(c['l'])}"
        return [f"c20.hydro {E(c['f0'])} {E(c['fc'])} {E(c['D'])} {tail}", f"c20.hydro {E(c['f'])} {E(c['fc'])} {E(c['D'])} {tiny}"]
    if k == "equip":
        return ["c20.outside equipartition"]
    if k == "contact":
        return ["c20.outside stimson"]
    if k == "wall" and c.get("no_brenner"):
        return [f"c20.faxen {E(c['h'])} {E(c['R'])}", f"c20.faxen {E(c['h2'])} {E(c['R'])}"]
    if k == "wall":
        return [f"c20.faxen {E(c['h'])} {E(c['R'])}", f"c20.brenner {E(c['h'])} {E(c['R'])}",
                f"c20.faxen {E(c['h2'])} {E(c['R'])}", f"c20.brenner {E(c['h2'])} {E(c['R'])}"]
    if k == "couple":
        return [f"c20.goldman {E(c['R'])} {E(c['d'])} T", f"c20.goldman {E(c['R'])} {E(c['d'])} F",
                f"c20.goldman {E(c['R'])} {E(c['d2'])} T", f"c20.goldman {E(c['R'])} {E(c['d2'])} F",
                *_stimson_ops(c["R"], c["R"], c["d"]), "c20.outside couple2d", "c20.outside geometry", "c20.outside geometry"]
    if k == "visc":
        return [f"c20.visc {E(c['T'])}", f"c20.visc {E(c['T2'])}"]
    if k == "salt":
        t, m, p = E(c["T"]), E(c["m"]), E(c["p"])
        z = E(0.0)
        return [f"c20.molarity {t} {m} {p}", f"c20.saltvisc {t} {m} {p}", f"c20.saltdens {t} {m} {p}", f"c20.zpv {t} {m}", f"c20.pf {t} {m}",
                f"c20.saltvisc {t} {E(c['m2'])} {p}", f"c20.saltdens {t} {E(c['m2'])} {p}", f"c20.saltvisc {E(c['T2'])} {m} {p}",
                f"c20.saltvisc {t} {z} {p}", f"c20.saltdens {t} {z} {p}", "c20.outside brentq"]
    if k == "saltbad":
        t, m, p = E(c["T"]), E(c["m"]), E(c["p"])
        return [f"c20.saltdens {t} {m} {p}" if c["which"] == "dens" else "c20.outside saltapi"]
    if k == "stimsonbad":
        return [f"c20.stimson {E(c['R1'])} {E(c['R2'])} {E(c['d'])} 1"]
    if k == "bispherical":
        return [f"c20.bispherical {E(c['R1'])} {E(c['R2'])} {E(c['d'])}"]
    if k == "waterseq":
        return [f"c20.water {q['fn']} [{','.join(E(t) for t in q['T'])}] {eo(q['c'])} {eo(q['p'])}" for q in c["queries"]]
    if k == "stimson2":
        return _stimson_ops(c["R1"], c["R2"], c["d"]) + _stimson_ops(c["R2"], c["R1"], c["d"])
    if k == "setdrag":
        a = c
        tail = f"{cfg_tokens(c['cfg'])} {E(a['f'])} {E(a['fc'])} {E(a['D'])} {E(a['fd'])} {E(a['alpha'])} {E(a['gamma'])}"
        return [f"c20.passivesetdrag {tail} {step_tokens(c['steps'])}".rstrip()]
    if k == "fixeddiode":
        fds = ",".join(E(p[0]) for p in c["calls"])
        als = ",".join(E(p[1]) for p in c["calls"])
        return [f"c20.passivefixed {cfg_tokens(c['cfg'])} {eo(c['fix'][0])} {eo(c['fix'][1])} {E(c['f'])} {E(c['fc'])} {E(c['D'])} "
                f"[{fds}] [{als}] {step_tokens(c['steps'])}".rstrip()]
    if k == "couplevec":
        pairs = c["pairs"]
        st = c.get("_st")
        if st is not None and len(st) == len(pairs) and not any(math.isnan(x) or math.isinf(x) for x in st):
            line = (f"c20.couple2d {eb(c['is_y'])} {eb(c['rot'])} {E(c['R'])} [{','.join(E(p[0]) for p in pairs)}] "
                    f"[{','.join(E(p[1]) for p in pairs)}] [{','.join(E(x) for x in st)}]")
        else:
            line = "c20.outside couple2d"
        if c.get("expect") is not None:  # overlapping beads: the model's perpendicular factor knows no validity limit
            return ["c20.outside couple2d"] * (3 + len(pairs))
        dists = [math.sqrt(p[0] * p[0] + p[1] * p[1]) for p in pairs]
        stl = (f"c20.stimsonlist {E(c['R'])} [{','.join(E(d) for d in dists)}]"
               if all(d >= 2 * c["R"] * (1 + STIMSON_MODEL_GAP) for d in dists) else "c20.outside stimson")
        return [line, line, stl] + [f"c20.goldman {E(c['R'])} {E(math.sqrt(p[0] * p[0] + p[1] * p[1]))} {eb(c['rot'])}" for p in pairs]
    if k == "axis":
        # the model is asked one frequency at a time (a real number: it has no dtype)
        fn = c["fn"]
        if fn == "lor":
            return [f"c20.lor {E(f)} {E(c['fc'])} {E(c['D'])}" for f in c["axis"]]
        if fn == "diode":
            return [f"c20.diode {E(f)} {E(c['fd'])} {E(c['alpha'])}" for f in c["axis"]]
        if fn == "drag":
            return [f"c20.drag {E(f)} {E(c['gamma0'])} {E(c['rho'])} {E(c['R'])} {eo(c['l'])}" for f in c["axis"]]
        if fn == "hydro":
            tail = f"{E(c['gamma0'])} {E(c['R'])} {E(c['rho_s'])} {E(c['rho_b'])} {eo(c['l'])}"
            return [f"c20.hydro {E(f)} {E(c['fc'])} {E(c['D'])} {tail}" for f in c["axis"]]
        if fn == "model":
            return [f"c20.passivechain {cfg_tokens(c['cfg'])} {E(f)} {E(c['fc'])} {E(c['D'])} {E(c['fd'])} {E(c['alpha'])} {step_tokens(c['steps'])}".rstrip()
                    for f in c["axis"]]
        raise ValueError(fn)
    if k == "chain":
        a = c
        tail = f"{cfg_tokens(c['cfg'])} {E(a['f'])} {E(a['fc'])} {E(a['D'])} {E(a['fd'])} {E(a['alpha'])}"
        line = f"c20.passivechain {tail} {step_tokens(c['steps'])}".rstrip()
        return [line, line, f"c20.passive {tail}"]
    if k == "passive":
        a = c
        return [f"c20.passive {cfg_tokens(c['cfg'])} {E(a['f'])} {E(a['fc'])} {E(a['D'])} {E(a['fd'])} {E(a['alpha'])}"]
    if k == "passiveblur":
        a = c
        return [f"c20.passiveblur {cfg_tokens(c['cfg'])} {E(a['T'])} {E(a['f'])} {E(a['fc'])} {E(a['D'])} {E(a['fd'])} {E(a['alpha'])}"]
    if k == "passivealias":
        a = c
        return [f"c20.passivealias {cfg_tokens(c['cfg'])} {E(a['fs'])} {a['n']} {E(a['f'])} {E(a['fc'])} {E(a['D'])} {E(a['fd'])} {E(a['alpha'])}"]
    raise ValueError(k)


def dec(s):
    """answer string -> float | list of floats | error token"""
    if s.startswith("["):
        inner = s[1:-1]
        return [None if x == "?" else dec_float(x) for x in inner.split(",")] if inner else []
    if s == "nan" or s.startswith("b"):
        return dec_float(s)
    return s


def unobserved(v):
    """an observation the harness could not make ("?" as a whole answer, None inside a list): it says nothing about the
    code, so neither the comparison with the model nor the oracle looks at it"""
    return v is None or v == "?"


REL = 1e-9
ULPS = 1e-15  # a few last bits: the bounds of the theorems are about reals; a rearranged formula may round to the other side of an attained bound


def agree(case, i, ia, ma):
    if ma == OUTSIDE or ia == "?":
        return True
    a, m = dec(ia), dec(ma)
    if isinstance(a, str) or isinstance(m, str):
        return a == m
    if case["op"] in ("couple", "stimson2") and isinstance(a, float) and ops(case)[i].startswith("c20.stimson"):
        return close(a, m, STIMSON_REL, 1e-300)
    if isinstance(a, list) != isinstance(m, list):
        return False
    if isinstance(a, list):
        if len(a) != len(m):
            return False
        if case["op"] == "couplevec" and ops(case)[i].startswith("c20.stimsonlist"):
            return all(close(x, y, STIMSON_REL, 1e-300) for x, y in zip(a, m))
        if case["op"] == "drag" or (case["op"] == "axis" and case["fn"] == "drag"):
            mod = math.hypot(a[0], a[1])
            return all(abs(x - y) <= REL * mod for x, y in zip(a, m))
        return all(close(x, y, REL, 1e-300) for x, y in zip(a, m) if x is not None)
    return close(a, m, REL, 1e-300)


# ------------------------------------------------------------------ independent transcriptions (published equations)


def _integrate(psd, fc):
    """integral over (0, inf) of the implementation's spectrum: substitution f = e^u, composite 16-point
    Gauss-Legendre on 2000 panels between 1e-12*fc and 1e12*fc-ish (the tails beyond are < 1e-11 of the total)"""
    lo, hi = math.log(1e-9 * min(fc, 1.0)), math.log(1e15)
    x, w = np.polynomial.legendre.leggauss(16)
    edges = np.linspace(lo, hi, 2001)
    a, b = edges[:-1, None], edges[1:, None]
    u = (0.5 * (b - a) * x[None, :] + 0.5 * (b + a)).reshape(-1)
    ww = (0.5 * (b - a) * w[None, :]).reshape(-1)
    f = np.exp(u)
    return float(np.sum(ww * f * psd(f)))


def o_lorentz(f, fc, D):
    return D / (PI * PI * (f * f + fc * fc))


def o_diode(f, fd, a):
    return a * a + (1 - a * a) / (1 + (f / fd) ** 2)


def o_sinc(x):
    return 1.0 if x == 0 else math.sin(PI * x) / (PI * x)


def o_drag(f, gamma0, rho, R, l):
    """Tolic-Norrelykke et al. (2006) Eq. D4/D6 with Python complex numbers"""
    nu = gamma0 / (6 * PI * rho * R)
    f_nu = nu / (PI * R * R)
    r = f / f_nu
    s = cmath.sqrt(r)
    stokes = 1 + (1 - 1j) * s - 2j / 9 * r
    if l is None:
        return stokes
    delta_ratio = (2 * l - R) / R * s  # (2l - R)/delta, delta = R / sqrt(f/f_nu)
    den = 1 - 9 / 16 * (R / l) * (1 - (1 - 1j) / 3 * s + 2j / 9 * r - 4 / 3 * (1 - cmath.exp(-(1 - 1j) * delta_ratio)))
    return stokes / den


def o_fm(gamma0, R, rho_b):
    return gamma0 / (2 * PI * (4 / 3 * PI * R**3 * rho_b))


def o_hydro(f, fc, D, gamma0, R, rho_s, rho_b, l):
    g = o_drag(f, gamma0, rho_s, R, l)
    fm = o_fm(gamma0, R, rho_b)
    return D / (PI * PI) * g.real / ((fc + f * g.imag - f * f / fm) ** 2 + (f * g.real) ** 2)


def o_driven_hydro(fc, fd, A, gamma0, R, rho_s, rho_b, l):
    g = o_drag(fd, gamma0, rho_s, R, l)
    fm = o_fm(gamma0, R, rho_b)
    return (A * fd) ** 2 * abs(g) ** 2 / (2 * ((fc + fd * g.imag - fd * fd / fm) ** 2 + (fd * g.real) ** 2))


def o_faxen_den(x):
    x = Fraction(x)
    return 1 - Fraction(9, 16) * x + Fraction(1, 8) * x**3 - Fraction(45, 256) * x**4 - Fraction(1, 16) * x**5


def o_brenner_den(x):
    x = Fraction(x)
    return (1 - Fraction(9, 8) * x + Fraction(1, 2) * x**3 - Fraction(57, 100) * x**4 + Fraction(1, 5) * x**5
            + Fraction(7, 200) * x**11 - Fraction(1, 25) * x**12)


def o_goldman(x, rot):
    x = Fraction(x)
    if rot:
        co = [1, Fraction(-3, 4), Fraction(9, 16), Fraction(-59, 64), Fraction(273, 256), Fraction(-1107, 1024)]
        last = x**6 / (1 + x)
    else:
        co = [1, Fraction(-3, 4), Fraction(9, 16), Fraction(-59, 64), Fraction(465, 256), Fraction(-15813, 7168)]
        last = 2 * x**6 / (1 + x)
    return sum(c * x**k for k, c in enumerate(co)) + last


def o_stimson_equal(R, d):
    """Stimson & Jeffery (1926), equal spheres moving along their line of centres: ratio to the Stokes drag"""
    a = math.acosh(d / (2 * R))
    tot = 0.0
    for n in range(1, 400000):
        try:
            num = 4 * math.sinh((n + 0.5) * a) ** 2 - (2 * n + 1) ** 2 * math.sinh(a) ** 2
            den = 2 * math.sinh((2 * n + 1) * a) + (2 * n + 1) * math.sinh(2 * a)
            t = n * (n + 1) / ((2 * n - 1) * (2 * n + 3)) * (1 - num / den)
        except OverflowError:
            break
        tot += t
        if abs(t) < 1e-17 * abs(tot):
            break
    return 4 / 3 * math.sinh(a) * tot


def o_visc_huber(T):
    x = (T + 273.15) / 300
    return 1e-6 * sum(a * math.pow(x, b) for a, b in ((280.68, -1.9), (511.45, -7.7), (61.131, -19.6), (0.45903, -40.0)))


def o_mu_w(t):
    d = 20 - t
    return 1002.0 * 10 ** ((1.2378 * d - 1.303e-3 * d**2 + 3.06e-6 * d**3 + 2.55e-8 * d**4) / (96 + t))


def o_zpv(t, m):
    A = 3.324e-2 * m + 3.624e-3 * m**2 - 1.879e-4 * m**3
    B = -3.96e-2 * m + 1.02e-2 * m**2 - 7.02e-4 * m**3
    mw = o_mu_w(t)
    return mw * 10 ** (A + B * math.log10(mw / 1002.0))


def o_beta_w(t):
    return -1.297 + 5.74e-2 * t - 6.97e-4 * t**2 + 4.47e-6 * t**3 - 1.05e-8 * t**4


def o_pf(t, m):
    bse = 0.545 + 2.8e-3 * t - o_beta_w(t)
    ms = 6.044 + 2.8e-3 * t + 3.6e-5 * t**2
    x = m / ms
    return bse * (2.5 * x - 2.0 * x**2 + 0.5 * x**3) + o_beta_w(t)


def o_salt_visc(t, m, p):
    return 1e-6 * o_zpv(t, m) * (1 + o_pf(t, m) * p / 1000)


def o_salt_dens(t, m, p):
    T = t + 273.15
    s = m * 58.4428 / 1000
    w = s / (1 + s)

    def P(powers, co):
        return math.fsum(c * T**k for k, c in zip(powers, co))

    ab, ot = (-2, -1, 0, 1, 2), (0, 1, 2)
    a = P(ab, [1.006741e2, -1.127522, 5.916365e-3, -1.035794e-5, 9.270048e-9])
    b = P(ab, [1.042948, -1.1933677e-2, 5.307535e-5, -1.0688768e-7, 8.492739e-11])
    c_ = P(ot, [1.23268e-9, -6.861928e-12, 0])
    d = P(ot, [-2.5166e-3, 1.11766e-5, -1.70552e-8])
    e = P(ot, [2.84851e-3, -1.54305e-5, 2.23982e-8])
    f = P(ot, [-1.5106e-5, 8.4605e-8, -1.2715e-10])
    g = P(ot, [2.7676e-5, -1.5694e-7, 2.3102e-10])
    h = P(ot, [6.4633e-8, -4.1671e-10, 6.8599e-13])
    v = a - b * p - c_ * p * p + w * d + w * w * e - w * f * p - w * w * g * p - 0.5 * h * p * p
    return 1 / v


def o_passive_error(cfg):
    """documented errors of PassiveCalibrationModel (its docstring 'Raises' + the argument checks)"""
    d, l = cfg["bead_diameter"], cfg["distance_to_surface"]
    if d < 1e-2:
        return "ValueError"
    if l is not None and l < d / 2:
        return "ValueError"
    if cfg["viscosity"] is not None and cfg["viscosity"] <= 0.0003:
        return "ValueError"
    if not 5.0 < cfg["temperature"] < 90.0:
        return "ValueError"
    if cfg["hydrodynamically_correct"]:
        if cfg["axial"]:
            return "NotImplementedError"
        if l is not None and l / (d / 2) < 1.5:
            return "ValueError"
        if cfg["rho_sample"] is not None and cfg["rho_sample"] < 100:
            return "ValueError"
        if cfg["rho_bead"] < 100:
            return "ValueError"
    return None


def o_passive_psd(c, gamma0=None):
    cfg = c["cfg"]
    eta = cfg["viscosity"] if cfg["viscosity"] is not None else o_visc_huber(cfg["temperature"])
    gamma0 = 3 * PI * eta * cfg["bead_diameter"] * 1e-6 if gamma0 is None else gamma0
    f = c["f"]
    if cfg["hydrodynamically_correct"]:
        l = None if cfg["distance_to_surface"] is None else cfg["distance_to_surface"] * 1e-6
        rho_s = 997.0 if cfg["rho_sample"] is None else cfg["rho_sample"]

        def phys(f):
            return o_hydro(f, c["fc"], c["D"], gamma0, cfg["bead_diameter"] * 1e-6 / 2, rho_s, cfg["rho_bead"], l)
    else:
        def phys(f):
            return o_lorentz(f, c["fc"], c["D"])

    def full(f):
        return phys(f) * (1.0 if cfg["fast_sensor"] else o_diode(f, c["fd"], c["alpha"]))

    return full, eta, gamma0


def o_wrap(step, psd):
    """published equations of the two wrappers: P_blur(f) = P(f) sinc^2(f T);  P_alias(f) = sum_{|i| <= n} P(f + i fs)"""
    if step[0] == "B":
        T = step[1]
        return lambda x: psd(x) * o_sinc(x * T) ** 2
    fs, n = step[1], step[2]
    return lambda x: math.fsum(psd(x + i * fs) for i in range(-n, n + 1))


M_NACL = 58.4428


def o_molality(c, t, p):
    """molality [mol/kg water] of a NaCl solution of molarity c [mol/L]: one litre weighs rho/1000 kg of which
    M c / 1000 kg is salt, so m = 1000 c / (rho(t, m, p) - M c); solved by fixed-point iteration (a contraction:
    the density moves by ~4 % per mol/kg).  None when there is no solution below the model's limit."""
    if c == 0:
        return 0.0
    m = c
    for _ in range(500):
        if not 0 <= m <= 8:
            return None
        den = o_salt_dens(t, min(m, 8.0), p) - M_NACL * c
        if den <= 0:
            return None
        new = 1000 * c / den
        if abs(new - m) <= 1e-15 * max(1.0, m):
            return new
        m = new
    return None


def o_water(fn, t, c, p):
    """what the documentation of viscosity_of_water / density_of_water promises for one temperature:
    a float, 'ValueError', or None where this oracle does not decide (validity edge)"""
    salt = fn == "D" or bool(p) or bool(c)
    if not salt:
        return o_visc_huber(t) if -20 <= t < 110 else "ValueError"
    p = 0.101325 if p is None else p
    c = 0.0 if c is None else c  # "when pressure and/or molality are provided": a pressure alone is pure water at p
    if not (20 <= t < 150) or p > 35:
        return "ValueError"
    if c < 0 or c > 5.5:  # 5.5 M is beyond 6 mol/kg at every temperature and pressure of the model
        return "ValueError"
    m = o_molality(c, t, p)
    if m is None or m > 6 + 1e-6:
        return "ValueError"
    if m > 6 - 1e-6:
        return None
    return o_salt_visc(t, m, p) if fn == "V" else o_salt_dens(t, m, p)


# ------------------------------------------------------------------ oracle


def _rel(a, b, tol):
    return abs(a - b) <= tol * max(abs(a), abs(b))


def oracle(case, ia):
    c = case
    k = c["op"]
    vals = [dec(a) for a in ia]
    if all(unobserved(v) for v in vals):
        return None  # nothing could be observed (a private name the case is built on is gone and there is no public route)
    errs = [v for v in vals if isinstance(v, str) and v != "?"]
    expect_err = c.get("expect")
    if expect_err is not None:
        # malformed stream: the documented error, never data
        if all(v == expect_err for v in vals if not unobserved(v)):
            return None
        return f"documented-error: expected {expect_err} for {k} {c.get('why', '')}, implementation answered {ia[:3]}"
    if k == "contact":
        # touching (or nearly touching) equal beads: Stimson & Jeffery tabulate 0.645 at contact; the factor is continuous there
        v = vals[0]
        if isinstance(v, str) or not (0 < v < 1) or abs(v - 0.64514) > 1e-4:
            return f"coupling-in-unit-interval-at-contact: stimson(R={c['R']!r}, d={c['d']!r}) = {v!r}; the contact value is 0.64514 (in (0,1))"
        return None
    if k == "waterseq":
        return _oracle_waterseq(c, vals, ia)
    if k in ("passive", "passiveblur", "passivealias", "chain", "setdrag", "fixeddiode") or (k == "axis" and c["fn"] == "model"):
        want = o_passive_error(c["cfg"])
        if want is None and k == "fixeddiode":
            want = o_fixed_diode_error(c["fix"])
        if want is not None:
            if all(v == want for v in vals):
                return None
            return f"documented-error: PassiveCalibrationModel({c['cfg']}) should raise {want}, implementation answered {ia[:2]}"
    if errs:
        return f"unexpected-error: {k} inside its validity domain raised {errs[0]}"
    flat = []
    for v in vals:
        flat.extend(x for x in (v if isinstance(v, list) else [v]) if not unobserved(x))
    if any(math.isnan(x) or math.isinf(x) for x in flat):
        return f"not-finite: {k} returned a non-finite number inside its validity domain: {ia[:4]}"
    T = 1e-9
    if k == "lor":
        v = vals[0]
        if not _rel(v, o_lorentz(c["f"], c["fc"], c["D"]), T):
            return f"lorentzian-equation: got {v!r}, D/(pi^2 (f^2+fc^2)) = {o_lorentz(c['f'], c['fc'], c['D'])!r}"
        if not v > 0:
            return f"lorentzian-positive: {v!r}"
        return None
    if k == "diode":
        v = vals[0]
        a = c["alpha"]
        if not _rel(v, o_diode(c["f"], c["fd"], a), T):
            return f"diode-equation: got {v!r}, expected {o_diode(c['f'], c['fd'], a)!r}"
        resolvable = (1 - a * a) / (1 + (c["f"] / c["fd"]) ** 2) > 1e-12 * a * a  # else alpha^2 + the rest rounds to alpha^2
        if not (a * a * (1 - ULPS) <= v <= 1.0 + ULPS) or (resolvable and not a * a < v):
            return f"diode-bounds: alpha^2 < g <= 1 violated: g={v!r} alpha={a!r}"
        return None
    if k == "sinc":
        if not close(vals[0], o_sinc(c["x"]), 1e-9, 1e-15):
            return f"sinc: np.sinc({c['x']!r}) = {vals[0]!r}, sin(pi x)/(pi x) = {o_sinc(c['x'])!r}"
        return None
    if k == "blur":
        s2 = o_sinc(c["f"] * c["T"]) ** 2
        base = o_lorentz(c["f"], c["fc"], c["D"])
        if not close(vals[0], base * s2, 1e-9, 1e-15 * base):
            return f"motion-blur-equation: got {vals[0]!r}, psd*sinc^2 = {base * s2!r}"
        if not (0 <= vals[0] <= base * (1 + 1e-12)):
            return f"motion-blur-le: blurred {vals[0]!r} exceeds the unblurred spectrum {base!r} or is negative"
        if not close(vals[1], c["peak"] * s2, 1e-9, 1e-15 * abs(c["peak"])):
            return f"motion-blur-peak: got {vals[1]!r}, expected {c['peak'] * s2!r}"
        return None
    if k == "alias":
        def psd(f):
            return o_lorentz(f, c["fc"], c["D"]) * o_diode(f, c["fd"], c["alpha"])

        exp = math.fsum(psd(c["f"] + i * c["fs"]) for i in range(-c["n"], c["n"] + 1))
        if not _rel(vals[0], exp, T):
            return f"alias-sum-of-shifts: got {vals[0]!r}, sum over {2 * c['n'] + 1} shifts = {exp!r}"
        if not vals[0] >= psd(c["f"]) * (1 - 1e-12) or not vals[0] > 0:
            return f"alias-positive: aliased {vals[0]!r} below the unaliased spectrum {psd(c['f'])!r}"
        return None
    if k == "drivenlor":
        exp = c["A"] ** 2 / (2 * (1 + (c["fc"] / c["fd"]) ** 2))
        return None if _rel(vals[0], exp, T) else f"driven-lorentzian-equation: got {vals[0]!r}, expected {exp!r}"
    if k == "drag":
        g = o_drag(c["f"], c["gamma0"], c["rho"], c["R"], c["l"])
        re, im = vals[0]
        if abs(complex(re, im) - g) > 1e-9 * abs(g):
            return f"complex-drag-equation (D4/D6): got {complex(re, im)!r}, expected {g!r}"
        if not re > 0:
            return f"complex-drag: real part (dissipation) not positive: {re!r}"
        return None
    if k == "hydro":
        args = (c["gamma0"], c["R"], c["rho_s"], c["rho_b"], c["l"])
        e1 = o_hydro(c["f"], c["fc"], c["D"], *args)
        e2 = o_driven_hydro(c["fc"], c["f"], c["A"], *args)
        if not _rel(vals[0], e1, 1e-8):
            return f"hydro-spectrum-equation (D2): got {vals[0]!r}, expected {e1!r}"
        if not vals[0] > 0:
            return f"hydro-positive: {vals[0]!r}"
        if not _rel(vals[1], e2, 1e-8):
            return f"hydro-driven-peak-equation (D3): got {vals[1]!r}, expected {e2!r}"
        return None
    if k == "hydrolimit":
        # low frequency: hydro -> Lorentzian with the local (zero-frequency) drag; small bead: hydro -> Lorentzian
        nu = c["gamma0"] / (6 * PI * c["rho_s"] * c["R"])
        f_nu = nu / (PI * c["R"] ** 2)
        g0 = 1.0 if c["l"] is None else 1 / (1 - 9 / 16 * c["R"] / c["l"])
        lor_local = o_lorentz(c["f0"], c["fc"] / g0, c["D"] / g0)
        bound = 20 * math.sqrt(c["f0"] / f_nu) * max(1.0, (c["f0"] / c["fc"]) ** 2) + 1e-9
        if not abs(vals[0] / lor_local - 1) <= bound:
            return f"hydro-low-frequency-limit: P_hydro({c['f0']!r})/Lorentzian = {vals[0] / lor_local!r}, |.-1| > {bound!r}"
        f_nu0 = f_nu * (c["R"] / c["R0"]) ** 2  # gamma0 ~ R: nu unchanged
        fm0 = o_fm(c["gamma0"] * c["R0"] / c["R"], c["R0"], c["rho_b"])
        g00 = 1.0 if c["l"] is None else 1 / (1 - 9 / 16 * c["R0"] / c["l"])
        lor = o_lorentz(c["f"], c["fc"] / g00, c["D"] / g00)
        x = c["f"] / c["fc"]
        bound = 20 * (math.sqrt(c["f"] / f_nu0) + c["f"] / fm0) * max(1.0, x * x) + 1e-9
        if not abs(vals[1] / lor - 1) <= bound:
            return f"hydro-small-bead-limit: P_hydro(R={c['R0']!r})/Lorentzian = {vals[1] / lor!r}, |.-1| > {bound!r}"
        return None
    if k == "equip":
        exp = c["D"] / (2 * PI * c["fc"])
        if not _rel(vals[0], exp, 1e-6):
            return f"hydro-equipartition: integral over all frequencies = {vals[0]!r}, D/(2 pi fc) = {exp!r}"
        return None
    if k == "wall" and c.get("no_brenner"):
        x, x2 = Fraction(c["R"]) / Fraction(c["h"]), Fraction(c["R"]) / Fraction(c["h2"])
        for v, xx in ((vals[0], x), (vals[1], x2)):
            if not _rel(v, float(1 / o_faxen_den(xx)), 1e-12):
                return f"faxen-equation: got {v!r}, exact {float(1 / o_faxen_den(xx))!r}"
            if not v > 1:
                return f"wall-correction-exceeds-one: faxen {v!r} at R/h={float(xx)!r}"
        if c["h2"] > c["h"] and not vals[1] < vals[0]:
            return f"wall-correction-decreases-with-distance: faxen({c['h']!r})={vals[0]!r}, faxen({c['h2']!r})={vals[1]!r}"
        return None
    if k == "wall":
        x, x2 = Fraction(c["R"]) / Fraction(c["h"]), Fraction(c["R"]) / Fraction(c["h2"])
        fx, bx = float(1 / o_faxen_den(x)), float(1 / o_brenner_den(x))
        amp = 1 / max(1 - float(x), 1e-12)
        if not _rel(vals[0], fx, 1e-12):
            return f"faxen-equation: got {vals[0]!r}, exact {fx!r}"
        if not _rel(vals[1], bx, 1e-13 * amp + 1e-12):
            return f"brenner-equation: got {vals[1]!r}, exact {bx!r}"
        xf = float(x)
        if xf > 1e-12 and not (vals[0] > 1 and vals[1] > 1):
            return f"wall-correction-exceeds-one: faxen {vals[0]!r}, brenner {vals[1]!r} at R/h={xf!r}"
        if not (vals[0] >= 1 and vals[1] >= 1):
            return f"wall-correction-exceeds-one: faxen {vals[0]!r}, brenner {vals[1]!r} at R/h={xf!r}"
        if not vals[1] >= vals[0] * (1 - 1e-15):
            return f"axial-ge-lateral: brenner {vals[1]!r} < faxen {vals[0]!r} at R/h={xf!r}"
        # h2 > h: both corrections decrease with distance (strictly when the step is resolvable)
        if c["h2"] > c["h"]:
            step = float(x - x2)
            strict = step > 1e-9 * float(x) and float(x) > 1e-6
            for name, near, far in (("faxen", vals[0], vals[2]), ("brenner", vals[1], vals[3])):
                if far > near * (1 + 1e-13 * amp) or (strict and not far < near and float(x) > 1e-3):
                    return f"wall-correction-decreases-with-distance: {name}({c['h']!r})={near!r}, {name}({c['h2']!r})={far!r}"
        # tends to one: |c - 1| <= 2.5 x far from the wall
        if xf <= 0.1 and not (abs(vals[0] - 1) <= 0.7 * xf and abs(vals[1] - 1) <= 1.3 * xf):
            return f"wall-correction-tends-to-one: faxen-1 = {vals[0] - 1!r}, brenner-1 = {vals[1] - 1!r} at R/h = {xf!r}"
        return None
    if k == "couple":
        R, d, d2 = c["R"], c["d"], c["d2"]
        x, x2 = Fraction(R) / Fraction(d), Fraction(R) / Fraction(d2)
        for j, (xx, rot) in enumerate(((x, True), (x, False), (x2, True), (x2, False))):
            e = float(o_goldman(xx, rot))
            if not _rel(vals[j], e, 1e-12):
                return f"goldman-equation(rot={rot}): got {vals[j]!r}, exact {e!r}"
            if not 0 < vals[j] < 1:
                return f"coupling-in-unit-interval: goldman(rot={rot}) = {vals[j]!r} at R/d = {float(xx)!r}"
        xf = float(x)
        if xf <= 0.05 and not all(abs(vals[j] - 1) <= 0.8 * xf for j in (0, 1)):
            return f"coupling-tends-to-one: goldman - 1 = {vals[0] - 1!r} at R/d = {xf!r}"
        s1, s2 = vals[4], vals[5]
        if not (0 < s1 < 1 and 0 < s2 < 1):
            return f"coupling-in-unit-interval: stimson = {s1!r}, {s2!r} at R/d = {xf!r}"
        if not _rel(s1, s2, 1e-9):
            return f"stimson-symmetry: equal beads got different factors {s1!r}, {s2!r}"
        ref = o_stimson_equal(R, d)
        if not abs(s1 - ref) <= 2e-6:
            return f"stimson-equation: got {s1!r}, Stimson-Jeffery equal-sphere series {ref!r}"
        if xf <= 0.05 and not abs(s1 - 1) <= 1.6 * xf:
            return f"coupling-tends-to-one: stimson - 1 = {s1 - 1!r} at R/d = {xf!r}"
        v2d, dx, dy = vals[6], vals[7], vals[8]
        g = vals[0] if c["rot"] else vals[1]
        dist2 = dx * dx + dy * dy
        ca, cp = (dy * dy / dist2, dx * dx / dist2) if c["is_y"] else (dx * dx / dist2, dy * dy / dist2)
        e = ca * s1 + cp * g
        if not _rel(v2d, e, 1e-9):
            return f"coupling-2d-decomposition: got {v2d!r}, cos^2*aligned + sin^2*perpendicular = {e!r}"
        if not 0 < v2d < 1:
            return f"coupling-in-unit-interval: 2d factor {v2d!r}"
        return None
    if k == "visc":
        e = o_visc_huber(c["T"])
        if not _rel(vals[0], e, T):
            return f"viscosity-equation (Huber 2009): got {vals[0]!r}, expected {e!r}"
        if not vals[0] > 0:
            return f"viscosity-positive: {vals[0]!r}"
        if c["T2"] > c["T"] and not vals[1] < vals[0] * (1 + 1e-13) or (c["T2"] - c["T"] > 1e-6 and not vals[1] < vals[0]):
            return f"viscosity-decreases-with-temperature: eta({c['T']!r}) = {vals[0]!r}, eta({c['T2']!r}) = {vals[1]!r}"
        ref = c.get("reference")
        if ref is not None and not _rel(vals[0], ref, c.get("reftol", 1e-3)):
            return f"viscosity-reference-value: eta({c['T']!r}) = {vals[0]!r}, tabulated {ref!r}"
        return None
    if k == "salt":
        t, m, p = c["T"], c["m"], c["p"]
        mol, visc, dens, zpv, pf, visc_m2, dens_m2, visc_t2, visc0, dens0, m_back = vals
        e_dens = o_salt_dens(t, m, p)
        e_mol = m / (1e3 * (1 + 58.4428 * m * 1e-3) / e_dens)
        if not close(mol, e_mol, T, 1e-300):
            return f"molality-to-molarity: got {mol!r}, expected {e_mol!r}"
        if not close(m_back, m, 1e-9, 1e-11):
            return f"molarity-molality-round-trip: {m!r} mol/kg -> {mol!r} M -> {m_back!r} mol/kg"
        if not _rel(zpv, o_zpv(t, m), T):
            return f"zero-pressure-viscosity (Kestin Eq. 2-5): got {zpv!r}, expected {o_zpv(t, m)!r}"
        if not close(pf, o_pf(t, m), T, 1e-12):
            return f"pressure-factor (Kestin Eq. 7-10): got {pf!r}, expected {o_pf(t, m)!r}"
        if not _rel(visc, o_salt_visc(t, m, p), 1e-8):
            return f"salt-viscosity-equation: viscosity_of_water({t!r}, {mol!r}, {p!r}) = {visc!r}, expected {o_salt_visc(t, m, p)!r}"
        if not _rel(dens, e_dens, 1e-9):
            return f"salt-density-equation: density_of_water({t!r}, {mol!r}, {p!r}) = {dens!r}, expected {e_dens!r}"
        if not (visc > 0 and dens > 0):
            return f"salt-positive: viscosity {visc!r}, density {dens!r}"
        if c["m2"] > m:
            strict = c["m2"] - m > 1e-7
            if visc_m2 < visc * (1 - 1e-12) or (strict and not visc_m2 > visc):
                return f"viscosity-increases-with-NaCl: eta(m={m!r}) = {visc!r}, eta(m={c['m2']!r}) = {visc_m2!r} at T={t!r}, p={p!r}"
            if not unobserved(dens_m2) and (dens_m2 < dens * (1 - 1e-12) or (strict and not dens_m2 > dens)):
                return f"density-increases-with-NaCl: rho(m={m!r}) = {dens!r}, rho(m={c['m2']!r}) = {dens_m2!r} at T={t!r}, p={p!r}"
        if c["T2"] > t:
            strict = c["T2"] - t > 1e-6
            if visc_t2 > visc * (1 + 1e-12) or (strict and not visc_t2 < visc):
                return f"salt-viscosity-decreases-with-temperature: eta(T={t!r}) = {visc!r}, eta(T={c['T2']!r}) = {visc_t2!r} at m={m!r}, p={p!r}"
        # m = 0: the salt model is its own pure-water term, and that joins the salt values continuously
        e0 = 1e-6 * o_mu_w(t) * (1 + o_beta_w(t) * p / 1000)
        if not _rel(visc0, e0, T):
            return f"salt-joins-water: viscosity_of_water({t!r}, 0, {p!r}) = {visc0!r}, pure-water term {e0!r}"
        if not _rel(dens0, o_salt_dens(t, 0.0, p), T):
            return f"salt-joins-water: density_of_water({t!r}, 0, {p!r}) = {dens0!r}, pure-water term {o_salt_dens(t, 0.0, p)!r}"
        if m <= 1e-6 and not (_rel(visc, visc0, 1e-6) and _rel(dens, dens0, 1e-6)):
            return f"salt-joins-water-continuously: at m = {m!r}: eta {visc!r} vs {visc0!r}, rho {dens!r} vs {dens0!r}"
        if t < 110 and abs(p - 0.101325) < 1e-12 and not _rel(visc0, o_visc_huber(t), 5e-3):
            return f"salt-joins-water: Kestin water viscosity {visc0!r} vs Huber {o_visc_huber(t)!r} at T = {t!r} (> 0.5 %)"
        return None
    if k == "bispherical":
        # Stimson & Jeffery's bispherical coordinates: r1 = a cosech(alpha), r2 = -a cosech(beta), the centres at
        # a coth(alpha) and a coth(beta) on the line of centres, their distance d; alpha > 0 > beta, a > 0
        R1, R2, d = c["R1"], c["R2"], c["d"]
        a, al, be = vals[0]
        if not (a > 0 and al > 0 > be):
            return f"bispherical-coordinates: a = {a!r}, alpha = {al!r}, beta = {be!r} for r1={R1!r}, r2={R2!r}, d={d!r} (expected a > 0, alpha > 0 > beta)"
        got = (a / math.sinh(al), -a / math.sinh(be), a / math.tanh(al) - a / math.tanh(be))
        for name, g, e in (("r1 = a cosech(alpha)", got[0], R1), ("r2 = -a cosech(beta)", got[1], R2), ("d = a coth(alpha) - a coth(beta)", got[2], d)):
            # sinh(alpha) = sqrt(x^2 - 1) at x = d1/r1 -> 1 near contact: rounding of x is amplified by 1/(x^2 - 1) ~ 1/gap
            if not _rel(g, e, max(1e-9, 1e-14 / (d / (R1 + R2) - 1))):
                return f"bispherical-coordinates: {name}: {g!r} vs {e!r} (r1={R1!r}, r2={R2!r}, d={d!r})"
        return None
    if k == "stimson2":
        R1, R2, d = c["R1"], c["R2"], c["d"]
        a1, a2, b1, b2 = vals
        for name, v in (("first", a1), ("second", a2), ("first, labels swapped", b1), ("second, labels swapped", b2)):
            if not 0 < v < 1:
                return f"coupling-in-unit-interval: stimson(R1={R1!r}, R2={R2!r}, d={d!r}) {name} factor = {v!r}"
        if abs(a1 - b2) > 1e-8 or abs(a2 - b1) > 1e-8:
            return (f"stimson-label-symmetry: stimson({R1!r}, {R2!r}, {d!r}) = ({a1!r}, {a2!r}) but with the beads "
                    f"relabelled ({b1!r}, {b2!r}): the factor of a bead depends on which argument it is")
        X = max(R1, R2) / d
        for name, v, own, other in (("first", a1, R1, R2), ("second", a2, R2, R1)):
            # method of reflections (Smoluchowski; Happel & Brenner 6-3): equal velocities along the line of centres
            refl = 1 - 1.5 * other / d + 2.25 * own * other / (d * d)
            if X <= 0.2 and not abs(v - refl) <= 5 * X**3 + 1e-9:
                return (f"coupling-tends-to-one: stimson({R1!r}, {R2!r}, {d!r}) {name} factor = {v!r}; far-field expansion "
                        f"1 - 3/2 b/d + 9/4 ab/d^2 = {refl!r} (allowed {5 * X**3!r})")
            if (R1 + R2) / d <= 0.05 and not abs(v - 1) <= 1.6 * other / d:
                return f"coupling-tends-to-one: stimson({R1!r}, {R2!r}, {d!r}) {name} factor - 1 = {v - 1!r}, other bead radius / d = {other / d!r}"
        if R1 == R2 and not abs(a1 - o_stimson_equal(R1, d)) <= 2e-6:
            return f"stimson-equation: got {a1!r}, Stimson-Jeffery equal-sphere series {o_stimson_equal(R1, d)!r}"
        return None
    if k == "fixeddiode":
        return _oracle_fixeddiode(c, vals[0])
    if k == "couplevec":
        return _oracle_couplevec(c, vals)
    if k == "axis":
        return _oracle_axis(c, vals)
    if k == "setdrag":
        full, eta, gamma0 = o_passive_psd(c)
        carried, _, _ = o_passive_psd(c, gamma0=c["gamma"])
        f, steps, got = c["f"], c["steps"], vals[0]
        if len(got) != len(steps) + 4:
            return f"set-drag: {len(got)} values for {len(steps) + 4} observables"
        if not _rel(got[0], full(f), 1e-8):
            return f"passive-model-spectrum: got {got[0]!r}, physical spectrum x diode filter = {full(f)!r}"
        # after the transfer: the published spectrum of THIS bead at THIS distance, for the bulk drag the model was built
        # with (what the code keeps) or the transferred one — never another geometry
        ok = []
        for base in (full, carried):
            cur = env = base
            exp, envs = [base(f)], [base(f)]
            for st in steps:
                cur = o_wrap(st, cur)
                env = o_wrap(st, env) if st[0] == "A" else env
                exp.append(cur(f))
                envs.append(env(f))
            ok.append(all(close(v, e, 1e-8, 1e-14 * abs(sc)) for v, e, sc in zip(got[1:], exp, envs)))
            first = exp if base is full else first
        if not any(ok):
            return (f"spectrum-after-drag-transfer: after _set_drag({c['gamma']!r}) the model (and {len(steps)} wrapper steps) gives "
                    f"{got[1:len(steps) + 2]!r}; the published equations for this bead radius, densities and distance to the surface give "
                    f"{first!r} (bulk drag as built; neither that nor the transferred drag matches)")
        if any(not v >= 0 for v in got[:len(steps) + 2]) or not got[1] > 0:
            return f"passive-model-positive: {got[:len(steps) + 2]!r}"
        cfg = c["cfg"]
        l, d = cfg["distance_to_surface"], cfg["bead_diameter"]
        e_corr = 1.0
        if not cfg["hydrodynamically_correct"] and l is not None:
            x = Fraction(d * 1e-6 / 2.0) / Fraction(l * 1e-6)
            e_corr = float(1 / (o_brenner_den(x) if cfg["axial"] else o_faxen_den(x)))
        if not _rel(got[-2], c["gamma"], 1e-12) or not _rel(got[-1], c["gamma"] * e_corr, 1e-9 / max(1e-3, 1 - (d / 2) / l if l else 1)):
            return (f"drag-transfer: after _set_drag({c['gamma']!r}) the model reports drag_coeff {got[-2]!r} and corrected drag "
                    f"{got[-1]!r} (expected {c['gamma']!r} and gamma x wall correction = {c['gamma'] * e_corr!r})")
        return None
    if k == "chain":
        full, eta, gamma0 = o_passive_psd(c)
        f, steps = c["f"], c["steps"]
        cur = env = full
        exp, envs = [full(f)], [full(f)]
        for st in steps:
            cur = o_wrap(st, cur)
            env = o_wrap(st, env) if st[0] == "A" else env  # the same chain without the blur factors: the scale
            exp.append(cur(f))
            envs.append(env(f))
        for name, got in (("as derived", vals[0]), ("after the whole lineage exists", vals[1])):
            if len(got) != len(exp):
                return f"wrapper-chain: {len(got)} values for {len(exp)} objects"
            for j, (v, e, sc) in enumerate(zip(got, exp, envs)):
                shape = "->".join(["model"] + [st[0] for st in steps[:j]])
                if not close(v, e, 1e-8, 1e-14 * abs(sc)):
                    return (f"wrapper-chain-equation: {shape} at f={f!r} ({name}) = {v!r}, published equations "
                            f"(P_blur = P sinc^2(fT), P_alias = sum of shifts, composed in this order) = {e!r}")
                if not v >= 0 or (not v > 0 and not any(st[0] == "B" for st in steps[:j])):
                    return f"wrapper-chain-positive: {shape} = {v!r}"
                if j:
                    prev, st = got[j - 1], steps[j - 1]
                    if st[0] == "B" and not v <= prev * (1 + 1e-12):
                        return f"motion-blur-le: {shape} = {v!r} exceeds the spectrum it blurs, {prev!r}"
                    if st[0] == "A" and not v >= prev * (1 - 1e-12):
                        return f"alias-ge-unaliased: {shape} = {v!r} is below the spectrum it aliases, {prev!r}"
        psd, drag, corr, local, visc = vals[2]
        if not _rel(psd, exp[0], 1e-8) or not _rel(visc, eta, T) or not _rel(drag, gamma0, T):
            return (f"wrapper-chain-leaves-the-model: after deriving {len(steps)} wrapped copies the model itself gives "
                    f"{psd!r} (expected {exp[0]!r}), viscosity {visc!r} ({eta!r}), gamma0 {drag!r} ({gamma0!r})")
        return None
    if k in ("passive", "passiveblur", "passivealias"):
        full, eta, gamma0 = o_passive_psd(c)
        cfg = c["cfg"]
        if k == "passive":
            psd, drag, corr, local, visc = vals[0]
            if not _rel(psd, full(c["f"]), 1e-8):
                return f"passive-model-spectrum: got {psd!r}, physical spectrum x diode filter = {full(c['f'])!r}"
            if not psd > 0:
                return f"passive-model-positive: {psd!r}"
            if not _rel(visc, eta, T) or not _rel(drag, gamma0, T):
                return f"passive-model-drag: viscosity {visc!r} (expected {eta!r}), gamma0 {drag!r} (expected 3 pi eta d = {gamma0!r})"
            l, d = cfg["distance_to_surface"], cfg["bead_diameter"]
            if cfg["hydrodynamically_correct"]:
                e_corr = 1.0
                e_local = 1.0 if l is None else 1 / (1 - 9 / 16 * (d / 2) / l)
            else:
                e_local = 1.0
                if l is None:
                    e_corr = 1.0
                else:
                    x = Fraction(d * 1e-6 / 2.0) / Fraction(l * 1e-6)
                    e_corr = float(1 / (o_brenner_den(x) if cfg["axial"] else o_faxen_den(x)))
            if not _rel(corr, e_corr, 1e-9 / max(1e-3, 1 - (d / 2) / l if l else 1)) or not (unobserved(local) or _rel(local, e_local, 1e-9)):
                return f"passive-model-wall-correction: correction {corr!r} (expected {e_corr!r}), local drag factor {local!r} (expected {e_local!r})"
            return None
        if k == "passiveblur":
            e = full(c["f"]) * o_sinc(c["f"] * c["T"]) ** 2
            if not close(vals[0], e, 1e-8, 1e-15 * full(c["f"])):
                return f"passive-model-motion-blur: got {vals[0]!r}, expected {e!r}"
            return None
        e = math.fsum(full(abs(c["f"] + i * c["fs"])) if False else full(c["f"] + i * c["fs"]) for i in range(-c["n"], c["n"] + 1))
        if not _rel(vals[0], e, 1e-8):
            return f"passive-model-alias: got {vals[0]!r}, sum of shifts {e!r}"
        return None
    return f"harness-bug: no oracle for {k}"


def o_fixed_diode_error(fix):
    """documented argument checks of the fixed diode filter: 'Diode relaxation factor should be between 0 and 1
    (inclusive)', 'Fixed diode frequency must be larger than zero'"""
    fd, a = fix
    if a is not None and not 0 <= a <= 1:
        return "ValueError"
    if fd is not None and not fd > 0:
        return "ValueError"
    return None


def _oracle_fixeddiode(c, got):
    """every call of the one model object: the published diode filter at the FIXED values (whatever they are: 0 and 1
    are allowed relaxation factors) and this call's free ones, the physical spectrum times it, the wrapper equations
    around that — whatever the object was called with before"""
    f, steps, calls = c["f"], c["steps"], c["calls"]
    if len(got) != 3 * len(calls):
        return f"fixed-diode: {len(got)} values for {3 * len(calls)} observables"
    for j, pair in enumerate(calls):
        fd, a = (v if fixed is None else fixed for v, fixed in zip(pair, c["fix"]))
        g, p, w = got[3 * j:3 * j + 3]
        free = [v for v, fixed in zip(pair, c["fix"]) if fixed is None]
        what = f"call {j}: FixedDiodeModel(diode_frequency={c['fix'][0]!r}, diode_alpha={c['fix'][1]!r}) with free parameters {free!r} at f={f!r}"
        e_g = o_diode(f, fd, a)
        if not _rel(g, e_g, 1e-9):
            return f"diode-equation: {what}: filter = {g!r}, alpha^2 + (1 - alpha^2)/(1 + (f/f_diode)^2) at f_diode={fd!r}, alpha={a!r} is {e_g!r}"
        resolvable = (1 - a * a) / (1 + (f / fd) ** 2) > 1e-12 * a * a  # else alpha^2 + the rest rounds to alpha^2
        if not (a * a * (1 - ULPS) <= g <= 1.0 + ULPS) or (resolvable and not a * a < g):
            return f"diode-bounds: {what}: alpha^2 < g <= 1 violated: g={g!r} alpha={a!r}"
        full, _, _ = o_passive_psd(dict(c, fd=fd, alpha=a))
        if not _rel(p, full(f), 1e-8):
            return f"passive-model-spectrum: {what}: model = {p!r}, physical spectrum x diode filter = {full(f)!r}"
        if not p > 0:
            return f"passive-model-positive: {what}: {p!r}"
        cur = env = full
        for st in steps:
            cur = o_wrap(st, cur)
            env = o_wrap(st, env) if st[0] == "A" else env
        if not close(w, cur(f), 1e-8, 1e-14 * abs(env(f))):
            return (f"wrapper-chain-equation: {what}: model->{'->'.join(st[0] for st in steps)} = {w!r}, published equations "
                    f"(P_blur = P sinc^2(fT), P_alias = sum of shifts, composed in this order) = {cur(f)!r}")
        if not w >= 0:
            return f"wrapper-chain-positive: {what}: {w!r}"
    return None


def _oracle_axis(c, vals):
    """a frequency axis evaluated in one call: EVERY entry is the published equation at that entry's frequency (and
    positive), whatever container dtype the frequencies travel in and whatever else is on the axis"""
    fn, axis = c["fn"], c["axis"]
    if len(vals) != len(axis):
        return f"axis-shape: {len(vals)} values for {len(axis)} frequencies"
    for i, (f, v) in enumerate(zip(axis, vals)):
        what = f"entry {i} (f = {f!r}) of the {c['dtype']} axis {axis!r}"
        if fn == "lor":
            e = o_lorentz(f, c["fc"], c["D"])
            if not v > 0:
                return f"lorentzian-positive: {what}: {v!r}"
            if not _rel(v, e, 1e-9):
                return f"lorentzian-equation: {what}: got {v!r}, D/(pi^2 (f^2+fc^2)) = {e!r}"
        elif fn == "diode":
            a = c["alpha"]
            e = o_diode(f, c["fd"], a)
            if not _rel(v, e, 1e-9):
                return f"diode-equation: {what}: got {v!r}, expected {e!r}"
            if not (a * a * (1 - ULPS) <= v <= 1.0 + ULPS):
                return f"diode-bounds: {what}: alpha^2 < g <= 1 violated: g={v!r} alpha={a!r}"
        elif fn == "drag":
            g = o_drag(f, c["gamma0"], c["rho"], c["R"], c["l"])
            if abs(complex(v[0], v[1]) - g) > 1e-9 * abs(g):
                return f"complex-drag-equation (D4/D6): {what}: got {complex(v[0], v[1])!r}, expected {g!r}"
            if not v[0] > 0:
                return f"complex-drag: {what}: real part (dissipation) not positive: {v[0]!r}"
        elif fn == "hydro":
            e = o_hydro(f, c["fc"], c["D"], c["gamma0"], c["R"], c["rho_s"], c["rho_b"], c["l"])
            if not v > 0:
                return f"hydro-positive: {what}: {v!r}"
            if not _rel(v, e, 1e-8):
                return f"hydro-spectrum-equation (D2): {what}: got {v!r}, expected {e!r}"
        else:
            full, _, _ = o_passive_psd(dict(c, f=f))
            steps = c["steps"]
            if len(v) != len(steps) + 1:
                return f"axis-shape: {what}: {len(v)} values for {len(steps) + 1} objects"
            cur = env = full
            exp, envs = [full(f)], [full(f)]
            for st in steps:
                cur = o_wrap(st, cur)
                env = o_wrap(st, env) if st[0] == "A" else env
                exp.append(cur(f))
                envs.append(env(f))
            for j, (g, e, sc) in enumerate(zip(v, exp, envs)):
                shape = "->".join(["model"] + [st[0] for st in steps[:j]])
                if not g >= 0 or (not g > 0 and not any(st[0] == "B" for st in steps[:j])):
                    return f"passive-model-positive: {what}: {shape} = {g!r}"
                if not close(g, e, 1e-8, 1e-14 * abs(sc)):
                    return (f"passive-model-spectrum: {what}: {shape} = {g!r}; published equations (physical spectrum x diode filter, "
                            f"P_blur = P sinc^2(fT), P_alias = sum of shifts, composed in this order) = {e!r}")
    return None


def _oracle_couplevec(c, vals):
    """coupling_correction_2d with array arguments: every entry is the factor of ITS bead pair —
    c_aligned cos^2 + c_perpendicular sin^2 with the one-dimensional factors at that pair's own distance —
    lies in (0, 1) and tends to one with that pair's separation, whatever else is in the arrays"""
    R, pairs = c["R"], c["pairs"]
    vec, single, st = vals[0], vals[1], vals[2]
    go = vals[3:]
    n = len(pairs)
    if not (len(vec) == len(single) == len(st) == len(go) == n):
        return f"coupling-2d-shape: {len(vec)} factors for {n} bead pairs"
    for i, (dx, dy) in enumerate(pairs):
        d = math.sqrt(dx * dx + dy * dy)
        x = Fraction(R) / Fraction(d)
        xf = float(x)
        e = float(o_goldman(x, c["rot"]))
        if not _rel(go[i], e, 1e-12):
            return f"goldman-equation(rot={c['rot']}): got {go[i]!r}, exact {e!r}"
        if not (0 < go[i] < 1 and 0 < st[i] < 1):
            return f"coupling-in-unit-interval: goldman = {go[i]!r}, stimson = {st[i]!r} at R/d = {xf!r}"
        ref = o_stimson_equal(R, d)
        if not abs(st[i] - ref) <= 2e-6:
            return f"stimson-equation: got {st[i]!r}, Stimson-Jeffery equal-sphere series {ref!r}"
        dist2 = dx * dx + dy * dy
        ca, cp = (dy * dy / dist2, dx * dx / dist2) if c["is_y"] else (dx * dx / dist2, dy * dy / dist2)
        e = ca * st[i] + cp * go[i]
        for name, v in ((f"entry {i} of the call with {n} bead pairs ({c['form']})", vec[i]), ("the pair on its own", single[i])):
            what = f"coupling_correction_2d, pair (dx={dx!r}, dy={dy!r}), diameter {2 * R!r}, {name}"
            if not _rel(v, e, 1e-9):
                return (f"coupling-2d-decomposition: {what} = {v!r}; cos^2*aligned + sin^2*perpendicular at this pair's "
                        f"distance = {e!r}")
            if not 0 < v < 1:
                return f"coupling-in-unit-interval: {what} = {v!r}"
            if xf <= 0.05 and not abs(v - 1) <= 1.6 * xf:
                return f"coupling-tends-to-one: {what}: factor - 1 = {v - 1!r} at R/d = {xf!r}"
    return None


def _oracle_waterseq(c, vals, ia):
    seen = {}  # (fn, T, effective p) -> [(molarity, value)] over the salt-model answers of this sequence
    for qi, (q, got) in enumerate(zip(c["queries"], vals)):
        fn, cc, p = q["fn"], q["c"], q["p"]
        want = [o_water(fn, t, cc, p) for t in q["T"]]
        what = f"query {qi}: {'viscosity' if fn == 'V' else 'density'}_of_water({q['T'] if not q['scalar'] else q['T'][0]!r}, {cc!r}, {p!r})"
        if any(w == "ValueError" for w in want):
            if got != "ValueError":
                return f"documented-error: {what} should raise ValueError, implementation answered {ia[qi]}"
            continue
        if any(w is None for w in want):
            continue
        if isinstance(got, str):
            return f"unexpected-error: {what} inside its validity domain raised {got}"
        if len(got) != len(want):
            return f"water-shape: {what} returned {len(got)} values"
        for t, v, w in zip(q["T"], got, want):
            if math.isnan(v) or math.isinf(v):
                return f"not-finite: {what} = {v!r}"
            if not _rel(v, w, 1e-8 if fn == "V" else 1e-9):
                return (f"water-equation-at-the-queried-state: {what} = {v!r} at T={t!r}; the published model at THIS "
                        f"temperature, molarity and pressure gives {w!r} (whatever was asked before)")
            if not v > 0:
                return f"salt-positive: {what} = {v!r}"
            if fn == "D" or bool(p) or bool(cc):
                seen.setdefault((fn, t, 0.101325 if p is None else p), []).append((0.0 if cc is None else cc, v, qi))
    for (fn, t, p), lst in seen.items():
        lst.sort()
        for (c1, v1, q1), (c2, v2, q2) in zip(lst, lst[1:]):
            if c2 - c1 > 1e-7 and not v2 > v1:
                name = "viscosity-increases-with-NaCl" if fn == "V" else "density-increases-with-NaCl"
                return (f"{name}: at T={t!r}, p={p!r}: {c1!r} M -> {v1!r} (query {q1}), {c2!r} M -> {v2!r} (query {q2})")
    return None


def nontrivial(case, ia):
    if case.get("expect") is not None or case["op"] == "contact":
        return False
    if case["op"] == "waterseq":
        return sum(1 for a in ia if not isinstance(dec(a), str)) >= 2
    if any(isinstance(dec(a), str) and a != "?" for a in ia) or all(a == "?" for a in ia):
        return False
    k = case["op"]
    if k == "chain":
        return case["f"] > 0 and len(case["steps"]) >= 1
    if k == "axis":
        return sum(1 for f in case["axis"] if f > 0) >= 2
    if k == "stimson2":
        return case["R1"] != case["R2"] and max(case["R1"], case["R2"]) / case["d"] >= 1e-3
    if k == "setdrag":
        return case["f"] > 0
    if k == "fixeddiode":
        return case["f"] > 0 and any(v is not None for v in case["fix"])
    if k == "couplevec":
        return len(case["pairs"]) >= 2 and any(case["R"] / math.hypot(*p) >= 1e-3 for p in case["pairs"])
    if k == "wall":
        return case["R"] / case["h"] >= 1e-3
    if k == "couple":
        return case["R"] / case["d"] >= 1e-3
    if k in ("lor", "diode", "blur", "alias", "drag", "hydro", "passive", "passiveblur", "passivealias"):
        return case["f"] > 0
    return True


def tags(case, r):
    t = {"op": case["op"]}
    if case["op"] == "contact":
        # F14: the Stimson-Jeffery series is evaluated in bispherical coordinates that degenerate at contact
        t["stimson_gap_below_1e-8_radius"] = (case["d"] - 2 * case["R"]) / case["R"] < 1e-8
    if case["op"] == "axis":
        # F-C20-1: the Lorentzian squares the frequency in the dtype of the axis
        bits = axis_int_bits(case["dtype"])
        cfg = case.get("cfg")
        t["axis_spectrum"] = ("lorentzian" if case["fn"] == "lor" or (case["fn"] == "model" and not cfg["hydrodynamically_correct"]) else
                              "hydrodynamic" if case["fn"] in ("hydro", "model") else case["fn"])
        t["frequency_squared_leaves_integer_axis_dtype"] = bits is not None and max(case["axis"]) ** 2 >= 2.0 ** bits
    return t


def _in_generated_domain(c):
    """rounding a number must not carry a case out of the domain the generators keep to (ASSUMPTIONS): the Brenner factor is
    singular at h = R (the oracle's exact denominator is 0 there), beads do not overlap"""
    k = c["op"]
    if k == "wall":
        lo = c["R"] if c.get("no_brenner") else c["R"] * (1 + 1e-3)
        return c["h"] >= lo and c["h2"] >= lo
    if k == "couple":
        return min(c["d"], c["d2"]) >= 2 * c["R"] * (1 + 1e-6)
    if k == "stimson2":
        return c["d"] >= (c["R1"] + c["R2"]) * (1 + 1e-6)
    return True


def shrink(case):
    for c in _shrink_raw(case):
        if c.get("expect") is not None or _in_generated_domain(c):
            yield c


def _shrink_raw(case):
    """move numbers toward round values (keeps the case kind); nothing structural to drop"""
    for key, v in list(case.items()):
        if isinstance(v, float) and v != 0 and key not in ("h2", "d2", "T2", "m2"):
            r = float(f"{v:.2g}")
            if r != v:
                c = dict(case)
                c[key] = r
                if key == "h" and "h2" in c:
                    c["h2"] = r * (case["h2"] / case["h"])
                if key == "d" and "d2" in c:
                    c["d2"] = r * (case["d2"] / case["d"])
                if key == "T" and "T2" in c:
                    c["T2"] = r + (case["T2"] - case["T"])
                if key == "m" and "m2" in c:
                    c["m2"] = r + (case["m2"] - case["m"])
                yield c
    for key in ("steps", "queries", "calls", "pairs", "axis"):  # shorten the sequence
        if key in case and len(case[key]) > (0 if key == "steps" and case["op"] in ("setdrag", "fixeddiode", "axis") else 1):
            for j in range(len(case[key])):
                c = dict(case)
                c[key] = case[key][:j] + case[key][j + 1:]
                yield c
    for key in ("calls", "pairs"):  # round the numbers inside
        for j, item in enumerate(case.get(key, [])):
            for i, v in enumerate(item):
                r = float(f"{v:.2g}")
                if r != v and (key == "calls" or r != 0):
                    c = dict(case)
                    c[key] = [list(x) for x in case[key]]
                    c[key][j][i] = r
                    yield c
    if "queries" in case:  # one temperature per query
        for j, q in enumerate(case["queries"]):
            if len(q["T"]) > 1:
                for t in q["T"]:
                    c = dict(case)
                    c["queries"] = case["queries"][:j] + [dict(q, T=[t])] + case["queries"][j + 1:]
                    yield c
    if "cfg" in case:
        for key, v in case["cfg"].items():
            if isinstance(v, float) and v != 0:
                r = float(f"{v:.2g}")
                if r != v:
                    c = dict(case)
                    c["cfg"] = dict(case["cfg"])
                    c["cfg"][key] = r
                    yield c


# ------------------------------------------------------------------ generators


def logspace(a, b, n):
    return [float(a * (b / a) ** (i / (n - 1))) for i in range(n)]


def linspace(a, b, n):
    return [float(a + (b - a) * i / (n - 1)) for i in range(n)]


def gamma0_of(eta, R):
    return 6 * PI * eta * R


def base_cfg(**kw):
    c = {"bead_diameter": 1.0, "viscosity": None, "temperature": 20.0, "hydrodynamically_correct": False,
         "distance_to_surface": None, "rho_sample": None, "rho_bead": 1060.0, "fast_sensor": False, "axial": False}
    c.update(kw)
    return c


def passive_case(stream, cfg, f, fc, D, fd=14000.0, alpha=0.3, op="passive", **extra):
    c = {"stream": stream, "op": op, "cfg": cfg, "f": float(f), "fc": float(fc), "D": float(D), "fd": float(fd), "alpha": float(alpha)}
    c.update(extra)
    return c


def malformed(rng, count):
    """cases whose only oracle is 'the documented error, never data'"""
    out = []
    bad_cfgs = [
        (base_cfg(bead_diameter=0.009), "ValueError", "bead diameter < 1e-2 um"),
        (base_cfg(bead_diameter=0.0), "ValueError", "bead diameter 0"),
        (base_cfg(bead_diameter=-1.0), "ValueError", "negative bead diameter"),
        (base_cfg(distance_to_surface=0.49), "ValueError", "distance < radius"),
        (base_cfg(distance_to_surface=0.0), "ValueError", "distance 0"),
        (base_cfg(distance_to_surface=-2.0), "ValueError", "negative distance"),
        (base_cfg(viscosity=0.0003), "ValueError", "viscosity <= 0.0003"),
        (base_cfg(viscosity=0.0), "ValueError", "viscosity 0"),
        (base_cfg(viscosity=-1e-3), "ValueError", "negative viscosity"),
        (base_cfg(temperature=5.0), "ValueError", "temperature 5"),
        (base_cfg(temperature=90.0), "ValueError", "temperature 90"),
        (base_cfg(temperature=-3.0), "ValueError", "temperature < 5"),
        (base_cfg(temperature=150.0), "ValueError", "temperature > 90"),
        (base_cfg(hydrodynamically_correct=True, axial=True), "NotImplementedError", "hydro + axial"),
        (base_cfg(hydrodynamically_correct=True, axial=True, distance_to_surface=0.6), "NotImplementedError", "hydro + axial near surface"),
        (base_cfg(hydrodynamically_correct=True, distance_to_surface=0.7499), "ValueError", "hydro with l/R < 1.5"),
        (base_cfg(hydrodynamically_correct=True, distance_to_surface=0.5), "ValueError", "hydro at contact"),
        (base_cfg(hydrodynamically_correct=True, rho_sample=99.0), "ValueError", "sample density < 100"),
        (base_cfg(hydrodynamically_correct=True, rho_bead=99.9), "ValueError", "bead density < 100"),
        (base_cfg(hydrodynamically_correct=True, rho_bead=-1060.0), "ValueError", "negative bead density"),
        (base_cfg(hydrodynamically_correct=True, axial=True, temperature=95.0), "ValueError", "temperature checked before axial"),
    ]
    for cfg, err, why in bad_cfgs:
        out.append(passive_case("malformed", cfg, 1000.0, 500.0, 1.0, expect=err, why=why))
    for T, m, p, why in [(19.99, 1.0, 1.0, "T < 20"), (150.0, 1.0, 1.0, "T >= 150"), (25.0, 1.0, 35.01, "p > 35"),
                         (25.0, 6.01, 1.0, "m > 6"), (-5.0, 0.0, 0.101325, "T < 20"), (200.0, 7.0, 40.0, "all out")]:
        out.append({"stream": "malformed", "op": "saltbad", "which": "dens", "T": T, "m": m, "p": p, "expect": "ValueError", "why": why})
    for T, m, p, why in [(19.0, 1.0, 1.0, "T < 20"), (151.0, 0.5, 1.0, "T >= 150"), (25.0, 1.0, 36.0, "p > 35"), (25.0, 7.5, 1.0, "molarity beyond the density model")]:
        out.append({"stream": "malformed", "op": "saltbad", "which": "visc", "T": T, "m": m, "p": p, "expect": "ValueError", "why": why})
        out.append({"stream": "malformed", "op": "saltbad", "which": "dens_api", "T": T, "m": m, "p": p, "expect": "ValueError", "why": why})
    for T, why in [(-20.01, "T < -20"), (110.0, "T >= 110"), (-300.0, "below absolute zero"), (1000.0, "T >= 110")]:
        out.append({"stream": "malformed", "op": "visc", "T": T, "T2": T, "expect": "ValueError", "why": why})
    for R1, R2, d, why in [(1.0, 1.0, 1.9, "overlap"), (1.0, 2.0, 2.5, "overlap"), (0.5, 0.5, 0.0, "zero distance")]:
        out.append({"stream": "malformed", "op": "stimsonbad", "R1": R1, "R2": R2, "d": d, "expect": "ValueError", "why": why})
    for R1, R2, d, why in [(1.0, 1.0, 1.9999, "overlap"), (0.1, 4.0, 4.0, "small bead inside the large one"), (2.0, 1.0, 0.0, "zero distance")]:
        out.append({"stream": "malformed", "op": "bispherical", "R1": R1, "R2": R2, "d": d, "expect": "ValueError", "why": why})
    for fix, why in [([None, -0.1], "relaxation factor < 0"), ([None, 1.0001], "relaxation factor > 1"), ([14000.0, 2.0], "relaxation factor > 1"),
                     ([0.0, None], "diode frequency 0"), ([-14000.0, 0.5], "negative diode frequency"), ([0.0, 0.0], "diode frequency 0")]:
        out.append(fixeddiode_case("malformed", base_cfg(), 1000.0, 500.0, 1.0, fix, [[14000.0, 0.4]], [], expect="ValueError", why=why))
    out.append(fixeddiode_case("malformed", base_cfg(temperature=95.0), 1000.0, 500.0, 1.0, [None, 0.5], [[14000.0, 0.4]], [], expect="ValueError",
                               why="model temperature > 90"))
    for pairs, why in [([[3.0, 0.0], [0.5, 0.5], [4.0, 1.0]], "one overlapping bead pair among valid ones"), ([[0.0, 0.0], [5.0, 0.0]], "zero distance")]:
        out.append({"stream": "malformed", "op": "couplevec", "R": 0.5, "pairs": pairs, "is_y": False, "rot": True, "form": "array",
                    "expect": "ValueError", "why": why})
    r = rng.fork("c20-malformed")
    for i in range(count):
        s = r.fork(i)
        kind = s.randint(0, 7)
        d = s.loguniform(0.2, 8.0)
        if kind == 0:
            cfg, err, why = base_cfg(bead_diameter=s.choice([s.uniform(-1, 0.00999), 0.00999])), "ValueError", "diameter"
        elif kind == 1:
            cfg, err, why = base_cfg(bead_diameter=d, distance_to_surface=d / 2 * s.choice([s.uniform(-1, 0.999), 0.999999])), "ValueError", "distance < radius"
        elif kind == 2:
            cfg, err, why = base_cfg(bead_diameter=d, viscosity=s.choice([s.uniform(-1e-3, 0.0003), 0.0003])), "ValueError", "viscosity"
        elif kind == 3:
            cfg, err, why = base_cfg(bead_diameter=d, temperature=s.choice([s.uniform(-50, 5), s.uniform(90, 200), 5.0, 90.0])), "ValueError", "temperature"
        elif kind == 4:
            cfg, err, why = base_cfg(bead_diameter=d, hydrodynamically_correct=True, axial=True,
                                     distance_to_surface=s.choice([None, d * s.uniform(0.5, 3)])), "NotImplementedError", "hydro+axial"
        elif kind == 5:
            cfg, err, why = base_cfg(bead_diameter=d, hydrodynamically_correct=True,
                                     distance_to_surface=d / 2 * s.choice([s.uniform(1.0, 1.4999), 1.4999])), "ValueError", "hydro l/R < 1.5"
        elif kind == 6:
            cfg, err, why = base_cfg(bead_diameter=d, hydrodynamically_correct=True, rho_sample=s.uniform(-10, 99.99)), "ValueError", "rho_sample"
        else:
            cfg, err, why = base_cfg(bead_diameter=d, hydrodynamically_correct=True, rho_bead=s.uniform(-10, 99.99)), "ValueError", "rho_bead"
        out.append(passive_case("malformed", cfg, s.loguniform(0.1, 1e5), s.loguniform(10, 2e4), 1.0, expect=err, why=why, subseed=i))
    return out


def corpus():
    # reference points (Huber et al. 2009 / IAPWS tables at 0.1 MPa), boundary inputs, round numbers
    for T, ref in [(0.0, 1791.1e-6), (10.0, 1305.9e-6), (20.0, 1001.6e-6), (25.0, 890.02e-6), (40.0, 652.73e-6),
                   (60.0, 466.03e-6), (80.0, 354.05e-6), (100.0, 281.58e-6)]:
        yield {"stream": "corpus", "op": "visc", "T": T, "T2": T + 1.0, "reference": ref, "reftol": 2e-3}
    yield {"stream": "corpus", "op": "visc", "T": -20.0, "T2": 109.99999}
    yield {"stream": "corpus", "op": "visc", "T": 26.85, "T2": 26.850001, "reference": 853.72003e-6, "reftol": 1e-12}
    yield {"stream": "corpus", "op": "lor", "f": 0.0, "fc": 1000.0, "D": 1.0}
    yield {"stream": "corpus", "op": "lor", "f": 1000.0, "fc": 1000.0, "D": 2.0}
    yield {"stream": "corpus", "op": "diode", "f": 0.0, "fd": 14000.0, "alpha": 0.3}
    yield {"stream": "corpus", "op": "diode", "f": 14000.0, "fd": 14000.0, "alpha": 0.0}
    yield {"stream": "corpus", "op": "diode", "f": 1e5, "fd": 1.0, "alpha": 1.0}
    for x in (0.0, -0.0, 1.0, 0.5, 1e-20, 1e-300, 2.5, -3.0, 1e-9):
        yield {"stream": "corpus", "op": "sinc", "x": x}
    yield {"stream": "corpus", "op": "wall", "R": 1.0, "h": 1.0, "h2": 1.5, "no_brenner": True}  # contact: Faxen defined, Brenner singular
    yield {"stream": "corpus", "op": "wall", "R": 0.5e-6, "h": 0.5005e-6, "h2": 0.501e-6}
    yield {"stream": "corpus", "op": "wall", "R": 0.5e-6, "h": 0.75e-6, "h2": 1.0e-6}
    yield {"stream": "corpus", "op": "couple", "R": 0.5, "d": 1.0001, "d2": 1.0002, "theta": 0.0, "is_y": False, "rot": True}
    yield {"stream": "corpus", "op": "couple", "R": 0.5, "d": 1.001, "d2": 2.0, "theta": 0.3, "is_y": True, "rot": False}
    # F14 (open) lives in corpus/C20/F14_stimson_one_ulp_gap.json; a gap of 1e-5 R is fine:
    yield {"stream": "corpus", "op": "contact", "R": 1.0, "d": 2.00001}
    yield {"stream": "corpus", "op": "couple", "R": 2.2, "d": 440.0, "d2": 441.0, "theta": 1.2, "is_y": False, "rot": False}
    yield {"stream": "corpus", "op": "salt", "T": 20.0, "m": 0.0, "p": 0.101325, "m2": 0.01, "T2": 20.5}
    yield {"stream": "corpus", "op": "salt", "T": 25.0, "m": 1.0, "p": 0.101325, "m2": 1.01, "T2": 25.5}
    yield {"stream": "corpus", "op": "salt", "T": 149.999, "m": 5.9, "p": 35.0, "m2": 6.0, "T2": 149.9995}
    yield {"stream": "corpus", "op": "salt", "T": 20.0, "m": 5.9, "p": 0.1, "m2": 6.0, "T2": 21.0}
    yield passive_case("corpus", base_cfg(bead_diameter=4.89, temperature=25.0, hydrodynamically_correct=True), 1000.0, 1500.0, 0.5)
    yield passive_case("corpus", base_cfg(bead_diameter=1.0, distance_to_surface=0.5), 1000.0, 1500.0, 0.5)  # Faxen at contact
    yield passive_case("corpus", base_cfg(bead_diameter=1.0, distance_to_surface=0.75, hydrodynamically_correct=True), 37000.0, 4000.0, 0.5)
    yield passive_case("corpus", base_cfg(bead_diameter=1.0, distance_to_surface=0.6, axial=True, viscosity=1.1e-3), 10.0, 400.0, 0.5)
    yield passive_case("corpus", base_cfg(bead_diameter=1.0, fast_sensor=True), 10.0, 400.0, 0.5)
    yield {"stream": "corpus", "op": "drag", "f": 0.0, "gamma0": 1.0, "rho": 997.0, "R": 0.5e-6, "l": 0.75e-6}
    yield {"stream": "corpus", "op": "drag", "f": 0.0, "gamma0": 1.0, "rho": 997.0, "R": 0.5e-6, "l": None}
    # the camera chain (exposure = 1 / sample rate, f up to Nyquist): blur, then aliasing; and the two steps the other way round
    cam = base_cfg(bead_diameter=1.0, fast_sensor=True)
    for f in (1.0, 125.0, 249.0, 250.0):
        yield passive_case("corpus", cam, f, 120.0, 0.5, op="chain", steps=[["B", 1 / 500.0], ["A", 500.0, 20]])
    yield passive_case("corpus", cam, 249.0, 120.0, 0.5, op="chain", steps=[["A", 500.0, 20], ["B", 1 / 500.0]])
    yield passive_case("corpus", base_cfg(bead_diameter=4.4, hydrodynamically_correct=True, viscosity=1.002e-3), 200.0, 120.0, 0.5,
                       op="chain", steps=[["B", 1 / 500.0], ["A", 500.0, 20], ["B", 1e-4]])
    # a bulk drag coefficient carried over to a hydrodynamically correct model near a surface (calibrate_force(..., drag=…))
    near = base_cfg(bead_diameter=1.0, hydrodynamically_correct=True, distance_to_surface=0.8, viscosity=1.002e-3, fast_sensor=True)
    yield setdrag_case("corpus", near, 10.0, 4000.0, 0.5, 1.0, [])
    yield setdrag_case("corpus", near, 3000.0, 4000.0, 0.5, 1.3, [["B", 1e-4], ["A", 78125.0, 3]])
    # the diode filter with fixed parameters (calibrate_force(..., fixed_diode=…, fixed_alpha=…)): the ends of the allowed range of
    # the relaxation factor ("between 0 and 1 (inclusive)"), each parameter fixed alone and both together, one object called repeatedly
    for fix in ([None, 0.0], [None, 1.0], [14000.0, 0.0], [14000.0, 1.0], [1.0, None], [14000.0, None], [None, 0.4], [None, None]):
        yield fixeddiode_case("corpus", base_cfg(), 3000.0, 1800.0, 0.37, fix, [[14000.0, 0.4], [9000.0, 0.0], [14000.0, 0.4], [30000.0, 1.0]], [])
    yield fixeddiode_case("corpus", base_cfg(bead_diameter=4.4, hydrodynamically_correct=True, distance_to_surface=5.0), 249.0, 120.0, 0.5,
                          [None, 0.0], [[200.0, 0.3], [240.0, 0.3]], [["B", 1 / 500.0], ["A", 500.0, 20]])
    # bead pairs evaluated in one call: the same geometry in every frame, a sweep of separations out to 100 diameters, mixed directions
    yield couplevec_case("corpus", 0.5, [[3.0, 3.0]] * 5, False, True, "array")
    yield couplevec_case("corpus", 0.5, [[1.5, 0.0], [3.0, 0.0], [4.0, 3.0], [-6.0, 1.0], [20.0, -5.0], [100.0, 0.0]], False, True, "array")
    yield couplevec_case("corpus", 2.2, [[0.0, 4.41], [4.41, 0.0], [-30.0, -40.0]], True, False, "list")
    yield couplevec_case("corpus", 1.0, [[2.5, 1.0]], True, True, "array")
    # two beads of different size, both ways round
    yield {"stream": "corpus", "op": "stimson2", "R1": 0.5, "R2": 2.0, "d": 2.625}
    yield {"stream": "corpus", "op": "stimson2", "R1": 0.1, "R2": 4.0, "d": 4.1 * 1.0002}
    yield {"stream": "corpus", "op": "stimson2", "R1": 4.0, "R2": 0.1, "d": 820.0}
    yield {"stream": "corpus", "op": "bispherical", "R1": 0.5, "R2": 2.0, "d": 2.625}
    yield {"stream": "corpus", "op": "bispherical", "R1": 1.0, "R2": 1.0, "d": 2.000002}
    # a buffer series looked up at the two ends of the pressure range, one after the other, in one process
    yield water_sequence("corpus", [("V", 20.0, 3.0, None), ("D", 20.0, 3.0, None), ("V", 20.0, 3.0, 35.0), ("D", 20.0, 3.0, 35.0),
                                    ("V", 20.0, 3.01, 35.0), ("D", 20.0, 3.01, 35.0), ("V", 20.0, 3.0, 0.1), ("D", 20.0, 3.0, 0.1)])
    # F23: a pressure alone is pure water at that pressure (used to raise TypeError)
    yield water_sequence("corpus", [("V", 25.0, None, 10.0), ("V", 25.0, 0.0, 10.0), ("V", [25.0, 30.0], None, 35.0), ("V", 25.0, 1e-6, 10.0),
                                    ("V", 19.0, None, 10.0)])
    yield water_sequence("corpus", [("V", [25.0, 60.0], 1.0, 35.0), ("V", 25.0, 1.0, 0.101325), ("V", 60.0, 1.0, 0.101325),
                                    ("D", [60.0, 25.0], 1.0, None), ("V", 25.0, None, None), ("V", 10.0, 1.0, 1.0), ("D", 25.0, 1.0, 35.0)])


def natural_drag(cfg):
    """3 pi eta d: the bulk Stokes drag coefficient of the model's own bead"""
    eta = cfg["viscosity"] if cfg["viscosity"] is not None else o_visc_huber(cfg["temperature"])
    return 3 * PI * eta * cfg["bead_diameter"] * 1e-6


def setdrag_case(stream, cfg, f, fc, D, k, steps, **kw):
    """the model evaluated, given the drag coefficient k * (its own Stokes drag), evaluated again, then wrapped"""
    return passive_case(stream, cfg, f, fc, D, op="setdrag", gamma=float(k * natural_drag(cfg)), steps=steps, **kw)


def fixeddiode_case(stream, cfg, f, fc, D, fix, calls, steps, **kw):
    """the model with FixedDiodeModel(*fix) as its filter (None = free), called once per [f_diode, alpha] of `calls`
    (only the free ones are passed), itself and behind the wrapper `steps`"""
    cfg = dict(cfg, fast_sensor=False)  # a fast sensor has no diode to fix
    c = {"stream": stream, "op": "fixeddiode", "cfg": cfg, "f": float(f), "fc": float(fc), "D": float(D),
         "fix": [None if v is None else float(v) for v in fix], "calls": [[float(a), float(b)] for a, b in calls], "steps": steps}
    c.update(kw)
    return c


def couplevec_case(stream, R, pairs, is_y, rot, form, **kw):
    """coupling_correction_2d(dx, dy, 2R, is_y, rot) for several bead pairs in one call (form: 'array' numpy arrays,
    'list' Python lists, 'scalar' two floats when there is one pair)"""
    c = {"stream": stream, "op": "couplevec", "R": float(R), "pairs": [[float(x), float(y)] for x, y in pairs], "is_y": bool(is_y),
         "rot": bool(rot), "form": form if (len(pairs) == 1 or form != "scalar") else "array"}
    c.update(kw)
    return c


def water_sequence(stream, queries, **kw):
    """queries: (fn, T | [T…], molarity | None, pressure | None) in the order they are sent"""
    qs = []
    for fn, T, c, p in queries:
        arr = isinstance(T, (list, tuple))
        qs.append({"fn": fn, "T": [float(t) for t in T] if arr else [float(T)], "scalar": not arr,
                   "c": None if c is None else float(c), "p": None if p is None else float(p)})
    c = {"stream": stream, "op": "waterseq", "queries": qs}
    c.update(kw)
    return c


CHAIN_SHAPES = ["B", "A", "BA", "AB", "BB", "AA", "BAB", "ABA", "BBA", "AAB"]


def axis_case(stream, fn, dtype, axis, **kw):
    """`fn` (lor | diode | drag | hydro | model) called ONCE with the frequencies `axis` held in a numpy array of `dtype`"""
    c = {"stream": stream, "op": "axis", "fn": fn, "dtype": dtype, "axis": [float(x) for x in axis]}
    c.update(kw)
    return c


def axis_top(dtype):
    """the largest frequency of the property's range (100 kHz) an axis of this dtype can hold"""
    return {"int16": 32767, "uint16": 65535}.get(dtype, 100000)


def axis_square_edge(dtype):
    """the largest frequency whose square still fits the axis' own integer dtype (beyond the range for int64; the 32-bit
    edges serve as plain values for float64 / int64 axes)"""
    bits = axis_int_bits(dtype)
    return math.isqrt(2 ** bits - 1) if bits is not None and bits < 40 else {"float64": 46340, "int64": 65535}[dtype]


def fit_axis(dtype, values):
    """the frequencies as this dtype holds them: integers 1..top for the integer dtypes, no frequency twice"""
    out = []
    for v in values:
        v = float(v) if dtype == "float64" else float(min(max(int(round(v)), 1), axis_top(dtype)))
        if v not in out:
            out.append(v)
    return out


def axis_fn_params(fn, R=2.2e-6, lr=None, fc=2500.0, D=0.37, eta=0.89e-3, rho_s=997.0, rho_b=1060.0):
    l = None if lr is None else lr * R
    if fn == "lor":
        return {"fc": fc, "D": D}
    if fn == "diode":
        return {"fd": fc * 4.1, "alpha": 0.4}
    if fn == "drag":
        return {"gamma0": gamma0_of(eta, R), "rho": rho_s, "R": R, "l": l}
    return {"fc": fc, "D": D, "gamma0": gamma0_of(eta, R), "R": R, "rho_s": rho_s, "rho_b": rho_b, "l": l}


def axis_grid(tier):
    """every spectral function x every container dtype x (an evenly spaced axis up to the top of the range; an axis around
    the frequency whose square leaves the dtype; thorough: a log-spaced axis, one frequency alone)"""
    q = tier == "quick"
    models = [
        (base_cfg(bead_diameter=1.07, temperature=24.0, fast_sensor=True), [[], [["B", 1 / 250000.0]]]),
        (base_cfg(bead_diameter=1.07, temperature=24.0, distance_to_surface=0.7, viscosity=1.2e-3), [[], [["A", 78125.0, 3]]]),
        (base_cfg(bead_diameter=4.4, temperature=24.0, hydrodynamically_correct=True, fast_sensor=True), [[], [["B", 1 / 250000.0], ["A", 250000.0, 3]]]),
        (base_cfg(bead_diameter=2.0, temperature=24.0, hydrodynamically_correct=True, distance_to_surface=1.6, rho_sample=1010.0), [[["B", 2e-6]], [["A", 250000.0, 2], ["B", 1 / 250000.0]]]),
        (base_cfg(bead_diameter=1.07, viscosity=1.2e-3, distance_to_surface=0.7, axial=True), [[], [["B", 1 / 250000.0], ["A", 250000.0, 3]]]),
    ]
    for dtype in AXIS_DTYPES:
        top, edge = axis_top(dtype), axis_square_edge(dtype)
        axes = [[top * k // 10 for k in range(1, 11)], [edge // 50, edge - 1, edge, edge + 1, 2 * edge, top]]
        if not q:
            axes += [logspace(1.0, top, 12), [top], [edge + 1], [0.1, 0.5, 2.5, 46341.5, 99999.9] if dtype == "float64" else [1, 2, 3, top - 1, top]]
        for ax in axes:
            ax = fit_axis(dtype, ax)
            yield axis_case("grid", "lor", dtype, ax, **axis_fn_params("lor", fc=3000.0))
            yield axis_case("grid", "diode", dtype, ax, **axis_fn_params("diode"))
            for lr in (None, 1.5):
                yield axis_case("grid", "drag", dtype, ax, **axis_fn_params("drag", lr=lr))
                for R in ((0.5e-6, 2.2e-6) if q else (0.1e-6, 0.5e-6, 1e-6, 2.2e-6, 4e-6)):
                    yield axis_case("grid", "hydro", dtype, ax, **axis_fn_params("hydro", R=R, lr=lr))
            for cfg, step_sets in models:
                for steps in step_sets:
                    yield axis_case("grid", "model", dtype, ax, cfg=cfg, steps=steps, fc=1800.0, D=0.37, fd=14000.0, alpha=0.3)


def random_axis_cases(tier, rng):
    """its own random stream (forked after all the others: adding it left every earlier case of a seed as it was)"""
    q = tier == "quick"
    r = rng.fork("c20-axis")
    for i in range(420 if q else 9000):
        s = r.fork(i)
        dtype = s.choice(["float64", "int64", "int32", "int32", "uint32", "int16", "uint16"])
        top, edge = axis_top(dtype), axis_square_edge(dtype)
        n = s.randint(1, 12)
        shape = s.choice(["arange", "arange", "log", "random", "edge"])
        if shape == "arange":  # k * df, as a spectrum's axis is; often ending at the top of the range
            step = s.choice([1, 10, 100, 1000, s.randint(1, max(1, top // n))])
            start = s.choice([step, top - step * (n - 1), top - step * (n - 1), s.randint(1, max(1, top - step * (n - 1)))])
            ax = [start + step * j for j in range(n)]
        elif shape == "log":
            ax = logspace(s.choice([0.1, 1.0, s.loguniform(0.1, 1e3)]), s.choice([top, top, s.loguniform(1e3, top)]), max(n, 2))
        elif shape == "random":
            ax = [s.choice([s.loguniform(0.1, top), s.uniform(0.1, top)]) for _ in range(n)]
        else:  # around the frequency whose square no longer fits the axis' dtype, and the top of the range
            pool = [edge - 1, edge, edge + 1, edge + 2, 2 * edge, top, top - 1, s.uniform(edge, max(edge + 1, top)), s.loguniform(1.0, edge)]
            ax = s.sample(pool, min(n, len(pool)))
        if dtype == "float64" and s.chance(0.4):
            ax = [float(round(v)) if v >= 1 else v for v in ax]  # integer-valued frequencies in a float axis
        ax = fit_axis(dtype, ax)
        fc, D = s.loguniform(5.0, 3e4), s.loguniform(1e-4, 1e2)
        R = s.choice([s.loguniform(0.1e-6, 4e-6)] * 6 + [0.1e-6, 4e-6])
        eta = s.loguniform(3.1e-4, 1e-2)
        rho_s, rho_b = s.uniform(700.0, 1400.0), s.choice([1060.0, s.uniform(100.0, 5000.0)])
        lr = s.choice([None, None, 1.5, s.loguniform(1.5, 1e3), s.loguniform(1.5, 3.0)])
        fn = s.choice(["lor", "diode", "drag", "hydro", "hydro", "model", "model", "model"])
        base = {"subseed": i}
        if fn == "diode":
            yield axis_case("random", fn, dtype, ax, fd=s.loguniform(1.0, 4e4), alpha=s.choice([0.0, 1.0, s.random(), s.random()]), **base)
        elif fn != "model":
            yield axis_case("random", fn, dtype, ax, **axis_fn_params(fn, R=R, lr=lr, fc=fc, D=D, eta=eta, rho_s=rho_s, rho_b=rho_b), **base)
        else:
            hyd = s.chance(0.6)
            axial = (not hyd) and s.chance(0.3)
            d = s.choice([s.loguniform(0.2, 8.0)] * 5 + [0.2, 8.0])
            lo = 1.5 if hyd else (1.001 if axial else 1.0)
            lrr = s.choice([None, lo, s.loguniform(lo, 3.0), s.loguniform(lo, 1e3)])
            cfg = base_cfg(bead_diameter=d, viscosity=s.choice([None, eta]), temperature=s.choice([s.uniform(5.001, 89.999), 20.0]),
                           hydrodynamically_correct=hyd, distance_to_surface=None if lrr is None else lrr * d / 2,
                           rho_sample=s.choice([None, rho_s]), rho_bead=rho_b, fast_sensor=s.chance(0.4), axial=axial)
            # a sampled spectrum lives below Nyquist: exposure times up to 0.9 / (the highest frequency of the axis), so that no
            # entry sits on a zero of the motion-blur factor (there the value is rounding noise of sin(pi k))
            fs_ = s.choice([2.0, 2.5, s.uniform(2.0, 20.0)]) * max(ax)
            T = s.choice([1 / fs_, 1 / fs_, s.uniform(0.05, 0.9) / max(ax), s.loguniform(1e-3, 0.9) / max(ax)])
            steps = s.choice([[], [], [["B", T]], [["A", s.choice([fs_, 78125.0]), s.choice([0, 1, 3, 10])]], [["B", T], ["A", fs_, s.randint(0, 10)]],
                              [["A", fs_, s.randint(0, 10)], ["B", T]], [["B", T], ["B", 0.37 * T]]])
            yield axis_case("random", fn, dtype, ax, cfg=cfg, steps=steps, fc=fc, D=D, fd=s.loguniform(1e3, 4e4), alpha=s.random(), **base)


def wall_case(stream, R, ratio, step, **kw):
    """distance h = ratio*R (ratio >= 1), neighbour h2 = h*(1+step)"""
    h = R * ratio
    c = {"stream": stream, "op": "wall", "R": float(R), "h": float(h), "h2": float(h * (1 + step))}
    c.update(kw)
    return c


def grid(tier):
    q = tier == "quick"
    nf = 13 if q else 49
    fs = logspace(0.1, 1e5, nf)
    radii = [0.1e-6, 0.5e-6, 2.2e-6, 4e-6] if q else logspace(0.1e-6, 4e-6, 9)
    # spectra
    for f in fs:
        for fc in ([50.0, 3000.0] if q else logspace(10, 3e4, 6)):
            yield {"stream": "grid", "op": "lor", "f": f, "fc": fc, "D": 0.37}
            yield {"stream": "grid", "op": "diode", "f": f, "fd": fc * 4.1, "alpha": 0.3 if fc < 100 else 0.85}
            yield {"stream": "grid", "op": "blur", "f": f, "T": 1.0 / 78125.0 if fc < 100 else 1e-3, "fc": fc, "D": 0.37, "peak": 1.3e-16}
            yield {"stream": "grid", "op": "alias", "f": f, "fs": 78125.0, "n": 10 if fc < 100 else 3, "fc": fc, "D": 0.37, "fd": 14000.0, "alpha": 0.4}
            yield {"stream": "grid", "op": "drivenlor", "fc": fc, "fd": f, "A": 0.5e-6}
    dist_ratios = [None, 1.5, 1.51, 2.0, 5.0, 30.0, 1000.0]
    for f in fs:
        for R in radii:
            for lr in (dist_ratios if not q else [None, 1.5, 2.0, 30.0]):
                l = None if lr is None else lr * R
                eta = 0.89e-3
                yield {"stream": "grid", "op": "drag", "f": f, "gamma0": gamma0_of(eta, R), "rho": 997.0, "R": R, "l": l}
                yield {"stream": "grid", "op": "hydro", "f": f, "fc": 2500.0, "D": 0.37, "A": 0.5e-6, "gamma0": gamma0_of(eta, R), "R": R,
                       "rho_s": 997.0, "rho_b": 1060.0, "l": l}
    for R in radii:
        for lr in [None, 1.5, 3.0, 100.0]:
            for fc in ([500.0] if q else [30.0, 500.0, 8000.0]):
                l = None if lr is None else lr * R
                yield {"stream": "grid", "op": "hydrolimit", "f": 1000.0, "f0": 1e-4, "R0": 1e-9, "fc": fc, "D": 0.37, "gamma0": gamma0_of(1e-3, R),
                       "R": R, "rho_s": 997.0, "rho_b": 1060.0, "l": l}
                yield {"stream": "grid", "op": "equip", "fc": fc, "D": 0.37, "gamma0": gamma0_of(1e-3, R), "R": R, "rho_s": 997.0,
                       "rho_b": 1060.0, "l": l}
    # wall corrections: R/h from 1 down to 1e-3 (and beyond)
    n = 40 if q else 400
    for i in range(n + 1):
        x = 1.0 - 0.999 * i / n  # R/h
        ratio = 1.0 / x
        if i == 0:
            ratio = 1.001
        yield wall_case("grid", 1.1e-6, ratio, 1e-3 if i % 2 else 0.25)
    for ratio in logspace(1.001, 1e6, 15 if q else 120):
        yield wall_case("grid", 0.5e-6, ratio, 0.1)
    # bead-bead coupling: separation from contact (d = 2R) to 100 diameters (d = 200 R) and beyond
    seps = logspace(2.001, 200.0, 12 if q else 80) + [2.0001, 1e4] + ([] if q else [2.0 + 1e-6])
    for j, sr in enumerate(seps):
        for th in ([0.0, 0.7, math.pi / 2] if q else [0.0, 0.3, 0.7, 1.2, math.pi / 2, 2.5, -1.0]):
            R = 2.2
            yield {"stream": "grid", "op": "couple", "R": R, "d": sr * R, "d2": sr * R * 1.05, "theta": th, "is_y": bool(j % 2), "rot": bool((j // 2) % 2)}
    # viscosity of water, -20 <= T < 110
    nT = 60 if q else 1300
    for i in range(nT):
        T = -20.0 + 130.0 * i / nT
        yield {"stream": "grid", "op": "visc", "T": T, "T2": min(109.999, T + (130.0 / nT if i % 2 else 1e-3))}
    # salt model: 20 <= T < 150, 0 <= m <= 6, p <= 35
    Ts = linspace(20.0, 149.5, 5 if q else 14)
    ms = [0.0, 1e-9, 0.5, 2.0, 5.8] if q else [0.0, 1e-9, 1e-3] + linspace(0.1, 5.8, 12)
    ps = [0.101325, 35.0] if q else [0.1, 0.101325, 1.0, 10.0, 35.0]
    for T in Ts:
        for m in ms:
            for p in ps:
                yield {"stream": "grid", "op": "salt", "T": T, "m": m, "p": p, "m2": m + 0.1, "T2": min(149.99, T + 0.4)}
    # PassiveCalibrationModel: option matrix x a few frequencies
    ncfg = 0
    for hyd in (False, True):
        for lr in (None, 1.0, 1.2, 1.5, 4.0):
            for axial in (False, True):
                for fast in (False, True):
                    for visc in (None, 1.2e-3):
                        if hyd and (axial or (lr is not None and lr < 1.5)):
                            continue
                        if lr == 1.0 and axial:
                            continue  # Brenner is singular at contact
                        d = 4.4 if hyd else 1.07
                        cfg = base_cfg(bead_diameter=d, viscosity=visc, temperature=24.0, hydrodynamically_correct=hyd,
                                       distance_to_surface=None if lr is None else lr * d / 2, rho_sample=None if fast else 1010.0,
                                       rho_bead=1060.0, fast_sensor=fast, axial=axial)
                        for f in ([0.1, 700.0, 1e5] if q else logspace(0.1, 1e5, 9)):
                            yield passive_case("grid", cfg, f, 1800.0, 0.37)
                        yield passive_case("grid", cfg, 1200.0, 1800.0, 0.37, op="passiveblur", T=2e-4)
                        yield passive_case("grid", cfg, 1200.0, 1800.0, 0.37, op="passivealias", fs=78125.0, n=10)
                        # wrappers composed on the model object, every order; slow (camera) and fast sampling
                        ncfg += 1
                        for j in range(2 if q else len(CHAIN_SHAPES)):
                            shape = CHAIN_SHAPES[(ncfg * 2 + j) % len(CHAIN_SHAPES)]
                            slow = bool((ncfg + j) % 2)
                            fs_, n_ = (3000.0, 6) if slow else (78125.0, 3)
                            steps = [["B", (1 / fs_ if i % 2 == 0 else 0.37 / fs_)] if ch == "B" else ["A", fs_ * (1 + i), n_]
                                     for i, ch in enumerate(shape)]
                            yield passive_case("grid", cfg, 0.41 * fs_, 1800.0 if not slow else 700.0, 0.37, op="chain", steps=steps)
                        # the same object before and after a drag coefficient is carried over, then wrapped
                        k_ = (1.0, 0.6, 2.5)[ncfg % 3]
                        steps = ([], [["B", 2e-4]], [["B", 1 / 3000.0], ["A", 3000.0, 6]], [["A", 78125.0, 3]])[(ncfg // 3) % 4]
                        for f in ([3.0, 1200.0] if q else logspace(0.1, 1e5, 7)):
                            yield setdrag_case("grid", cfg, f, 1800.0, 0.37, k_, steps)
    # the fixed diode filter: which parameter is fixed x the value it is fixed at (range ends included) x model kind x wrappers
    fixed_models = [base_cfg(bead_diameter=1.07, temperature=24.0),
                    base_cfg(bead_diameter=4.4, temperature=24.0, hydrodynamically_correct=True, distance_to_surface=4.0, rho_sample=1010.0),
                    base_cfg(bead_diameter=1.07, viscosity=1.2e-3, distance_to_surface=0.7, axial=True)]
    step_sets = [[], [["B", 2e-4]], [["B", 1 / 3000.0], ["A", 3000.0, 6]], [["A", 78125.0, 3]]]
    nfix = 0
    for a_fix in ([0.0, 0.3, 1.0] if q else [0.0, 1e-9, 0.1, 0.3, 0.5, 0.9, 1.0]):
        for fd_fix in ([14000.0] if q else [1.0, 500.0, 14000.0, 39062.5]):
            for fix in ([None, a_fix], [fd_fix, None], [fd_fix, a_fix]):
                for cfg in fixed_models:
                    nfix += 1
                    steps = step_sets[nfix % 4]
                    slow = any(st[0] == "A" and st[1] < 1e4 for st in steps)
                    calls = [[9000.0, 0.0], [14000.0, 0.45], [9000.0, 0.0], [20000.0, 1.0]]
                    calls = calls[nfix % 2:][:3]
                    for f in ([1200.0 if not slow else 1230.0] if q else ([3.0, 1200.0, 37000.0] if not slow else [3.0, 700.0, 1499.0])):
                        yield fixeddiode_case("grid", cfg, f, 1800.0 if not slow else 700.0, 0.37, fix, calls, steps)
    # coupling_correction_2d for arrays of bead pairs: N pairs x direction x rotation x container
    R = 2.2
    seps_v = logspace(2.005, 200.0, 7)
    ncv = 0
    for n in ([1, 2, 5] if q else [1, 2, 3, 5, 8]):
        for is_y in (False, True):
            for rot in (True, False):
                ncv += 1
                form = ("array", "list")[ncv % 2]
                th = (0.0, 0.7, math.pi / 2, 2.5, -1.0)[ncv % 5]
                # the same geometry in every frame; a sweep of separations along one direction; mixed directions and separations
                yield couplevec_case("grid", R, [[seps_v[ncv % 7] * R * math.cos(th), seps_v[ncv % 7] * R * math.sin(th)]] * n, is_y, rot, form)
                yield couplevec_case("grid", R, [[seps_v[(ncv + i) % 7] * R * math.cos(th), seps_v[(ncv + i) % 7] * R * math.sin(th)] for i in range(n)],
                                     is_y, rot, form)
                yield couplevec_case("grid", R, [[seps_v[(2 * ncv + 3 * i) % 7] * R * math.cos(th + 0.9 * i), seps_v[(2 * ncv + 3 * i) % 7] * R * math.sin(th + 0.9 * i)]
                                                 for i in range(n)], is_y, rot, "scalar" if n == 1 else form)
    # Stimson-Jeffery for two beads of different size (and the same pair the other way round)
    sizes = [0.1, 0.5, 2.2, 4.0] if q else [0.1, 0.25, 0.5, 1.0, 2.2, 4.0]
    for R1 in sizes:
        for R2 in sizes:
            for sr in ([1.0005, 1.05, 2.0, 30.0, 200.0] if q else [1.0002, 1.001, 1.01, 1.05, 1.3, 2.0, 5.0, 30.0, 100.0, 200.0, 1e4]):
                yield {"stream": "grid", "op": "stimson2", "R1": R1, "R2": R2, "d": (R1 + R2) * sr}
    # the bispherical coordinates the series is written in: every ordered pair of sizes x separations from contact + 1e-6 outwards
    for R1 in sizes:
        for R2 in sizes:
            for sr in [1.000001, 1.0002, 1.01, 1.3, 2.0, 30.0, 1e4]:
                yield {"stream": "grid", "op": "bispherical", "R1": R1, "R2": R2, "d": (R1 + R2) * sr}
    # the public water functions asked several things in a row: walk one coordinate, keep the other two
    Ts = [20.0, 52.4, 100.0, 149.5] if q else linspace(20.0, 149.5, 9)
    cs = [0.0, 1e-6, 0.5, 3.0, 4.7] if q else [0.0, 1e-9, 1e-6, 1e-3, 0.1, 0.5, 1.0, 2.0, 3.0, 4.0, 4.7]
    ps = [None, 0.1, 35.0] if q else [None, 0.1, 0.101325, 1.0, 10.0, 35.0]
    flip = 0
    for T in Ts:
        for c in cs:
            flip += 1
            order = ps if flip % 2 else ps[::-1]
            qs = [(fn, T, c, p) for p in order for fn in ("V", "D") if not (fn == "V" and p is None and c == 0.0)]
            qs += [(fn, T, c + 0.01, order[-1]) for fn in ("V", "D")]  # a slightly stronger solution at the last pressure
            yield water_sequence("grid", qs)
    for c in cs:
        for p in ps:
            flip += 1
            order = Ts if flip % 2 else Ts[::-1]
            if c == 0.0 and p is None:
                continue
            qs = [(("V", "D")[(i + flip) % 2], T, c, p) for i, T in enumerate(order)]
            qs += [("V", list(order), c, p), ("D", list(order[::-1]), c, p)]  # the same temperatures as one array
            yield water_sequence("grid", qs)
    for T in Ts:
        for p in ps:
            flip += 1
            order = cs if flip % 2 else cs[::-1]
            yield water_sequence("grid", [(fn, T, c, p) for c in order for fn in (("V", "D") if flip % 3 else ("D", "V"))
                                          if not (fn == "V" and p is None and c == 0.0)])


def random_cases(tier, rng):
    q = tier == "quick"
    N = 6000 if q else 140000
    r = rng.fork("c20-random")
    for i in range(N):
        s = r.fork(i)
        kind = s.choice(["lor", "diode", "blur", "alias", "drivenlor", "drag", "drag", "hydro", "hydro", "wall", "wall", "couple", "visc",
                         "salt", "passive", "passive", "passiveblur", "passivealias", "hydrolimit", "chain", "chain", "waterseq", "setdrag", "stimson2", "fixeddiode", "couplevec"]
                        + ([] if q and i % 8 else ["equip"]))
        f = s.choice([s.loguniform(0.1, 1e5)] * 6 + [0.1, 1e5])
        fc = s.loguniform(5.0, 3e4)
        D = s.loguniform(1e-4, 1e2)
        R = s.choice([s.loguniform(0.1e-6, 4e-6)] * 6 + [0.1e-6, 4e-6])
        eta = s.loguniform(3.1e-4, 1e-2)
        rho_s = s.uniform(700.0, 1400.0)
        rho_b = s.choice([1060.0, s.uniform(100.0, 5000.0)])
        lr = s.choice([None, None, 1.5, s.loguniform(1.5, 1e3), s.loguniform(1.5, 3.0)])
        l = None if lr is None else lr * R
        base = {"stream": "random", "subseed": i}
        if kind == "lor":
            yield {**base, "op": "lor", "f": f, "fc": fc, "D": D}
        elif kind == "diode":
            yield {**base, "op": "diode", "f": f, "fd": s.loguniform(1.0, 4e4), "alpha": s.choice([0.0, 1.0, s.random(), s.random()])}
        elif kind == "blur":
            yield {**base, "op": "blur", "f": f, "T": s.choice([1 / 78125.0, s.loguniform(1e-6, 1e-2), 1.0 / f]), "fc": fc, "D": D, "peak": s.loguniform(1e-20, 1e-10)}
        elif kind == "alias":
            yield {**base, "op": "alias", "f": f, "fs": s.choice([78125.0, s.loguniform(1e3, 1e6)]), "n": s.choice([0, 1, 2, 10, s.randint(0, 40)]),
                   "fc": fc, "D": D, "fd": s.loguniform(1e3, 4e4), "alpha": s.random()}
        elif kind == "drivenlor":
            yield {**base, "op": "drivenlor", "fc": fc, "fd": s.loguniform(1.0, 1e3), "A": s.loguniform(1e-8, 1e-5)}
        elif kind == "drag":
            yield {**base, "op": "drag", "f": s.choice([f, f, f, 0.0]), "gamma0": s.choice([gamma0_of(eta, R), 1.0]), "rho": rho_s, "R": R, "l": l}
        elif kind == "hydro":
            yield {**base, "op": "hydro", "f": f, "fc": fc, "D": D, "A": s.loguniform(1e-8, 1e-5), "gamma0": gamma0_of(eta, R), "R": R,
                   "rho_s": rho_s, "rho_b": rho_b, "l": l}
        elif kind == "hydrolimit":
            yield {**base, "op": "hydrolimit", "f": s.loguniform(0.1, 1e4), "f0": s.loguniform(1e-7, 1e-3), "R0": s.loguniform(1e-10, 1e-8), "fc": fc, "D": D,
                   "gamma0": gamma0_of(eta, R), "R": R, "rho_s": rho_s, "rho_b": rho_b, "l": l}
        elif kind == "equip":
            yield {**base, "op": "equip", "fc": fc, "D": D, "gamma0": gamma0_of(eta, R), "R": R, "rho_s": rho_s, "rho_b": rho_b, "l": l}
        elif kind == "wall":
            ratio = s.choice([1.001, s.loguniform(1.001, 1.1), s.loguniform(1.001, 10.0), s.loguniform(1.001, 1e3), s.loguniform(1e3, 1e8)])
            yield wall_case("random", R, ratio, s.choice([1e-6, 1e-3, 0.1, 1.0, s.loguniform(1e-9, 10.0)]), subseed=i)
        elif kind == "couple":
            sr = s.choice([2.001, 2.0 + s.loguniform(2e-4, 0.2), s.loguniform(2.001, 200.0), s.loguniform(2.001, 200.0), s.loguniform(200.0, 1e5)])
            Rb = R * 1e6
            yield {**base, "op": "couple", "R": Rb, "d": sr * Rb, "d2": sr * Rb * (1 + s.loguniform(1e-6, 10.0)), "theta": s.uniform(-math.pi, math.pi),
                   "is_y": s.chance(0.5), "rot": s.chance(0.5)}
        elif kind == "visc":
            T = s.choice([-20.0, s.uniform(-20.0, 109.9), s.uniform(-20.0, 109.9), s.uniform(5.0, 90.0), 109.9])
            yield {**base, "op": "visc", "T": T, "T2": min(109.99, T + s.loguniform(1e-5, 30.0))}
        elif kind == "waterseq":
            yield random_water_sequence(s, i)
        elif kind == "couplevec":
            Rb = R * 1e6
            n = s.choice([1, 2, 2, 3, 4, 5, 8])
            shape = s.choice(["same", "sweep", "mixed", "mixed"])
            th0 = s.choice([0.0, math.pi / 2, math.pi, s.uniform(-math.pi, math.pi), s.uniform(-math.pi, math.pi)])

            def sep():
                # (near contact the series needs ~1/sqrt(gap) summands per pair and call: that end belongs to `couple`)
                return s.choice([2.0 + s.loguniform(5e-3, 0.2), s.loguniform(2.01, 200.0), s.loguniform(2.01, 200.0), s.loguniform(2.01, 200.0),
                                 s.loguniform(2.01, 20.0), 200.0, s.loguniform(200.0, 1e4)])

            if shape == "same":
                sr = sep()
                pairs = [[sr * Rb * math.cos(th0), sr * Rb * math.sin(th0)]] * n
            elif shape == "sweep":
                pairs = [[sr * Rb * math.cos(th0), sr * Rb * math.sin(th0)] for sr in sorted(sep() for _ in range(n))]
            else:
                pairs = []
                for _ in range(n):
                    sr, th = sep(), s.choice([th0, s.uniform(-math.pi, math.pi)])
                    pairs.append([sr * Rb * math.cos(th), sr * Rb * math.sin(th)])
            yield couplevec_case("random", Rb, pairs, s.chance(0.5), s.chance(0.5), s.choice(["array", "array", "list", "scalar"]), subseed=i)
        elif kind == "stimson2":
            R2 = s.choice([s.loguniform(0.1e-6, 4e-6)] * 5 + [0.1e-6, 4e-6, R])
            # the series needs ~1/sqrt(gap) summands: gaps below 2e-3 of the summed radii are left to the corpus and the grid
            sr = s.choice([1.0 + s.loguniform(2e-3, 0.1), s.loguniform(1.01, 100.0), s.loguniform(1.01, 100.0), s.loguniform(1.01, 100.0),
                           s.loguniform(100.0, 1e4)] + ([1.0005] if i % 10 == 0 else []))
            Ra, Rb = R * 1e6, R2 * 1e6
            yield {**base, "op": "stimson2", "R1": Ra, "R2": Rb, "d": (Ra + Rb) * sr}
            yield {**base, "op": "bispherical", "R1": Ra, "R2": Rb, "d": (Ra + Rb) * s.choice([sr, 1.0 + s.loguniform(1e-6, 1.0), s.loguniform(1.0001, 1e4)])}
        elif kind == "salt":
            T = s.choice([20.0, s.uniform(20.0, 149.9), s.uniform(20.0, 149.9), s.uniform(20.0, 40.0)])
            m = s.choice([0.0, 5.9, s.uniform(0.0, 5.9), s.uniform(0.0, 5.9), s.loguniform(1e-9, 1.0)])
            p = s.choice([0.101325, 0.1, 35.0, s.loguniform(0.1, 35.0)])
            yield {**base, "op": "salt", "T": T, "m": m, "p": p, "m2": min(6.0, m + s.loguniform(1e-4, 1.0)), "T2": min(149.99, T + s.loguniform(1e-3, 20.0))}
        else:
            hyd = s.chance(0.5)
            axial = (not hyd) and s.chance(0.3)
            d = s.choice([s.loguniform(0.2, 8.0)] * 5 + [0.01, 0.2, 8.0])
            lo = 1.5 if hyd else (1.001 if axial else 1.0)
            lrr = s.choice([None, lo, s.loguniform(lo, 3.0), s.loguniform(lo, 1e3)])
            cfg = base_cfg(bead_diameter=d, viscosity=s.choice([None, eta]), temperature=s.choice([s.uniform(5.001, 89.999), 20.0, 5.0001, 89.9999]),
                           hydrodynamically_correct=hyd, distance_to_surface=None if lrr is None else lrr * d / 2,
                           rho_sample=s.choice([None, rho_s, 100.0]), rho_bead=s.choice([rho_b, 100.0]), fast_sensor=s.chance(0.3), axial=axial)
            extra = {}
            if kind == "passiveblur":
                extra = {"T": s.choice([1 / 78125.0, s.loguniform(1e-6, 1e-2)])}
            if kind == "passivealias":
                extra = {"fs": s.choice([78125.0, s.loguniform(1e3, 1e6)]), "n": s.choice([0, 1, 10, s.randint(0, 30)])}
            if kind == "fixeddiode":
                # which diode parameter is fixed, and at what: the ends of the allowed ranges are values like any other
                a_fix = s.choice([0.0, 1.0, s.random(), s.random(), s.loguniform(1e-12, 1.0)])
                fd_fix = s.choice([s.loguniform(1.0, 4e4), s.loguniform(1e3, 4e4), 14000.0, 1.0])
                fix = s.choice([[None, a_fix], [None, a_fix], [fd_fix, None], [fd_fix, a_fix], [fd_fix, a_fix], [None, None]])
                calls = [[s.loguniform(1e3, 4e4), s.choice([0.0, 1.0, s.random(), s.random()])] for _ in range(s.randint(1, 3))]
                if s.chance(0.6):
                    calls.append(list(calls[0]))  # … and once more what was asked first
                fs_ = s.choice([78125.0, 500.0, s.loguniform(1e2, 1e6)])
                steps = s.choice([[], [], [["B", s.loguniform(1e-6, 1e-2)]], [["A", fs_, s.choice([0, 1, 3, 10])]],
                                  [["B", 1 / fs_], ["A", fs_, s.randint(0, 20)]], [["A", fs_, s.randint(0, 10)], ["B", s.uniform(0.05, 1.0) / fs_]]])
                if steps:
                    f = s.choice([f, s.uniform(0.0, 0.5) * fs_, max(0.1, 0.5 * fs_ - 1.0)])
                yield fixeddiode_case("random", cfg, f, fc, D, fix, calls, steps, subseed=i)
                continue
            if kind == "setdrag":
                steps = s.choice([[], [], [["B", s.loguniform(1e-6, 1e-2)]], [["A", s.choice([78125.0, s.loguniform(1e3, 1e6)]), s.choice([0, 1, 3, 10])]],
                                  [["B", 1 / 500.0], ["A", 500.0, s.randint(0, 20)]]])
                yield setdrag_case("random", cfg, f, fc, D, s.choice([1.0, s.loguniform(0.2, 5.0), s.loguniform(0.2, 5.0)]), steps,
                                   fd=s.loguniform(1e3, 4e4), alpha=s.random(), subseed=i)
                continue
            if kind == "chain":
                fs_ = s.choice([78125.0, 500.0, s.loguniform(1e2, 1e6), s.loguniform(1e2, 1e4)])
                shape = s.choice(CHAIN_SHAPES + ["BA", "BA", "AB"])
                steps, cost = [], 1
                for ch in shape:
                    if ch == "B":
                        steps.append(["B", s.choice([1 / fs_, 1 / fs_, s.loguniform(1e-6, 1e-2), s.uniform(0.05, 1.0) / fs_])])
                    else:
                        n_ = s.choice([0, 1, 2, 10, 20, s.randint(0, 25)])
                        if cost * (2 * n_ + 1) > 1500:
                            n_ = 1
                        cost *= 2 * n_ + 1
                        steps.append(["A", s.choice([fs_, fs_, s.loguniform(1e2, 1e6)]), n_])
                extra = {"steps": steps}
                # a sampled spectrum lives below Nyquist
                f = s.choice([f, s.uniform(0.0, 0.5) * fs_, s.uniform(0.0, 0.5) * fs_, 0.5 * fs_, max(0.1, 0.5 * fs_ - 1.0)])
            yield passive_case("random", cfg, f, fc, D, fd=s.loguniform(1e3, 4e4), alpha=s.random(), op=kind, subseed=i, **extra)


def random_water_sequence(s, i):
    """3-10 queries drawn from small pools of temperatures, molarities and pressures, so that most queries repeat two
    coordinates of an earlier one and change the third; now and then a query outside the validity range"""
    hot = s.chance(0.3)
    t_hi = 149.9 if hot else 90.0
    c_hi = 4.7 if hot else 5.0
    t0 = s.choice([20.0, s.uniform(20.0, t_hi), s.uniform(20.0, min(t_hi, 40.0))])
    Tpool = [t0] + [min(t_hi, t0 + s.loguniform(1e-3, 60.0)) for _ in range(s.randint(0, 2))]
    c0 = s.choice([s.uniform(0.0, c_hi), s.uniform(0.0, c_hi), s.loguniform(1e-9, 1.0), c_hi, 0.0])
    cpool = [c0] + [min(c_hi, c0 + s.loguniform(1e-4, 1.0)) for _ in range(s.randint(0, 2))]
    ppool = s.sample([None, 0.101325, 0.1, 35.0, s.loguniform(0.1, 35.0), s.loguniform(0.1, 35.0)], s.randint(2, 3))
    qs = []
    for _ in range(s.randint(3, 10)):
        fn = s.choice(["V", "D"])
        T = s.choice(Tpool) if s.chance(0.8) else [s.choice(Tpool) for _ in range(s.randint(1, 3))]
        c, p = s.choice(cpool), s.choice(ppool)
        if s.chance(0.06):  # outside the validity range: the documented error, and nothing of it may stick
            T, c, p = s.choice([(s.uniform(-10.0, 19.99), c, p or 1.0), (s.uniform(150.0, 200.0), c, p or 1.0), (T, c, s.uniform(35.01, 80.0)),
                                (T, s.uniform(5.6, 9.0), p)])
        if fn == "V" and p is None and c == 0.0:
            c = None  # plain water: the Huber formula (its range is -20..110)
        elif fn == "V" and p is not None and (c == 0.0 or s.chance(0.08)) and s.chance(0.6):
            c = None  # a pressure alone: the salt model at 0 M (F23)
        qs.append((fn, T, c, p))
    return water_sequence("random", qs, subseed=i)


def load_corpus_files():
    import glob
    import json
    import os

    here = os.path.dirname(os.path.dirname(os.path.abspath(__file__)))
    for p in sorted(glob.glob(os.path.join(here, "corpus", "C20", "*.json"))):
        c = json.load(open(p))
        c = c.get("case", c)
        c["stream"] = "corpus"
        yield c


def _all_cases(tier, rng):
    yield from load_corpus_files()
    yield from corpus()
    if tier != "quick":
        # F14 at exact contact: NaN after 100000 summands (~6 s), thorough tier only
        yield {"stream": "corpus", "op": "contact", "R": 0.5, "d": 1.0}
    yield from malformed(rng, 60 if tier == "quick" else 1500)
    yield from grid(tier)
    yield from axis_grid(tier)
    yield from random_cases(tier, rng)
    yield from random_axis_cases(tier, rng)


def cases(tier, rng):
    _fresh_server()  # imports pylake while the cases are being generated
    sequences = []
    for c in _all_cases(tier, rng):
        if c["op"] == "waterseq":
            sequences.append(c["queries"])
        yield c
    fresh_process_prefetch(sequences)


def extra_coverage(results):
    kinds, errs, streams_kind = {}, {}, {}
    outside = 0
    near_wall = {"R/h>0.9": 0, "0.5-0.9": 0, "0.1-0.5": 0, "<0.1": 0}
    hydro_branch = {"bulk": 0, "surface": 0}
    fdec = {}
    chains, setdrag, unequal = {}, {}, {}
    fixedd = {"cases": 0, "calls": 0, "alpha_fixed_at_0": 0, "alpha_fixed_at_1": 0, "alpha_fixed_inside": 0, "f_diode_fixed": 0, "both_fixed": 0, "behind_wrappers": 0}
    cvec = {"cases": 0, "pairs": 0, "max_pairs": 0, "same_geometry_repeated": 0, "array": 0, "list": 0, "scalar": 0}
    axes = {"cases": 0, "frequencies": 0, "by_dtype": {}, "by_function": {}, "square_leaves_integer_dtype": 0, "reaching_100kHz": 0, "behind_wrappers": 0}
    wseq = {"sequences": 0, "queries": 0, "array_queries": 0, "invalid_queries": 0, "same_T_c_new_p": 0, "same_c_p_new_T": 0, "same_T_p_new_c": 0}
    for r in results:
        c = r["case"]
        if c["op"] == "chain":
            sh = "".join(st[0] for st in c["steps"])
            chains[sh] = chains.get(sh, 0) + 1
        if c["op"] == "setdrag":
            cf = c["cfg"]
            key = ("hydro" if cf["hydrodynamically_correct"] else "lorentzian") + ("+surface" if cf["distance_to_surface"] is not None else "+bulk")
            setdrag[key] = setdrag.get(key, 0) + 1
        if c["op"] == "fixeddiode":
            fd_, a_ = c["fix"]
            fixedd["cases"] += 1
            fixedd["calls"] += len(c["calls"])
            fixedd["f_diode_fixed"] += fd_ is not None
            fixedd["both_fixed"] += fd_ is not None and a_ is not None
            fixedd["behind_wrappers"] += bool(c["steps"])
            if a_ is not None:
                fixedd["alpha_fixed_at_0" if a_ == 0 else "alpha_fixed_at_1" if a_ == 1 else "alpha_fixed_inside"] += 1
        if c["op"] == "couplevec":
            cvec["cases"] += 1
            cvec["pairs"] += len(c["pairs"])
            cvec["max_pairs"] = max(cvec["max_pairs"], len(c["pairs"]))
            cvec["same_geometry_repeated"] += len(c["pairs"]) > 1 and all(p == c["pairs"][0] for p in c["pairs"])
            cvec[c["form"]] += 1
        if c["op"] == "axis":
            axes["cases"] += 1
            axes["frequencies"] += len(c["axis"])
            axes["by_dtype"][c["dtype"]] = axes["by_dtype"].get(c["dtype"], 0) + 1
            axes["by_function"][c["fn"]] = axes["by_function"].get(c["fn"], 0) + 1
            bits = axis_int_bits(c["dtype"])
            axes["square_leaves_integer_dtype"] += bits is not None and max(c["axis"]) ** 2 >= 2.0 ** bits
            axes["reaching_100kHz"] += max(c["axis"]) >= 1e5
            axes["behind_wrappers"] += bool(c.get("steps"))
        if c["op"] == "stimson2":
            ratio = max(c["R1"], c["R2"]) / min(c["R1"], c["R2"])
            key = "equal" if ratio == 1 else "ratio<2" if ratio < 2 else "ratio 2-10" if ratio < 10 else "ratio>=10"
            unequal[key] = unequal.get(key, 0) + 1
        if c["op"] == "waterseq":
            wseq["sequences"] += 1
            hist = []
            for qd, a in zip(c["queries"], r["impl"]):
                wseq["queries"] += 1
                wseq["array_queries"] += 0 if qd["scalar"] else 1
                wseq["invalid_queries"] += 1 if a.endswith("Error") else 0
                for t in qd["T"]:
                    cur = (t, qd["c"] or 0.0, qd["p"] or 0.101325)
                    for name, (x, y, z) in (("same_T_c_new_p", (0, 1, 2)), ("same_c_p_new_T", (1, 2, 0)), ("same_T_p_new_c", (0, 2, 1))):
                        if any(h[x] == cur[x] and h[y] == cur[y] and h[z] != cur[z] for h in hist):
                            wseq[name] += 1
                    hist.append(cur)
        kinds[c["op"]] = kinds.get(c["op"], 0) + 1
        for a in r["impl"]:
            if a.endswith("Error"):
                errs[a] = errs.get(a, 0) + 1
        outside += sum(1 for m in r["model"] if m == OUTSIDE)
        if c["op"] == "wall":
            x = c["R"] / c["h"]
            near_wall["R/h>0.9" if x > 0.9 else "0.5-0.9" if x > 0.5 else "0.1-0.5" if x > 0.1 else "<0.1"] += 1
        if c["op"] in ("drag", "hydro", "hydrolimit", "equip"):
            hydro_branch["bulk" if c["l"] is None else "surface"] += 1
        if "f" in c and c["f"] > 0:
            d = int(math.floor(math.log10(c["f"])))
            fdec[str(d)] = fdec.get(str(d), 0) + 1
    init = {}
    for r in results:
        cc = r["case"]
        if cc["op"] in ("passive", "passiveblur", "passivealias", "chain", "setdrag", "fixeddiode") and "cfg" in cc:
            cf = cc["cfg"]
            err = next((a for a in r["impl"] if a.endswith("Error")), None)
            key = ("rejected:" + err) if err else (("hydro" if cf["hydrodynamically_correct"] else "axial" if cf["axial"] else "lateral")
                                                  + ("+surface" if cf["distance_to_surface"] is not None else "+bulk")
                                                  + ("+given-viscosity" if cf["viscosity"] is not None else "+water-viscosity"))
            init[key] = init.get(key, 0) + 1
    salt = {"cases": 0, "m=0": 0, "m<=1e-6": 0, "m>5": 0, "p=35": 0, "T>=140": 0}
    for r in results:
        cc = r["case"]
        if cc["op"] == "salt":
            salt["cases"] += 1
            salt["m=0"] += cc["m"] == 0
            salt["m<=1e-6"] += 0 < cc["m"] <= 1e-6
            salt["m>5"] += cc["m"] > 5
            salt["p=35"] += cc["p"] == 35.0
            salt["T>=140"] += cc["T"] >= 140
    stim = {"model_asked": 0, "oracle_only(contact corpus)": 0, "gap<1e-3": 0, "gap 1e-3..1": 0, "gap>=1": 0, "bispherical_cases": kinds.get("bispherical", 0)}
    for r in results:
        for o, mo in zip(ops(r["case"]), r["model"]):
            if o.startswith("c20.stimsonlist"):
                stim["model_asked_for_arrays"] = stim.get("model_asked_for_arrays", 0) + 1
            elif o.startswith("c20.stimson"):
                stim["model_asked"] += 1
                cc = r["case"]
                r1, r2 = (cc["R"], cc["R"]) if cc["op"] == "couple" else (cc["R1"], cc["R2"])
                gap = cc["d"] / (r1 + r2) - 1
                stim["gap<1e-3" if gap < 1e-3 else "gap 1e-3..1" if gap < 1 else "gap>=1"] += 1
            elif o == "c20.outside stimson":
                stim["oracle_only(contact corpus)"] += 1
    return {"stimson_series": stim, "passive_init_branches": init, "salt_model_points": salt, "case_kinds": kinds, "error_kinds": errs, "explore_only_observables": outside, "wall_ratio_histogram": near_wall,
            "hydro_branches": hydro_branch, "frequency_decades": fdec, "wrapper_chain_shapes": chains, "set_drag_models": setdrag, "stimson_radius_ratios": unequal,
            "fixed_diode_filter": fixedd, "frequency_axes": axes, "coupling_2d_arrays": cvec, "water_query_sequences": wseq, "tolerance": "rel 1e-9 model vs implementation (complex drag: 1e-9 of the modulus)",
            "exhaustive": False,
            "exhaustive_note": "continuous domains: fixed dense grids + seeded random points; nothing is enumerated exhaustively"}
