"""C17 — editing, refining and saving tracks preserve the track data: correspondence + oracle
(see DESIGN.md 6/C17).  Real kymographs and groups come from harness/builders_tracks.py.

Private pylake members (DESIGN.md C17 "Robustness against refactorings"): only KymoTrackGroup._split_track /
._merge_tracks are called from here (anchored, no public twin; see `editor`); the builders' private shortcuts have
public twins (see builders_tracks).  A case that cannot be built or observed answers UNREACHABLE ("?"): skipped by
agree / oracle / nontrivial, counted in coverage.skipped_unreachable_cases."""
import io
import itertools
import json
import math
import os
import re
import tempfile
import warnings
from fractions import Fraction

# single-threaded BLAS/OpenMP: the arrays are tiny and spinning worker threads only slow the check down
for _v in ("OMP_NUM_THREADS", "OPENBLAS_NUM_THREADS", "MKL_NUM_THREADS"):
    os.environ.setdefault(_v, "1")

import numpy as np  # noqa: E402

import builders_tracks as B  # noqa: E402
from common import VERIF, Rng, enc_rat, errname

PROP = "C17"
THEOREMS = [
    "Verif.C17.export_order",
    "Verif.C17.export_empty",
    "Verif.C17.import_export_roundtrip",
    "Verif.C17.import_export_roundtrip_id",
    "Verif.C17.F4_witness",
    "Verif.C17.F8_witness",
    "Verif.C17.split_spec",
    "Verif.C17.split_refused",
    "Verif.C17.split_conserves",
    "Verif.C17.splitTrack_spec",
    "Verif.C17.splitTrack_refused",
    "Verif.C17.merge_conserves_undiscarded",
    "Verif.C17.merge_symmetric",
    "Verif.C17.merge_same_frame_refused",
    "Verif.C17.merge_others_unchanged",
    "Verif.C17.merge_sorted",
    "Verif.C17.filter_spec",
    "Verif.C17.filter_mem_iff",
    "Verif.C17.filter_sublist",
    "Verif.C17.filter_raises_minimum",
    "Verif.C17.filter_min_observable_sound",
    "Verif.C17.interpolate_times",
    "Verif.C17.interpolate_keeps_original",
    "Verif.C17.interpolate_on_segment",
    "Verif.C17.refine_fills_span",
    "Verif.C17.refine_span_sorted",
    "Verif.C17.gaussian_within_span",
    "Verif.C17.removeInRect_sublist",
    # deepening round D
    "Verif.C17.applyOp_preserves_wf",
    "Verif.C17.runProg_preserves_wf",
    "Verif.C17.runProg_no_new_nodes",
    "Verif.C17.split_merge_roundtrip",
    "Verif.C17.interpolate_idempotent",
    "Verif.C17.refine_refine_span",
    "Verif.C17.filter_filter",
    "Verif.C17.filter_idempotent",
    "Verif.C17.removeInRect_spec",
    "Verif.C17.file_roundtrip",
    "Verif.C17.file_roundtrip_spec",
    "Verif.C17.fmt6e_idempotent",
    "Verif.C17.fmt6e_accurate",
    "Verif.C17.roundtrip_twice",
    "Verif.C17.sumSignal_spec",
    "Verif.C17.sumSignal_negative_stop_wraps",
    "Verif.C17.centroid_offset_spec",
    "Verif.C17.centroid_true_centre",
    "Verif.C17.centroid_window_mean",
    "Verif.C17.centroid_refinement_fills_span",
    "Verif.C17.centroid_settled_offset",
]
RULE = (
    "corpus (F4: one single-node track, three delimiters; F8: kbp-calibrated and uncalibrated kymograph saved with "
    "sampled photon counts; corpus/C17/*.json) + exhaustive small scope (round trip: every group of 1-2 (thorough: 1-3) "
    "tracks drawn from 6 node shapes x 3 delimiters x sampling {None,0,1} x minimum-duration pattern {none, 0, 0.25, "
    "mixed} x calibration {um, kbp, pixel}; editing on one 3-track group: every split (all nodes -2..len+2, min_length "
    "0..3), every merge (all node pairs incl. -1 and len), every filter (L 0..5 x D on/off the line-time grid), "
    "interpolation of every non-empty subset of 6 scan lines; hand-written files: every assignment of 4 rows to track "
    "indices {0,1,3}) + seeded random (groups of 1-20 tracks x 1-200 nodes with gaps on real kymographs built through "
    "low_level / _kymo_from_array, calibrated in um / kbp / pixels, delimiters ; , tab, sampling widths None/0/1/2/5, both "
    "pixel origins, minimum durations representable and not representable with six decimals, tracks with and without "
    "photon counts; random programs of 1-8 split/merge/filter/interpolate/remove-in-rectangle operations; centroid and "
    "Gaussian refinement on synthetic spot images) + malformed stream (empty group, garbage cells, conflicting minimum "
    "durations, header-only file, out-of-range and negative nodes, same-frame merges, too small track width). "
    "Sub-pixel accuracy (5e-3 pixel) is asserted only for isolated spots (one track in the image, window >= 4 sigma, no "
    "background, noise-free expectation image). Spots next to the first / last pixel of the scan line, whose window is "
    "clipped by the image (centre 2.5 sigma .. window + 1.5 pixels from that pixel): small scope of 8 distances x both "
    "edges x every overlap strategy x refine_missing_frames on/off x centroid with/without bias correction, plus a seeded "
    "random stream; a lone such spot must be returned within 0.05 pixel (centroid: bound of the missing tail) / 0.25 "
    "pixel (Gaussian: optimizer termination on a clipped window; worst seen on the unchanged library 0.09). Non-trivial: round trip re-imported >= 1 track; program: at least one operation changed the group or was refused; "
    "refinement: a track with a gap or >= 2 tracks or a lone spot next to an image edge; %.6e: value with more than 7 significant digits. "
    "Deepening round D: every round trip also compares the title line, the file cell by cell, the import through titles and a "
    "second save/import; header variants (21 hand-written layouts x 3 delimiters + random); sample_from_image on every quarter "
    "pixel of a 6-pixel line x widths 0/1/2/5 x both origins; centroid refinement without bias correction on spot images "
    "(interior / next to an edge) and random photon-count images, coordinates kept 0.003-0.04 pixel away from rounding ties; "
    "refinement applied twice; small scopes for split->merge, interpolate twice, filter twice."
)
TRUSTED = [
    "np.savetxt / np.loadtxt / %.18e: the text round trip of a double is exact (asserted at relative 1e-15 by the oracle); "
    "the delimiter handling of np.savetxt / np.loadtxt is trusted; version line, titles and the look-up by title are modelled (CsvFile) and tied",
    "the centroid estimator without bias correction is modelled (zero-padded convolutions, pixel walk) and tied at 1e-9; the bias-corrected "
    "centroid (unbiased_centroid, the default) and the scipy.optimize Gaussian MLE stay parameters of the model; "
    "their sub-pixel accuracy on noise-free spots is explored by the oracle with stated tolerances (5e-3 pixel), not proved",
    "exact rationals stand for the doubles of the code; float rounding of products/quotients is absorbed by the stated "
    "tolerances (round trip 1e-15 relative, editing 1e-9·scale), decisions on floats keep a margin (see ASSUMPTIONS)",
]
ASSUMPTIONS = [
    "kymograph pixel size and line time are non-zero; tracks are non-empty (KymoTrack._split never produces an empty one)",
    "scan-line indices of generated tracks are strictly increasing and inside the image (hypothesis StrictInc of the "
    "interpolation / merge-order theorems; np.interp is undefined otherwise); negative / out-of-range indices only "
    "appear as merge nodes in the malformed stream",
    "filter thresholds and rectangle bounds keep a relative margin of 1e-6 from every value they are compared with, "
    "except on kymographs whose line time is an exact binary fraction, where durations on the grid are compared exactly",
    "sampled photon counts: coordinates stay 1e-6 away from 0.5 (below one pixel float addition c+0.5 can round across an "
    "integer); everywhere else int(c+0.5) is exact on the doubles the model receives",
    "mixed groups (some tracks with, some without a minimum duration) lose the column on export as the code documents "
    "with a warning; the oracle expects None for every re-imported track in that case",
    "refinement next to an image edge: the true centre is asserted only for spots whose centre lies at least 2.5 sigma "
    "inside the image; closer to the edge the Gaussian MLE of the unchanged library stops up to 0.4 pixel from the true "
    "centre of a noise-free spot (L-BFGS-B default termination on a half-visible peak; with tight tolerances the same "
    "code recovers the centre to 1e-9) - observed, not asserted",
]

warnings.simplefilter("ignore")
TOL_RT = 1e-15  # relative, round trip (the property's own number)
TOL_EDIT = 1e-9  # relative to scale, interpolation / minimum durations
MD_TOL = 1e-12  # relative, minimum observable durations after editing (float products of line time and counts)
MD_TOL_LOSSY = 5e-7 + 1e-12  # the same when the duration could only be read from the %.6e CSV column (7 significant digits)
TOL_SPOT = 5e-3  # pixels, centroid refinement on noise-free interior spots (Gaussian: 0.05, optimiser termination)
# spots whose window is clipped by the first / last pixel of the scan line (centre >= 2.5 sigma inside the image):
#  centroid: the tail beyond the edge pixel is missing from the sum; one-sided truncation of a Gaussian at a >= 2.5 sigma
#            shifts its mean by sigma·phi(a)/Phi(a) <= 0.018 sigma <= 0.027 pixel for sigma <= 1.5 pixel
#  Gaussian: the MLE of the noise-free expectation image is the true centre, but L-BFGS-B stops on its relative-reduction
#            criterion and on a clipped window the amplitude / width / background valley is flat: worst seen on the
#            unchanged library 0.09 pixel (about 1 point in 3000 above 0.02).  A quarter pixel still separates the true
#            centre from any whole-pixel slip of the window bookkeeping.
TOL_SPOT_EDGE = {"refine": 0.05, "gauss": 0.25}
# Gaussian refinement with a fitting window of 3 or 4 pixels on either side, narrower than the spot (4 sigma = 4-6 pixels):
# the noise-free expectation image is still fitted exactly by the model, so the MLE is the true centre; worst seen on the
# unchanged library over 7000 points with window 3: 0.029 pixel (window 4: 0.009).  Windows WIDER than the spot are not
# asserted: with 8 pixels L-BFGS-B stops early about once in 60 points (up to 0.11 pixel).
TOL_SPOT_NARROW = 0.08
_TMP = tempfile.mkdtemp(prefix="verif_c17_")


# ------------------------------------------------------------------ building the real objects


def gen_image(k):
    npx, nl = k["n_pixels"], k["n_lines"]
    if k.get("img") == "spots":
        return None  # built from the tracks by the caller
    return np.random.default_rng(int(k.get("img_seed", 0))).integers(0, 10, size=(npx, nl))


def build_kymo(k, image):
    return B.make_kymo(
        image,
        route=k.get("route", "array"),
        calibration=k.get("cal", "um"),
        pixel_size_um=k.get("px_um", 0.1),
        line_time_s=k.get("lt"),
        dt_ns=k.get("dt_ns", 12800),
        samples_per_pixel=k.get("spp", 2),
        line_padding=k.get("pad", 1),
        kbp_length=k.get("kbp"),
    )


_CACHE = {"key": None, "val": None}


def prepare(case):
    """kymo + group of a case (memoised for the impl -> ops hand-over of common.evaluate)"""
    key = json.dumps(case, sort_keys=True, default=str)
    if _CACHE["key"] == key:
        return _CACHE["val"]
    try:
        val = _prepare(case)
    except B.Unreachable as e:
        # a private builder helper is gone and no public route expresses this request: the case is skipped ("?")
        val = {"unreachable": str(e)}
    _CACHE["key"], _CACHE["val"] = key, val
    return val


def _prepare_multi(case):
    """a group whose tracks come from several kymographs (case["k"], case["k_more"][0], ...): every track / truth entry
    names its kymograph with "kymo"; each kymograph's image holds the spots of its own tracks only"""
    kymotrack, _ = _kt()
    ks = [case["k"]] + list(case["k_more"])
    kymos = []
    for n, k in enumerate(ks):
        image = spot_image(case, kymo=n) if k.get("img") == "spots" else gen_image(k)
        kymos.append(B.make_kymo(image, route="array", calibration=k.get("cal", "um"), pixel_size_um=k.get("px_um", 0.1),
                                 line_time_s=k.get("lt", 0.125), kbp_length=k.get("kbp")))
    group = kymotrack.KymoTrackGroup([B.make_track(kymos[tr.get("kymo", 0)], tr["t"], tr["c"], min_duration=tr.get("md"),
                                                   counts_half_width=tr.get("hw")) for tr in case["tracks"]])
    info = B.kymo_info(kymos[0], calibration=ks[0].get("cal", "um"))
    return {"kymo": kymos[0], "kymos": kymos, "group": group, "info": info, "image": np.asarray(kymos[0].get_image("red")),
            "state0": B.group_state(group)}


def _prepare(case):
    if case.get("k_more"):
        return _prepare_multi(case)
    k = case["k"]
    if k.get("img") == "spots":
        image = spot_image(case)
        kymo = B.make_kymo(image, route="array", calibration=k.get("cal", "um"), pixel_size_um=k.get("px_um", 0.1),
                           line_time_s=k.get("lt", 0.125), kbp_length=k.get("kbp"))
        # the array route keeps float images as they are: noise-free expectation values
    else:
        image = gen_image(k)
        kymo = build_kymo(k, image)
    tracks = [{"t": tr["t"], "c": tr["c"], "min_duration": tr.get("md"), "counts_half_width": tr.get("hw")} for tr in case.get("tracks", [])]
    group = B.make_group(kymo, tracks)
    info = B.kymo_info(kymo, calibration=k.get("cal", "um"))  # the unit is the calibration asked for, not a private attribute
    return {"kymo": kymo, "group": group, "info": info, "image": np.asarray(kymo.get_image("red")), "state0": B.group_state(group)}


def spot_image(case, kymo=0):
    k = case["k"] if kymo == 0 else case["k_more"][kymo - 1]
    x = np.arange(k["n_pixels"], dtype=float)
    img = np.full((k["n_pixels"], k["n_lines"]), float(k.get("bg", 0.0)))
    for s in case["truth"]:
        if s.get("kymo", 0) != kymo:
            continue
        sig = s["sigma"]
        for t, c in zip(s["t"], s["c"]):
            img[:, t] += s["amp"] * np.exp(-0.5 * ((x - c) / sig) ** 2) / (sig * math.sqrt(2 * math.pi))
    return img


# ------------------------------------------------------------------ protocol encoding


def fr(x):
    return Fraction(x)


def enc_group(state):
    t = "[" + ";".join(",".join(str(int(v)) for v in tr["t"]) for tr in state) + "]"
    c = "[" + ";".join(",".join(enc_rat(v) for v in tr["c"]) for tr in state) + "]"
    m = "[" + ",".join("N" if tr["min_duration"] is None else enc_rat(tr["min_duration"]) for tr in state) + "]"
    kk = "[" + ";".join("N" if tr["counts"] is None else ",".join(str(int(v)) for v in tr["counts"]) for tr in state) + "]"
    return f"{t} {c} {m} {kk}"


def dec_group(s):
    """inverse of the model's showGroup -> list of dicts with Fractions"""
    t, c, m, kk = s.split(" ")

    def rows(tok, f):
        inner = tok[1:-1]
        if inner == "":
            return []
        return [[f(x) for x in r.split(",")] if r != "" else [] for r in inner.split(";")]

    ts = rows(t, int)
    cs = rows(c, _rat)
    ms = [None if x == "N" else _rat(x) for x in m[1:-1].split(",")] if m != "[]" else []
    ks = [None if r == "N" else ([int(x) for x in r.split(",")] if r else []) for r in kk[1:-1].split(";")] if kk != "[]" else []
    if not (len(ts) == len(cs) == len(ms) == len(ks)):
        raise ValueError("ragged group " + s[:100])
    return [{"t": a, "c": b, "min_duration": d, "counts": e} for a, b, d, e in zip(ts, cs, ms, ks)]


def _rat(x):
    p, _, q = x.partition("/")
    return Fraction(int(p), int(q or 1))


def enc_kymo(info):
    u = "N" if info["pixelsize_um"] is None else enc_rat(info["pixelsize_um"])
    return f"{enc_rat(info['pixelsize'])} {u} {enc_rat(info['line_time'])}"


def enc_image(image):
    # scan line by scan line: img[t] = the pixels of line t
    return "[" + ";".join(",".join(str(int(v)) for v in image[:, t]) for t in range(image.shape[1])) + "]"


def relclose(a, b, tol):
    a, b = Fraction(a), Fraction(b)
    return abs(a - b) <= Fraction(tol) * max(abs(a), abs(b))


def scaleclose(a, b, tol, scale):
    return abs(Fraction(a) - Fraction(b)) <= Fraction(tol) * (abs(Fraction(scale)) + 1)


# ------------------------------------------------------------------ reading the real CSV text (own parser)

TITLES = ["track index", "time (pixels)", "coordinate (pixels)", "time (seconds)"]


def parse_csv_text(text, delim):
    lines = text.split("\n")
    if lines and lines[-1] == "":
        lines.pop()
    if len(lines) < 2 or not lines[0].startswith("# ") or not lines[1].startswith("# "):
        return {"bad": "missing header lines"}
    m = re.fullmatch(r"# Exported with pylake v([\d\.]*) \| track coordinates v(\d)", lines[0])
    if not m:
        return {"bad": "version header: " + lines[0][:80]}
    titles = lines[1][2:].split(delim)
    rows = []
    for ln in lines[2:]:
        cells = ln.split(delim)
        if len(cells) != len(titles):
            return {"bad": f"row with {len(cells)} cells for {len(titles)} titles"}
        rows.append(cells)
    return {"version": int(m.group(2)), "titles": titles, "rows": rows}


def canon_rows(parsed):
    """rows in the model's format idx|t|c|sec|pos|count|mindur with floats as exact rationals"""
    titles = parsed["titles"]
    col = {t: i for i, t in enumerate(titles)}
    pos_t = [t for t in titles if t.startswith("position (")]
    cnt_t = [t for t in titles if t.startswith("counts (")]
    md_t = [t for t in titles if t.startswith("minimum observable duration")]
    out = []
    for r in parsed["rows"]:
        t = float(r[col["time (pixels)"]])
        out.append(
            "|".join(
                [
                    r[col["track index"]],
                    str(int(t)) if t == int(t) else "nonint",
                    enc_rat(float(r[col["coordinate (pixels)"]])),
                    enc_rat(float(r[col["time (seconds)"]])),
                    enc_rat(float(r[col[pos_t[0]]])) if pos_t else "nopos",
                    r[col[cnt_t[0]]] if cnt_t else "N",
                    enc_rat(float(r[col[md_t[0]]])) if md_t else "N",
                ]
            )
        )
    return "[" + ",".join(out) + "]"


# ------------------------------------------------------------------ implementation side


def _kt():
    """the documented module of KymoTrack / KymoTrackGroup / import_kymotrackgroup_from_csv (docs/api.rst) and the package,
    whose exported refine_tracks_centroid / refine_tracks_gaussian are the public names of the anchored functions"""
    import lumicks.pylake as lk
    from lumicks.pylake.kymotracker import kymotrack

    return kymotrack, lk


UNREACHABLE = "?"  # the harness could not build / observe this case without a private member that is gone: skipped
_EDITORS = {}
_EDITOR_SPECS = {"split": ("_split_track", 3), "merge": ("_merge_tracks", 4)}


def _probe_editor(kymotrack, kymo, which, f):
    """does `f` split / connect a two-track probe group the way the anchored method's docstring says?"""
    try:
        a = kymotrack.KymoTrack(np.array([0, 1, 2]), np.array([1.0, 1.5, 1.0]), kymo, "red", None)
        b = kymotrack.KymoTrack(np.array([3]), np.array([2.0]), kymo, "red", None)
        g = kymotrack.KymoTrackGroup([a, b])
        if which == "split":
            f(g, a, 1, 0)
            return sorted([int(x) for x in tr.time_idx] for tr in g) == [[0], [1, 2], [3]]
        f(g, a, 1, b, 0)
        return [[int(x) for x in tr.time_idx] for tr in g] == [[0, 1, 3]]
    except Exception:
        return False


def editor(kymotrack, kymo, which):
    """KymoTrackGroup._split_track / ._merge_tracks: anchored mechanisms of the property that only exist as private methods
    (the notebook widget is their only caller).  Taken by name; when a refactor renamed them: the single private plain
    method of the class with exactly that many required positional parameters and no others (3: track, node, minimum
    length; 4: track, node, track, node), accepted only after it split / connected a probe group correctly.
    Raises B.Unreachable otherwise (the case becomes "?")."""
    import inspect

    cls = kymotrack.KymoTrackGroup
    name, arity = _EDITOR_SPECS[which]
    tie = "KymoTrackGroup." + name
    if (cls, which) not in _EDITORS:
        f, how = getattr(cls, name, None), "direct"
        if f is None:
            cands = []
            for n, g in vars(cls).items():
                if inspect.isfunction(g) and n.startswith("_") and not n.startswith("__"):
                    ps = list(inspect.signature(g).parameters.values())[1:]
                    if len(ps) == arity and all(q.default is q.empty and q.kind == q.POSITIONAL_OR_KEYWORD for q in ps):
                        cands.append(g)
            f, how = (cands[0], "rediscovered") if len(cands) == 1 and _probe_editor(kymotrack, kymo, which, cands[0]) else (None, "unreachable")
        _EDITORS[(cls, which)] = (f, how)
    f, how = _EDITORS[(cls, which)]
    B._tie(tie, how)
    if f is None:
        raise B.Unreachable(f"{tie} is gone and no private method of KymoTrackGroup with {arity} parameters does its job")
    return f


def plus_twin(group, op, n):
    """PUBLIC twin of the anchored merge for the one merge the public API can express: connecting the last node of a
    track to the first node of a later one is `track + other` (KymoTrack.__add__)"""
    try:
        _, i, ni, j, nj = op
        a, b = group[i], group[j]
        if i != j and i >= 0 and j >= 0 and ni == len(a) - 1 and nj == 0 and int(a.time_idx[-1]) < int(b.time_idx[0]):
            return {"n": n, "state": state_json([B.track_state(a + b)])[0]}
    except B.Unreachable:
        raise
    except Exception:
        pass
    return None


def foreign_copy(kymotrack, track):
    """a track over the same span that is not a member of any group: the public `interpolate` keeps the original
    nodes (so every node index of the original stays valid) and always returns a new object"""
    return track.interpolate()


def with_aux(s, aux):
    return s + " ## " + json.dumps(aux)


def split_aux(s):
    a, sep, b = s.partition(" ## ")
    return a, (json.loads(b) if sep else {})


def state_json(state):
    return [{"t": tr["t"], "c": [float(x) for x in tr["c"]], "pos": [float(x) for x in tr["pos"]], "md": tr["min_duration"], "counts": tr["counts"]} for tr in state]


def impl(case):
    kind = case["kind"]
    if kind == "fmt":
        return [enc_rat(Fraction("%.6e" % float(case["x"])))]
    n_answers = 6 if kind == "rt" else 1
    prep = prepare(case)
    if "unreachable" in prep:
        return [with_aux(UNREACHABLE, {"why": prep["unreachable"]})] * n_answers
    partial = {}
    try:
        out = _impl(case, partial)
    except B.Unreachable as e:
        # a private member the observation needs is gone and has no public twin: skipped, never an implementation answer
        return [with_aux(UNREACHABLE, dict(partial, why=str(e)))] * n_answers
    if B.MD_LOSSY:  # minimum durations were read from the six-decimal CSV column (see builders_tracks.min_duration_of)
        out = [with_aux(a, dict(x, lossy_md=True)) for a, x in map(split_aux, out)]
    return out


def _impl(case, partial):
    kind = case["kind"]
    kymotrack, lk = _kt()
    if kind == "rt":
        prep = prepare(case)
        path = os.path.join(_TMP, "rt.csv")
        try:
            prep["group"].save(path, delimiter=case["delim"], sampling_width=case["sw"], correct_origin=case["co"])
        except Exception as e:
            return [errname(e)] * 6
        text = open(path).read()
        parsed = parse_csv_text(text, case["delim"])
        if "bad" in parsed:
            a1 = with_aux("bad-file", parsed)
        else:
            a1 = with_aux(canon_rows(parsed), {"version": parsed["version"], "titles": parsed["titles"]})
        try:
            # "io": "handle" — the saved text is handed over as an open text stream (io.StringIO) instead of a path
            src = io.StringIO(text) if case.get("io") == "handle" else path
            g2 = kymotrack.import_kymotrackgroup_from_csv(src, prep["kymo"], "red", delimiter=case["delim"])
            st = B.group_state(g2)
            a2 = with_aux(enc_group(st), {"state": state_json(st), "orig": state_json(prep["state0"])})
        except B.Unreachable:
            raise
        except Exception as e:
            a2 = "IOError" if isinstance(e, OSError) else errname(e)
        # a3: the column titles of the real file; a4: the import again, compared with the model's route through titles
        a3 = "bad-file" if "bad" in parsed else enc_titles(parsed["titles"])
        # a5: composition — the re-imported group saved and imported once more (roundtrip_twice)
        a5 = a2
        if not a2.endswith("Error"):
            try:
                path2 = os.path.join(_TMP, "rt2.csv")
                g2.save(path2, delimiter=case["delim"], sampling_width=case["sw"], correct_origin=case["co"])
                src2 = io.StringIO(open(path2).read()) if case.get("io") == "handle" else path2
                g3 = kymotrack.import_kymotrackgroup_from_csv(src2, prep["kymo"], "red", delimiter=case["delim"])
                st3 = B.group_state(g3)
                a5 = with_aux(enc_group(st3), {"state": state_json(st3), "first": state_json(st)})
            except B.Unreachable:
                raise
            except Exception as e:
                a5 = "IOError" if isinstance(e, OSError) else errname(e)
        # a6: the file cell by cell, in file order (positional, no look-up by title)
        if "bad" in parsed:
            a6 = "bad-file"
        else:
            a6 = f"{parsed['version']} {enc_titles(parsed['titles'])} [" + ";".join(",".join(enc_rat(float(x)) for x in r) for r in parsed["rows"]) + "]"
        return [a1, a2, a3, a2, a5, a6]
    if kind == "read":
        prep = prepare(case)
        path = os.path.join(_TMP, "read.csv")
        with open(path, "w") as f:
            f.write(handwritten_file(case, prep["info"]))
        try:
            g2 = kymotrack.import_kymotrackgroup_from_csv(path, prep["kymo"], "red", delimiter=case["delim"])
            st = B.group_state(g2)
            return [with_aux(enc_group(st), {"state": state_json(st)})]
        except B.Unreachable:
            raise
        except Exception as e:
            return ["IOError" if isinstance(e, OSError) else errname(e)]
    if kind == "sample":
        prep = prepare(case)
        try:
            return ["[" + ",".join(str(int(v)) for v in prep["group"][0].sample_from_image(case["w"], correct_origin=case["co"])) + "]"]
        except Exception as e:
            return [errname(e)]
    if kind == "hdr":
        prep = prepare(case)
        path = os.path.join(_TMP, "hdr.csv")
        with open(path, "w") as f:
            f.write(header_file(case))
        try:
            g2 = kymotrack.import_kymotrackgroup_from_csv(path, prep["kymo"], "red", delimiter=case["delim"])
            st = B.group_state(g2)
            return [with_aux(enc_group(st), {"state": state_json(st)})]
        except B.Unreachable:
            raise
        except Exception as e:
            return ["IOError" if isinstance(e, OSError) else errname(e)]
    if kind == "prog":
        prep = prepare(case)
        group = kymotrack.KymoTrackGroup(list(prep["group"]))
        states = [state_json(B.group_state(group))]
        errs = []
        plus = partial.setdefault("plus", [])
        for n, op in enumerate(case["ops"]):
            if op[0] == "m":
                tw = plus_twin(group, op, n)
                if tw is not None:
                    tw["pre"] = states[-1]
                    plus.append(tw)
            try:
                if op[0] == "s":
                    editor(kymotrack, prep["kymo"], "split")(group, group[op[1]], op[2], op[3])
                elif op[0] == "m":
                    editor(kymotrack, prep["kymo"], "merge")(group, group[op[1]], op[2], group[op[3]], op[4])
                elif op[0] == "x":
                    # a merge in which one of the two tracks is NOT a member of the group (an equal copy of a member)
                    ta, tb = group[op[1]], group[op[3]]
                    if op[5] == "a":
                        ta = foreign_copy(kymotrack, ta)
                    else:
                        tb = foreign_copy(kymotrack, tb)
                    editor(kymotrack, prep["kymo"], "merge")(group, ta, op[2], tb, op[4])
                elif op[0] == "f":
                    group.filter(minimum_length=op[1], minimum_duration=op[2])
                elif op[0] == "i":
                    group = kymotrack.KymoTrackGroup([tr.interpolate() for tr in group])
                elif op[0] == "r":
                    group.remove_tracks_in_rect([[op[1], op[2]], [op[3], op[4]]], all_points=bool(op[5]))
                else:
                    raise AssertionError(op)
                errs.append("-")
            except B.Unreachable:
                raise
            except Exception as e:
                errs.append(errname(e))
            states.append(state_json(B.group_state(group)))
        final = B.group_state(group)
        # the model is not told about foreign-track merges ("x"): a refused operation is the identity on the group, so the
        # model runs the program without them; their outcome is judged by the oracle (aux "errs" has one entry per op)
        shown = [e for op, e in zip(case["ops"], errs) if op[0] != "x"]
        return [with_aux("[" + ",".join(shown) + "] " + enc_group(final), {"states": states, "plus": plus, "errs": errs})]
    if kind == "refine":
        prep = prepare(case)
        try:
            r = lk.refine_tracks_centroid(prep["group"], track_width=case["width"], bias_correction=case["bias"])
        except Exception as e:
            return [errname(e)]
        st = B.group_state(r)
        return [with_aux(enc_times_md(st), {"state": state_json(st), "orig": state_json(prep["state0"])})]
    if kind == "centroid":
        # the numerical core: refined coordinates without bias correction (model: convolution moments + pixel walk)
        prep = prepare(case)
        try:
            r = lk.refine_tracks_centroid(prep["group"], track_width=case["width"], bias_correction=False)
        except Exception as e:
            return [errname(e)]
        st = B.group_state(r)
        return [with_aux(enc_times_coords(st), {"state": state_json(st), "orig": state_json(prep["state0"])})]
    if kind == "refine2":
        # composition: refining the refined tracks once more (refine_refine_span)
        prep = prepare(case)
        try:
            r1 = lk.refine_tracks_centroid(prep["group"], track_width=case["width"], bias_correction=case["bias"])
            r2 = lk.refine_tracks_centroid(r1, track_width=case["width"], bias_correction=case["bias"])
        except Exception as e:
            return [errname(e)]
        st1, st2 = B.group_state(r1), B.group_state(r2)
        return [with_aux(enc_times_md(st2), {"state": state_json(st2), "once": state_json(st1), "orig": state_json(prep["state0"])})]
    if kind == "gauss":
        prep = prepare(case)
        g = prep["group"]
        try:
            r = lk.refine_tracks_gaussian(g, window=case["window"], refine_missing_frames=case["missing"], overlap_strategy=case["strategy"])
        except Exception as e:
            return [errname(e)]
        st = B.group_state(r)
        src = B.group_state(kymotrack.KymoTrackGroup([tr.interpolate() for tr in g])) if case["missing"] else prep["state0"]
        return [with_aux(enc_times_md(st), {"state": state_json(st), "orig": state_json(prep["state0"]), "src": state_json(src)})]
    raise ValueError(kind)


def enc_times_coords(state):
    t = "[" + ";".join(",".join(str(int(v)) for v in tr["t"]) for tr in state) + "]"
    c = "[" + ";".join(",".join(enc_rat(v) for v in tr["c"]) for tr in state) + "]"
    return f"{t} {c}"


def enc_image_rat(image):
    return "[" + ";".join(",".join(enc_rat(float(v)) for v in image[:, t]) for t in range(image.shape[1])) + "]"


CENTROID_EPS = 1e-7  # refine_peak_based_on_moment(eps=1e-7): its default, not overridden by refine_tracks_centroid


def enc_times_md(state):
    t = "[" + ";".join(",".join(str(int(v)) for v in tr["t"]) for tr in state) + "]"
    m = "[" + ",".join("N" if tr["min_duration"] is None else enc_rat(tr["min_duration"]) for tr in state) + "]"
    return f"{t} {m}"


def handwritten_file(case, info):
    d = case["delim"]
    titles = ["track index", "time (pixels)", "coordinate (pixels)", "time (seconds)", f"position ({info['unit']})"]
    if case["has_counts"]:
        titles.append("counts (summed over 3 pixels)")
    if case["has_md"]:
        titles.append("minimum observable duration (seconds)")
    out = ["# Exported with pylake v1.5.3 | track coordinates v4", "# " + d.join(titles)]
    for idx, t, c, cnt, md in case["rows"]:
        cells = [str(idx), "%.18e" % t, ("%.18e" % c) if c != "X" else "abc", "%.18e" % (t * info["line_time"]), "%.18e" % ((c if c != "X" else 0.0) * info["pixelsize"])]
        if case["has_counts"]:
            cells.append(str(cnt))
        if case["has_md"]:
            cells.append("%.6e" % md)
        out.append(d.join(cells))
    return "\n".join(out) + "\n"


def enc_titles(titles):
    return "|".join(t.replace(" ", "~") for t in titles) if titles else "-"


def header_file(case):
    """a file given as version line (or none), title line and cells, exactly as np.savetxt would lay it out"""
    d = case["delim"]
    out = []
    if case["version"] is not None:
        out.append(f"# Exported with pylake v1.5.3 | track coordinates v{case['version']}")
    out.append("# " + d.join(case["titles"]))
    for r in case["cells"]:
        out.append(d.join("%.18e" % x for x in r))
    return "\n".join(out) + "\n"


# ------------------------------------------------------------------ model side


def ops(case):
    kind = case["kind"]
    if kind == "fmt":
        return ["c17.fmt6 " + enc_rat(float(case["x"]))]
    prep = prepare(case)
    if "unreachable" in prep:
        return ["c17.fmt6 0/1"] * (6 if kind == "rt" else 1)  # filler: the answers of a skipped case are never compared
    info = prep["info"]
    ky = enc_kymo(info)
    if kind == "rt":
        smp = "N" if case["sw"] is None else f"{case['sw']}:{1 if case['co'] else 0}"
        img = enc_image(prep["image"]) if case["sw"] is not None else "[]"
        g = enc_group(prep["state0"])
        all_md = "T" if all(tr["min_duration"] is not None for tr in prep["state0"]) else "F"
        return [f"c17.export {ky} {smp} {img} {g}", f"c17.roundtrip {ky} {smp} {img} {g}",
                f"c17.titles {info['unit']} {smp} {all_md}", f"c17.fileroundtrip {ky} {info['unit']} {smp} {img} {g}",
                f"c17.roundtrip2 {ky} {smp} {img} {g}", f"c17.exportfile {ky} {info['unit']} {smp} {img} {g}"]
    if kind == "sample":
        st = prep["state0"][0]
        return [f"c17.samples {case['w']} {1 if case['co'] else 0} {enc_image(prep['image'])} [" + ",".join(str(int(t)) for t in st["t"]) + "] [" + ",".join(enc_rat(c) for c in st["c"]) + "]"]
    if kind == "hdr":
        rows = "[" + ";".join(",".join(enc_rat(float("%.18e" % x)) for x in r) for r in case["cells"]) + "]"
        v = "N" if case["version"] is None else str(case["version"])
        return [f"c17.readfile {ky} {v} {enc_titles(case['titles'])} {rows}"]
    if kind == "read":
        rows = []
        for idx, t, c, cnt, md in case["rows"]:
            rows.append("|".join([str(idx), str(int(t)), "X" if c == "X" else enc_rat(float("%.18e" % c)),
                                  str(cnt) if case["has_counts"] else "N",
                                  enc_rat(Fraction("%.6e" % md)) if case["has_md"] else "N"]))
        return [f"c17.read {ky} [" + ",".join(rows) + "]"]
    if kind == "prog":
        toks = []
        for op in case["ops"]:
            if op[0] == "s":
                toks.append(f"s:{op[1]}:{op[2]}:{op[3]}")
            elif op[0] == "m":
                toks.append(f"m:{op[1]}:{op[2]}:{op[3]}:{op[4]}")
            elif op[0] == "f":
                toks.append(f"f:{op[1]}:{enc_rat(op[2])}")
            elif op[0] == "i":
                toks.append("i")
            elif op[0] == "r":
                toks.append(f"r:{enc_rat(op[1])}:{enc_rat(op[2])}:{enc_rat(op[3])}:{enc_rat(op[4])}:{'T' if op[5] else 'F'}")
            # "x" (merge with a track outside the group): not sent — refused operations are the identity (see _impl)
        return [f"c17.prog {ky} {enc_group(prep['state0'])} " + " ".join(toks)]
    if kind == "refine":
        return ["c17.refine " + enc_group(prep["state0"])]
    if kind == "refine2":
        return ["c17.refine2 " + enc_group(prep["state0"])]
    if kind == "centroid":
        width = case["width"]
        if width is None:
            # the documented default: 0.35 um (kbp: the same length at 0.34 nm per base pair), at least three pixels
            width = max({"um": 0.35, "kbp": 0.35 / 0.34}[case["k"]["cal"]], 3 * info["pixelsize"])
        h = int(np.ceil(width / info["pixelsize"])) // 2  # _to_half_kernel_size on the same doubles
        return [f"c17.centroid {h} {enc_rat(CENTROID_EPS)} {enc_image_rat(prep['image'])} " + enc_group(prep["state0"])]
    if kind == "gauss":
        kymotrack, _ = _kt()
        skip = "T" if case["strategy"] == "skip" else "F"
        if case["missing"]:
            # the model takes the doubles the code truncates: the interpolated coordinates as the code computed them
            src = B.group_state(kymotrack.KymoTrackGroup([tr.interpolate() for tr in prep["group"]]))
            for s, o in zip(src, prep["state0"]):
                s["min_duration"] = o["min_duration"]
        else:
            src = prep["state0"]
        if case.get("k_more"):
            # fitting windows of tracks from different kymographs never overlap: the model (one scan line, no image
            # bounds) gets the tracks of kymograph n on their own stretch of that line, 2**20 pixels further along
            src = [dict(s, c=[x + 2.0**20 * tr["kymo"] for x in s["c"]]) for s, tr in zip(src, case["tracks"])]
        return [f"c17.gauss {skip} {case['window']} F " + enc_group(src)]
    raise ValueError(kind)


def agree(case, i, ia, ma):
    kind = case["kind"]
    ia, aux = split_aux(ia)
    if ia == UNREACHABLE:
        return True  # nothing was observed: nothing to compare (see impl)
    md_tol = MD_TOL_LOSSY if aux.get("lossy_md") else MD_TOL
    try:
        if kind == "fmt":
            return _rat(ia) == _rat(ma)
        if kind == "rt" and i == 2 and ia.endswith("Error"):
            return True  # nothing was saved (empty group): there is no title line to compare; answers 0/1/3 carry the error
        if ia.endswith("Error") or ma.endswith("Error") or ia.startswith("bad") or ma.startswith("bad"):
            if kind == "refine" and case.get("width_invalid"):
                return True  # track-width validation is not part of the model; judged by the oracle
            if kind == "gauss" and case.get("strategy_invalid"):
                return True  # an overlap strategy the function does not know: not part of the model; judged by the oracle
            return ia == ma
        if kind == "rt" and i == 0:
            ra, rm = ia[1:-1].split(","), ma[1:-1].split(",")
            if len(ra) != len(rm):
                return False
            for a, m in zip(ra, rm):
                a, m = a.split("|"), m.split("|")
                if a[0] != m[0] or a[1] != m[1] or a[5] != m[5]:
                    return False
                if _rat(a[2]) != _rat(m[2]):  # the coordinate column holds the very double the model was given
                    return False
                if not relclose(_rat(a[3]), _rat(m[3]), TOL_RT) or not relclose(_rat(a[4]), _rat(m[4]), TOL_RT):
                    return False
                if (a[6] == "N") != (m[6] == "N") or (a[6] != "N" and float(_rat(m[6])) != float(_rat(a[6]))):
                    return False
            return True
        if kind == "rt" and i == 2:
            return ia == ma
        if kind == "rt" and i == 5:
            va, ta, ca = ia.split(" ")
            vm, tm, cm = ma.split(" ")
            if va != vm or ta != tm:
                return False
            ra, rm = ca[1:-1].split(";"), cm[1:-1].split(";")
            if len(ra) != len(rm):
                return False
            for x, y in zip(ra, rm):
                x, y = x.split(","), y.split(",")
                if len(x) != len(y) or not all(relclose(_rat(u), _rat(v), TOL_RT) if j != len(x) - 1 else float(_rat(u)) == float(_rat(v)) or relclose(_rat(u), _rat(v), TOL_RT) for j, (u, v) in enumerate(zip(x, y))):
                    return False
            return True
        if kind in ("rt", "read", "hdr"):
            return same_group(dec_group(ia), dec_group(ma), TOL_RT, md_exact=True)
        if kind == "prog":
            ea, _, ga = ia.partition(" ")
            em, _, gm = ma.partition(" ")
            return ea == em and same_group(dec_group(ga), dec_group(gm), TOL_EDIT, md_exact=False, md_tol=md_tol)
        if kind == "centroid":
            ta, ca = ia.split(" ")
            tm, cm = ma.split(" ")
            if ta != tm:
                return False
            xs = [_rat(x) for r in ca[1:-1].split(";") for x in r.split(",")]
            ys = [_rat(x) for r in cm[1:-1].split(";") for x in r.split(",")]
            return len(xs) == len(ys) and all(abs(x - y) <= Fraction(TOL_EDIT) * (abs(y) + 1) for x, y in zip(xs, ys))
        if kind in ("refine", "refine2", "gauss"):
            ta, mda = ia.split(" ")
            tm, mdm = ma.split(" ")
            a = [None if x == "N" else _rat(x) for x in mda[1:-1].split(",")] if mda != "[]" else []
            m = [None if x == "N" else _rat(x) for x in mdm[1:-1].split(",")] if mdm != "[]" else []
            if kind == "gauss" and gauss_any_order(case) and ta != tm:
                # the same tracks (lines, minimum duration) in any order — only when tracks were removed (see gauss_any_order)
                la, lm = ta[1:-1].split(";"), tm[1:-1].split(";")
                key = lambda p: (p[0], -1 if p[1] is None else p[1])
                dropped = len(la) < len(case["tracks"])
                return dropped and len(la) == len(a) and len(lm) == len(m) and sorted(zip(la, a), key=key) == sorted(zip(lm, m), key=key)
            if ta != tm:
                return False
            return a == m
    except Exception:
        return False
    return ia == ma


def same_group(ga, gm, tol, md_exact, md_tol=None):
    md_tol = MD_TOL if md_tol is None else md_tol
    if len(ga) != len(gm):
        return False
    for a, m in zip(ga, gm):
        if a["t"] != m["t"] or a["counts"] != m["counts"] or len(a["c"]) != len(m["c"]):
            return False
        scale = max([abs(x) for x in m["c"]] + [1])
        for x, y in zip(a["c"], m["c"]):
            if not (relclose(x, y, tol) if tol == TOL_RT else scaleclose(x, y, tol, scale)):
                return False
        if (a["min_duration"] is None) != (m["min_duration"] is None):
            return False
        if a["min_duration"] is not None:
            if md_exact:
                if float(a["min_duration"]) != float(m["min_duration"]):
                    return False
            elif not relclose(a["min_duration"], m["min_duration"], md_tol):
                return False
    return True


# ------------------------------------------------------------------ oracle: the property text on the implementation's answers


def window_sum(image, t, c, w, correct_origin):
    """photon counts summed over the 2w+1 pixels centred on the pixel that contains the coordinate (pixel centres at
    integers when correct_origin, pixel edges at integers for the legacy origin), clipped to the image"""
    centre = math.floor(c + 0.5) if correct_origin else math.floor(c)
    return int(sum(int(image[p, t]) for p in range(image.shape[0]) if abs(p - centre) <= w))


def oracle(case, ia):
    kind = case["kind"]
    if kind == "fmt":
        return oracle_fmt(case, ia)
    if kind == "prog":
        bad = oracle_plus(case, ia)
        if bad:
            return bad
    if any(split_aux(a)[0] == UNREACHABLE for a in ia):
        return None  # skipped case (see impl): no observation to judge
    if kind == "rt":
        return oracle_rt(case, ia)
    if kind == "read":
        return oracle_read(case, ia)
    if kind == "hdr":
        return oracle_hdr(case, ia)
    if kind == "sample":
        a = split_aux(ia[0])[0]
        if a.endswith("Error"):
            return f"photon-counts: sampling a track inside the image raised {a}"
        prep = prepare(case)
        st = prep["state0"][0]
        exp = [window_sum(prep["image"], t, c, case["w"], case["co"]) for t, c in zip(st["t"], st["c"])]
        got = [int(x) for x in a[1:-1].split(",")] if a != "[]" else []
        return None if got == exp else f"photon-counts: sampled {got[:8]}, the sum over the {2 * case['w'] + 1} pixels around each node is {exp[:8]}"
    if kind == "prog":
        return oracle_prog(case, ia)
    if kind in ("refine", "centroid"):
        return oracle_refine(case, ia)
    if kind == "refine2":
        return oracle_refine2(case, ia)
    if kind == "gauss":
        return oracle_gauss(case, ia)
    return None


def oracle_fmt(case, ia):
    """'%.6e': seven significant digits of the value (half a unit of the seventh), printing the printed value changes nothing"""
    x = Fraction(float(case["x"]))
    v = _rat(split_aux(ia[0])[0])
    if abs(v - x) > abs(x) * Fraction(1, 2000000):
        return f"six-decimals: {float(case['x'])!r} printed as {float(v)!r}: more than half a unit of the seventh digit away"
    if Fraction("%.6e" % float(v)) != v:
        return f"six-decimals: printing the printed value {float(v)!r} again gives {'%.6e' % float(v)}"
    return None


def oracle_rt(case, ia):
    bad = _oracle_rt(case, ia)
    if bad or len(ia) < 5:
        return bad
    a2, aux2 = split_aux(ia[1])
    a5, aux5 = split_aux(ia[4])
    if a2.endswith("Error") or not case["tracks"]:
        return None
    if a5.endswith("Error"):
        return f"second-round-trip: the re-imported group could not be saved and imported again: {a5}"
    first, again = aux5["first"], aux5["state"]
    if len(first) != len(again):
        return f"second-round-trip: {len(again)} tracks after saving the re-imported group, {len(first)} before"
    for k, (x, y) in enumerate(zip(first, again)):
        if not same_track(x, y, 1e-15):
            return f"second-round-trip: track {k} changed when the re-imported group was saved and imported again (lines {y['t'][:8]}, minimum duration {x['md']!r} -> {y['md']!r}, counts {y['counts'] and y['counts'][:6]})"
    return None


def _oracle_rt(case, ia):
    tracks = case["tracks"]
    a1, aux1 = split_aux(ia[0])
    a2, aux2 = split_aux(ia[1])
    if not tracks:
        return None if (a1 == "RuntimeError" and a2 == "RuntimeError") else f"empty-group: saving an empty group should raise RuntimeError, got {a1[:60]}"
    if a1.endswith("Error") or a1.startswith("bad"):
        return f"save: a non-empty group could not be saved / file unreadable: {a1[:80]} {aux1}"
    prep = prepare(case)
    info = prep["info"]
    # ---- the file itself: version, column layout and order
    all_md = all(tr.get("md") is not None for tr in tracks)
    exp_titles = TITLES + [f"position ({info['unit']})"]
    if case["sw"] is not None:
        exp_titles.append(f"counts (summed over {2 * case['sw'] + 1} pixels)")
    if all_md:
        exp_titles.append("minimum observable duration (seconds)")
    if aux1.get("version") != 4 or aux1.get("titles") != exp_titles:
        return f"file-layout: version/titles {aux1.get('version')} {aux1.get('titles')} expected v4 {exp_titles}"
    rows = a1[1:-1].split(",")
    n_nodes = sum(len(tr["t"]) for tr in tracks)
    if len(rows) != n_nodes:
        return f"file-rows: {len(rows)} data lines for {n_nodes} nodes"
    it = iter(rows)
    for k, tr in enumerate(tracks):
        for t, c in zip(tr["t"], tr["c"]):
            cell = next(it).split("|")
            if cell[0] != str(k) or cell[1] != str(t) or not relclose(_rat(cell[2]), c, TOL_RT):
                return f"export-order: line for track {k} node (t={t}, c={c!r}) reads {cell[:3]}"
            if not relclose(_rat(cell[3]), Fraction(t) * Fraction(info["line_time"]), TOL_RT) or not relclose(_rat(cell[4]), Fraction(c) * Fraction(info["pixelsize"]), TOL_RT):
                return f"export-units: seconds/position of track {k} node t={t}: {float(_rat(cell[3]))!r}, {float(_rat(cell[4]))!r}"
    # ---- the re-imported group
    if a2.endswith("Error"):
        return f"import: the file written by save() could not be imported: {a2} ({len(tracks)} track(s), {n_nodes} node(s))"
    st = aux2["state"]
    if len(st) != len(tracks):
        return f"track-count: {len(st)} tracks imported, {len(tracks)} saved"
    orig = aux2["orig"]
    for k, (tr, got, o) in enumerate(zip(tracks, st, orig)):
        if got["t"] != list(tr["t"]):
            return f"scan-lines: track {k} imported with time_idx {got['t'][:10]} instead of {list(tr['t'])[:10]}"
        for j, (c, g) in enumerate(zip(tr["c"], got["c"])):
            if not relclose(c, g, TOL_RT):
                return f"coordinates: track {k} node {j}: saved {c!r}, imported {g!r}"
        for j, (c, g) in enumerate(zip(tr["c"], got["pos"])):
            if not relclose(Fraction(c) * Fraction(info["pixelsize"]), g, TOL_RT):
                return f"positions: track {k} node {j}: coordinate {c!r} x pixel size {info['pixelsize']!r} ({info['unit']}), imported position {g!r}"
        if len(got["c"]) != len(tr["c"]):
            return f"node-count: track {k}"
        exp_md = float("%.6e" % tr["md"]) if all_md else None
        if got["md"] != exp_md:
            return f"minimum-duration: track {k} saved {tr.get('md')!r}, imported {got['md']!r} (expected {exp_md!r})"
        if case["sw"] is None:
            if got["counts"] is not None:
                return f"photon-counts: track {k} has counts although none were saved"
        else:
            exp = [window_sum(prep["image"], t, c, case["sw"], case["co"]) for t, c in zip(o["t"], o["c"])]
            if got["counts"] != exp:
                return f"photon-counts: track {k} imported {got['counts'][:8]}, sum over {2 * case['sw'] + 1} pixels is {exp[:8]}"
    return None


def oracle_read(case, ia):
    a, aux = split_aux(ia[0])
    rows = case["rows"]
    if not rows or any(r[2] == "X" for r in rows):
        return None if a == "IOError" else f"bad-file: expected IOError, got {a[:60]}"
    idxs = sorted(set(r[0] for r in rows))
    groups = [[r for r in rows if r[0] == k] for k in idxs]
    if case["has_md"] and any(len(set(float("%.6e" % r[4]) for r in g)) != 1 for g in groups):
        return None if a.endswith("Error") else f"conflicting minimum durations inside one track were accepted: {a[:60]}"
    if a.endswith("Error"):
        return f"import: well-formed hand-written file refused: {a}"
    st = aux["state"]
    if len(st) != len(groups):
        return f"grouping: {len(st)} tracks for track indices {idxs}"
    for g, got in zip(groups, st):
        if got["t"] != [int(r[1]) for r in g]:
            return f"grouping: track index {g[0][0]} imported with lines {got['t']} but its file rows are {[int(r[1]) for r in g]}"
        if any(not relclose(r[2], c, TOL_RT) for r, c in zip(g, got["c"])):
            return f"grouping: coordinates of track index {g[0][0]}"
        if case["has_counts"] and got["counts"] != [r[3] for r in g]:
            return f"grouping: counts of track index {g[0][0]}"
        if (got["md"] is None) == case["has_md"] or (case["has_md"] and got["md"] != float("%.6e" % g[0][4])):
            return f"minimum-duration: track index {g[0][0]} imported {got['md']!r}"
    return None


def oracle_hdr(case, ia):
    """hand-written header variants: what the documented file format says about them (`expect` is written next to each
    variant in HDR_VARIANTS; variants whose outcome the format does not determine are compared with the model only)"""
    a, aux = split_aux(ia[0])
    exp = case.get("expect")
    if exp is None:
        return None
    if exp == "IOError":
        return None if a == "IOError" else f"header[{case['variant']}]: expected IOError, got {a[:60]}"
    if a.endswith("Error"):
        return f"header[{case['variant']}]: a file with the documented columns was refused: {a}"
    base = case["base"]
    idxs = sorted(set(r[0] for r in base))
    groups = [[r for r in base if r[0] == k] for k in idxs]
    st = aux["state"]
    if len(st) != len(groups):
        return f"header[{case['variant']}]: {len(st)} tracks for track indices {idxs}"
    for g, got in zip(groups, st):
        if got["t"] != [int(r[1]) for r in g]:
            return f"header[{case['variant']}]: lines {got['t']} for file rows {[r[1] for r in g]}"
        want_c = [r[2] + (1.0 if exp.get("coord") == "second" else 0.0) for r in g]
        if any(not relclose(w, c, TOL_RT) for w, c in zip(want_c, got["c"])):
            return f"header[{case['variant']}]: coordinates {got['c'][:6]} instead of {want_c[:6]}"
        if (got["counts"] if exp.get("counts") else None) != ([r[3] for r in g] if exp.get("counts") else None) or (not exp.get("counts") and got["counts"] is not None):
            return f"header[{case['variant']}]: counts {got['counts']}"
        if (got["md"] is not None) != bool(exp.get("md")) or (exp.get("md") and got["md"] != float("%.18e" % g[0][4])):
            return f"header[{case['variant']}]: minimum duration {got['md']!r}"
    return None


def same_track(a, b, tol=0.0):
    return a["t"] == b["t"] and a["counts"] == b["counts"] and len(a["c"]) == len(b["c"]) and all(
        abs(x - y) <= tol * (abs(x) + 1) for x, y in zip(a["c"], b["c"])) and a["md"] == b["md"]


def cut(tr, lo, hi):
    return {"t": tr["t"][lo:hi], "c": tr["c"][lo:hi], "pos": tr["pos"][lo:hi], "md": tr["md"], "counts": None if tr["counts"] is None else tr["counts"][lo:hi]}


def oracle_plus(case, ia):
    """merge through the public API: `track + later_track` is the first track's nodes followed by the second's, with the
    first track's minimum duration (and the photon counts when both have them)"""
    _, aux = split_aux(ia[0])
    for tw in aux.get("plus", []):
        op = case["ops"][tw["n"]]
        a_, b_ = tw["pre"][op[1]], tw["pre"][op[3]]
        counts = a_["counts"] + b_["counts"] if (a_["counts"] is not None and b_["counts"] is not None) else None
        exp = {"t": a_["t"] + b_["t"], "c": a_["c"] + b_["c"], "md": a_["md"], "counts": counts}
        if not same_track(tw["state"], exp, 1e-15):
            return f"merge: op {tw['n']} {op} through the public API: track + later track does not conserve the nodes (lines {tw['state']['t'][:12]}, expected {exp['t'][:12]})"
    return None


def oracle_prog(case, ia):
    a, aux = split_aux(ia[0])
    md_tol = MD_TOL_LOSSY if aux.get("lossy_md") else MD_TOL
    errs = aux.get("errs") if aux.get("errs") is not None else (a.split(" ")[0][1:-1].split(",") if case["ops"] else [])
    states = aux["states"]
    lt = prepare(case)["info"]["line_time"]
    px = prepare(case)["info"]["pixelsize"]
    for n, (op, err) in enumerate(zip(case["ops"], errs)):
        pre, post = states[n], states[n + 1]
        where = {"s": "split", "m": "merge", "f": "filter", "i": "interpolate", "r": "remove-in-rect", "x": "merge with a track outside the group"}[op[0]] + f": op {n} {op} "
        if err != "-" and [cut(t, 0, None) for t in pre] != [cut(t, 0, None) for t in post]:
            return where + f"raised {err} but changed the group"
        if op[0] == "s":
            _, i, node, minlen = op
            tr = pre[i]
            if not (0 < node < len(tr["t"])):
                if err != "ValueError":
                    return where + f"split that leaves an empty part should raise ValueError, got {err}"
                continue
            if err != "-":
                return where + f"valid split raised {err}"
            parts = [cut(tr, 0, node), cut(tr, node, None)]
            exp = pre[:i] + pre[i + 1 :] + [p for p in parts if len(p["t"]) >= minlen]
            if len(post) != len(exp) or not all(same_track(x, y) for x, y in zip(post, exp)):
                return where + "split does not conserve the nodes (before ++ after = track, others unchanged, short parts dropped)"
        elif op[0] == "m":
            _, i, ni, j, nj = op
            a_, b_ = pre[i], pre[j]
            if not (0 <= ni < len(a_["t"]) and 0 <= nj < len(b_["t"])):
                continue  # out-of-range / negative nodes: private API misuse, compared with the model only
            if a_["t"][ni] == b_["t"][nj]:
                if err != "ValueError":
                    return where + f"same-frame merge should raise ValueError, got {err}"
                continue
            if err != "-":
                return where + f"valid merge raised {err}"
            if a_["t"][ni] > b_["t"][nj]:
                i, ni, j, nj, a_, b_ = j, nj, i, ni, b_, a_
            first, last = cut(a_, 0, ni + 1), cut(b_, nj, None)
            counts = first["counts"] + last["counts"] if (first["counts"] is not None and last["counts"] is not None) else None
            merged = {"t": first["t"] + last["t"], "c": first["c"] + last["c"], "md": a_["md"], "counts": counts}
            exp = list(pre)
            exp[i] = merged
            if i != j:
                del exp[j]
            if len(post) != len(exp) or not all(same_track(x, y, 1e-15) for x, y in zip(post, exp)):
                return where + "merge does not conserve the undiscarded nodes (first part up to the start node ++ second part from the end node, others unchanged)"
        elif op[0] == "x":
            # merging conserves all points: a track that is not part of the group cannot be connected to one that is;
            # the call has to be refused (the group-unchanged clause above covers a refusal that came too late)
            if err == "-":
                return where + "was accepted"
        elif op[0] == "f":
            _, L, D = op
            kept = []
            for tr in pre:
                dur = (Fraction(tr["t"][-1]) - Fraction(tr["t"][0])) * Fraction(lt)
                if len(tr["t"]) >= L and dur >= Fraction(D):
                    kept.append(tr)
            if err != "-" or len(post) != len(kept):
                return where + f"filter kept {len(post)} tracks, {len(kept)} meet length >= {L} and duration >= {D!r}"
            for tr, got in zip(kept, post):
                bound = max(Fraction(tr["md"] or 0), (L - 1) * Fraction(lt), math.ceil(Fraction(D) / Fraction(lt)) * Fraction(lt))
                if got["t"] != tr["t"] or got["c"] != tr["c"] or got["counts"] != tr["counts"]:
                    return where + "filter changed the nodes of a kept track"
                if got["md"] is None or not relclose(got["md"], bound, md_tol):
                    return where + f"minimum observable duration {got['md']!r} instead of {float(bound)!r}"
        elif op[0] == "i":
            if err != "-" or len(post) != len(pre):
                return where + f"interpolation changed the number of tracks / raised {err}"
            for tr, got in zip(pre, post):
                if got["t"] != list(range(tr["t"][0], tr["t"][-1] + 1)) or got["md"] != tr["md"]:
                    return where + f"interpolated lines {got['t'][:12]} do not fill {tr['t'][0]}..{tr['t'][-1]}"
                scale = max(abs(x) for x in tr["c"]) + 1
                seg = 0
                for t, c in zip(got["t"], got["c"]):
                    while seg + 1 < len(tr["t"]) and tr["t"][seg + 1] <= t:
                        seg += 1
                    if t == tr["t"][seg]:
                        if abs(c - tr["c"][seg]) > 1e-15 * scale:
                            return where + f"original node (t={t}, c={tr['c'][seg]!r}) became {c!r}"
                    else:
                        t0, t1, c0, c1 = tr["t"][seg], tr["t"][seg + 1], Fraction(tr["c"][seg]), Fraction(tr["c"][seg + 1])
                        if abs((Fraction(c) - c0) * (t1 - t0) - (c1 - c0) * (t - t0)) > Fraction(TOL_EDIT) * scale * (t1 - t0):
                            return where + f"added node (t={t}, c={c!r}) is not on the segment ({t0},{float(c0)!r})-({t1},{float(c1)!r})"
        elif op[0] == "r":
            _, t0, x0, t1, x1, allp = op
            t0, t1 = min(t0, t1), max(t0, t1)
            x0, x1 = min(x0, x1), max(x0, x1)
            exp = []
            for tr in pre:
                inside = [t0 <= Fraction(t) * Fraction(lt) < t1 and x0 <= p < x1 for t, p in zip(tr["t"], tr["pos"])]
                if not (all(inside) if allp else any(inside)):
                    exp.append(tr)
            if err != "-" or len(post) != len(exp) or not all(same_track(x, y) for x, y in zip(post, exp)):
                return where + f"remove_tracks_in_rect kept {len(post)} tracks, expected {len(exp)} untouched ones"
    # whole program (runProg_preserves_wf / runProg_no_new_nodes): every track of every state is non-empty, has strictly
    # increasing lines and one count per node; without interpolation every node of the final group is a node of the first
    for n, st in enumerate(states):
        for tr in st:
            if not tr["t"] or any(x >= y for x, y in zip(tr["t"], tr["t"][1:])) or (tr["counts"] is not None and len(tr["counts"]) != len(tr["t"])):
                return f"well-formed: after {n} operations a track has lines {tr['t'][:12]} / {None if tr['counts'] is None else len(tr['counts'])} counts"
    if states and all(op[0] != "i" for op in case["ops"]):
        first = {}
        for tr in states[0]:
            for t, c in zip(tr["t"], tr["c"]):
                first.setdefault(t, []).append(c)
        for tr in states[-1]:
            for t, c in zip(tr["t"], tr["c"]):
                if not any(abs(c - c0) <= 1e-15 * (abs(c0) + 1) for c0 in first.get(t, [])):
                    return f"conserve: node (t={t}, c={c!r}) of the final group is not a node of the group the program started from"
    return None


def spot_tol(case):
    if case.get("edge"):
        return TOL_SPOT_EDGE[case["kind"]]
    if case.get("narrow"):
        return TOL_SPOT_NARROW
    # Gaussian refinement stops L-BFGS-B on its default relative-reduction criterion: on noise-free interior spots it
    # is occasionally 0.01-0.02 px off (soak seed 15: 0.0156 px), centroid refinement is not iterative
    return 0.05 if case["kind"] == "gauss" else TOL_SPOT


def edge_note(case):
    return f", spot next to the {'first' if case['edge'] == 'lo' else 'last'} pixel of the scan line" if case.get("edge") else ""


def oracle_refine(case, ia):
    a, aux = split_aux(ia[0])
    if case.get("width_invalid"):
        return None if a == "ValueError" else f"track-width below 3 pixels should raise ValueError, got {a[:40]}"
    if a.endswith("Error"):
        return f"centroid refinement raised {a}"
    st, orig = aux["state"], aux["orig"]
    if len(st) != len(orig):
        return f"track-count: centroid refinement returned {len(st)} tracks for {len(orig)}"
    for k, (o, r) in enumerate(zip(orig, st)):
        if r["t"] != list(range(o["t"][0], o["t"][-1] + 1)):
            return f"span: refined track {k} has lines {r['t'][:15]}, the track spans {o['t'][0]}..{o['t'][-1]}"
        if r["md"] != o["md"] or r["counts"] is None or len(r["counts"]) != len(r["t"]):
            return f"metadata: refined track {k} minimum duration {r['md']!r} (was {o['md']!r}) / counts"
    if case.get("assert_truth"):
        for k, (s, r) in enumerate(zip(case["truth"], st)):
            truth = dict(zip(s["t"], s["c"]))
            for t, c in zip(r["t"], r["c"]):
                if abs(c - truth[t]) > spot_tol(case):
                    return f"sub-pixel: centroid refinement of track {k} line {t}: {c!r}, true centre {truth[t]!r} (tolerance {spot_tol(case)} pixel{edge_note(case)})"
    return None


def oracle_refine2(case, ia):
    """refining refined tracks: same number of tracks, the same lines as after one refinement, minimum durations kept"""
    a, aux = split_aux(ia[0])
    if a.endswith("Error"):
        return f"centroid refinement of refined tracks raised {a}"
    once, twice, orig = aux["once"], aux["state"], aux["orig"]
    if len(twice) != len(once) or len(once) != len(orig):
        return f"track-count: refining twice returned {len(twice)} tracks, once {len(once)}, given {len(orig)}"
    for k, (o, r1, r2) in enumerate(zip(orig, once, twice)):
        if r2["t"] != r1["t"] or r2["t"] != list(range(o["t"][0], o["t"][-1] + 1)):
            return f"span: track {k} refined twice has lines {r2['t'][:15]}, refined once {r1['t'][:15]}"
        if r2["md"] != o["md"] or r2["counts"] is None or len(r2["counts"]) != len(r2["t"]):
            return f"metadata: track {k} refined twice: minimum duration {r2['md']!r} (was {o['md']!r}) / counts"
    return None


def gauss_any_order(case):
    """Gaussian refinement with overlap_strategy="skip" of a group from several kymographs: when a track loses all its
    lines it is left out, and `_apply_to_group` then pairs the remaining tracks with the positions of OTHER tracks
    (`zip(chain(*indices), chain(*groups))` with fewer tracks than indices): the survivors come back in a scrambled
    order.  Reported as a finding; not a violation of this property, which is silent about that order."""
    return bool(case.get("k_more")) and case.get("strategy") == "skip"


def oracle_gauss(case, ia):
    a, aux = split_aux(ia[0])
    if a.endswith("Error"):
        if case.get("strategy_invalid"):
            return None  # refusing an unknown overlap strategy is fine; if tracks ARE returned they are judged below
        return f"Gaussian refinement raised {a}"
    st, orig = aux["state"], aux["orig"]
    if len(st) > len(orig):
        return "track-count: Gaussian refinement returned more tracks than it was given"
    def fits(r, o):
        ok = r["md"] == o["md"] and r["t"] and o["t"][0] <= min(r["t"]) and max(r["t"]) <= o["t"][-1]
        if ok and case["strategy"] == "skip" and not case["missing"]:
            # a skipped-away source track must not capture a later track's result (soak seed 20)
            ok = set(r["t"]) <= set(o["t"])
        return ok

    # Which source track a returned track belongs to: the property gives no other handle than the order of the group, so
    # the assignment is order-preserving — except where "skip" removed tracks from a group of SEVERAL kymographs: there
    # the unchanged library returns the survivors in another order (finding F-C17-H1, see gauss_any_order), and the
    # property does not speak about the order of a Gaussian-refined group; then any one-to-one assignment is accepted.
    assigned = None
    if gauss_any_order(case) and len(st) < len(orig):
        assigned = [None] * len(st)
        owner = {}

        def place(a, seen):
            for b in range(len(orig)):
                if b not in seen and fits(st[a], orig[b]):
                    seen.add(b)
                    if b not in owner or place(owner[b], seen):
                        owner[b], assigned[a] = a, b
                        return True
            return False

        for a in range(len(st)):
            if not place(a, set()):
                return f"span: Gaussian-refined track with lines {st[a]['t'][:12]} and minimum duration {st[a]['md']!r}: no source track (in any order) has that minimum duration and spans these lines"
    j = 0
    for n, r in enumerate(st):
        if assigned is not None:
            j = assigned[n]
        while j < len(orig) and not fits(r, orig[j]):
            j += 1
        if j == len(orig):
            return f"span: Gaussian-refined track with lines {r['t'][:12]} and minimum duration {r['md']!r}: no remaining source track has that minimum duration and spans these lines"
        o = orig[j]
        if case["strategy"] != "skip":
            exp = list(range(o["t"][0], o["t"][-1] + 1)) if case["missing"] else o["t"]
            if r["t"] != exp:
                return f"lines: Gaussian-refined track has lines {r['t'][:12]}, expected {exp[:12]}"
        elif not case["missing"] and not set(r["t"]) <= set(o["t"]):
            return "lines: Gaussian refinement without refine_missing_frames added a line the track did not have"
        if case.get("assert_truth"):
            truth = dict(zip(case["truth"][j]["t"], case["truth"][j]["c"]))
            for t, c in zip(r["t"], r["c"]):
                if abs(c - truth[t]) > spot_tol(case):
                    return f"sub-pixel: Gaussian refinement line {t}: {c!r}, true centre {truth[t]!r} (tolerance {spot_tol(case)} pixel{edge_note(case)})"
        j += 1
    return None


# ------------------------------------------------------------------ bookkeeping


def nontrivial(case, ia):
    kind = case["kind"]
    a, aux = split_aux(ia[0])
    if any(split_aux(x)[0] == UNREACHABLE for x in ia):
        return False
    if kind == "fmt":
        return len(("%r" % float(case["x"])).replace(".", "").replace("-", "").lstrip("0").split("e")[0]) > 7
    if kind == "rt":
        return len(ia) > 1 and not ia[1].endswith("Error") and len(case["tracks"]) >= 1
    if kind == "read":
        return len(case["rows"]) >= 1
    if kind == "hdr":
        return len(case["cells"]) >= 1
    if kind == "sample":
        return len(case["tracks"][0]["t"]) >= 1
    if kind == "prog":
        st = aux.get("states", [])
        return any(x != y for x, y in zip(st, st[1:])) or "Error" in a or any(e != "-" for e in aux.get("errs") or [])
    if kind == "centroid":
        return True
    if kind in ("refine", "refine2", "gauss"):
        return bool(case.get("edge")) or len(case["tracks"]) >= 2 or any(len(tr["t"]) < tr["t"][-1] - tr["t"][0] + 1 for tr in case["tracks"])
    return False


def tags(case, r):
    t = {"kind": case["kind"]}
    if case["kind"] == "rt":
        t["single_row_file"] = sum(len(tr["t"]) for tr in case["tracks"]) == 1
        t["calibration"] = case["k"].get("cal")
        t["with_counts"] = case["sw"] is not None
    return t


def shrink(case):
    kind = case["kind"]
    if kind in ("rt", "refine", "refine2", "centroid", "gauss", "prog"):
        trs = case.get("tracks", [])
        refs = set()
        for op in case.get("ops", []):
            if op[0] == "s":
                refs.add(op[1])
            if op[0] in ("m", "x"):
                refs.update((op[1], op[3]))
        if kind == "prog" and len(case["ops"]) > 1:
            c = dict(case)
            c["ops"] = case["ops"][:-1]
            yield c
            c = dict(case)
            c["ops"] = case["ops"][1:]
            if all(o[0] in "fir" for o in case["ops"][:1]):
                pass
            else:
                yield c
        if len(trs) > 1 and kind != "prog" and "truth" not in case:
            for i in range(len(trs)):
                c = dict(case)
                c["tracks"] = trs[:i] + trs[i + 1 :]
                yield c
        if kind == "prog" and len(trs) > 1 and (len(trs) - 1) not in refs and all(o[0] not in ("m", "s", "x") for o in case["ops"]):
            c = dict(case)
            c["tracks"] = trs[:-1]
            yield c
        if kind == "rt":
            for i, tr in enumerate(trs):
                if len(tr["t"]) > 1:
                    for sl in (slice(0, len(tr["t"]) // 2), slice(1, None), slice(0, -1)):
                        c = dict(case)
                        t2 = dict(tr)
                        t2["t"], t2["c"] = tr["t"][sl], tr["c"][sl]
                        c["tracks"] = trs[:i] + [t2] + trs[i + 1 :]
                        yield c
            if case["delim"] != ";":
                c = dict(case)
                c["delim"] = ";"
                yield c
            if case["sw"] not in (None, 0):
                c = dict(case)
                c["sw"] = 0
                yield c
            if any(tr.get("hw") is not None for tr in trs):
                c = dict(case)
                c["tracks"] = [dict(tr, hw=None) for tr in trs]
                yield c
    elif kind == "hdr" and len(case["cells"]) > 1 and case["variant"] != "ragged":
        for i in range(len(case["cells"])):
            c = dict(case)
            c["cells"] = case["cells"][:i] + case["cells"][i + 1 :]
            c["base"] = case["base"][:i] + case["base"][i + 1 :]
            yield c
    elif kind == "read" and len(case["rows"]) > 1:
        for i in range(len(case["rows"])):
            c = dict(case)
            c["rows"] = case["rows"][:i] + case["rows"][i + 1 :]
            yield c


# ------------------------------------------------------------------ generators

DELIMS = [";", ",", "\t"]


def kspec(rng, *, n_lines, n_pixels, dyadic=False, cal=None, route=None):
    cal = cal or rng.choice(["um", "um", "kbp", "pixel"])
    route = "array" if (cal == "pixel" or dyadic) else (route or rng.choice(["lowlevel", "lowlevel", "array"]))
    k = {"route": route, "cal": cal, "n_lines": n_lines, "n_pixels": n_pixels, "img_seed": rng.randint(0, 10**6),
         "px_um": rng.choice([0.1, 0.05, 0.07, 0.0833, round(rng.uniform(0.02, 0.3), 4)])}
    if route == "array":
        k["lt"] = rng.choice([0.125, 0.5, 0.0625, 1.0, 0.03125 * 3]) if dyadic else rng.choice([0.125, 0.1, 0.016, rng.randint(100, 200000) * 10000 * 1e-9])  # whole ns x 1e-9: also what a camera stack gives
    else:
        k["dt_ns"] = rng.choice([12800, 10000, 6400, 12800 * 3])
        k["spp"] = rng.randint(1, 4)
        k["pad"] = rng.randint(0, 5)
    if cal == "kbp":
        k["kbp"] = rng.choice([48.502, 0.4 * n_pixels, round(rng.uniform(1, 100), 3)])
    return k


def safe_coords(cs):
    """keep coordinates 1e-6 away from 0.5 (float addition c+0.5 below 1.0 may round across the integer)"""
    return [c + 0.01 if abs(c - 0.5) < 1e-6 else c for c in cs]


def md_value(rng, lt_hint=0.125):
    c = rng.randint(0, 5)
    if c == 0:
        return 0.0
    if c == 1:
        return rng.choice([0.25, 0.5, 1.5, 2.0, 0.125])  # exactly representable with six decimals
    if c == 2:
        return rng.randint(1, 30) * lt_hint
    if c == 3:
        return rng.uniform(0.0, 3.0)  # not representable with six decimals
    if c == 4:
        return rng.choice([1.2345675, 12345675.0, 1.0000005, 9.9999995, 0.00099999995, 123456.75])  # ties / carries
    return rng.loguniform(1e-5, 1e3)


SHAPES = [[0], [2], [0, 1], [1, 3], [0, 1, 2], [0, 2, 5]]
SHAPE_COORDS = {0: [1.0], 1: [2.25], 2: [0.0, 1.5], 3: [3.75, 2.0], 4: [4.0, 3.3, 2.9], 5: [1.2, 1.9, 0.7]}


def load_corpus():
    d = os.path.join(VERIF, "corpus", PROP)
    out = []
    if os.path.isdir(d):
        for f in sorted(os.listdir(d)):
            if f.endswith(".json"):
                c = json.load(open(os.path.join(d, f)))
                c = c.get("case", c)
                c["stream"] = "corpus"
                out.append(c)
    return out


T_IDX, T_T, T_C, T_SEC, T_POS = "track index", "time (pixels)", "coordinate (pixels)", "time (seconds)", "position (um)"
T_CNT, T_MD, T_ML3 = "counts (summed over 3 pixels)", "minimum observable duration (seconds)", "minimum_length (-)"
STD7 = [(T_IDX, "idx"), (T_T, "t"), (T_C, "c"), (T_SEC, "sec"), (T_POS, "pos"), (T_CNT, "cnt"), (T_MD, "md")]
# variant -> (version, [(title, value key)], expectation by the documented format: IOError / {counts, md, coord} / None)
HDR_VARIANTS = {
    "std": (4, STD7, {"counts": True, "md": True}),
    "no-version-line": (None, STD7, {"counts": True, "md": True}),
    "v1-three-columns": (None, STD7[:3], {}),
    "v2": (2, STD7[:6], {"counts": True}),
    "v3-minimum-length": (3, STD7[:6] + [(T_ML3, "md")], {"counts": True, "md": True}),
    "v3-with-v4-title": (3, STD7, {"counts": True}),
    "v4-with-v3-title": (4, STD7[:6] + [(T_ML3, "md")], {"counts": True}),
    "permuted": (4, [STD7[0], STD7[6], STD7[2], STD7[5], STD7[4], STD7[1], STD7[3]], {"counts": True, "md": True}),
    "time-first": (4, [STD7[1], STD7[0]] + STD7[2:], "IOError"),
    "coordinate-missing": (4, STD7[:2] + STD7[3:], "IOError"),
    "time-missing": (4, [STD7[0]] + STD7[2:], "IOError"),
    "duplicate-coordinate": (4, STD7[:5] + [(T_C, "c2")], {"coord": "second"}),
    "extra-column": (4, STD7[:3] + [("foo (bar)", "junk")] + STD7[3:], {"counts": True, "md": True}),
    "counts-other-title": (4, STD7[:5] + [("photon counts", "cnt")], {"counts": True}),
    "two-counts-columns": (4, STD7[:5] + [(T_CNT, "cnt"), ("counts (summed over 5 pixels)", "cnt2")], {"counts": True}),
    "header-shorter": (4, STD7, {"counts": True}),        # the last title is left out: that column has no key
    "header-longer": (4, STD7, {"counts": True, "md": True}),  # one more title than columns
    "ragged": (4, STD7, "IOError"),
    "index-other-title": (4, [("particle", "idx")] + STD7[1:], {"counts": True, "md": True}),
    "index-title-with-counts": (4, [("counts index", "idx")] + STD7[1:5] + [STD7[6]], None),
    "non-integer-time": (4, STD7, None),
}


def hdr_case(variant, base, delim, stream):
    """base rows [idx, t, c, cnt, md] -> cells under the variant's titles"""
    version, cols, expect = HDR_VARIANTS[variant]
    lt, px = 0.125, 0.1
    # minimum durations with at most seven significant digits: when a refactoring leaves the six-decimal CSV column as
    # the only way to observe them (builders_tracks.MD_LOSSY) the observation is still exact
    base = [[r[0], r[1], r[2], r[3], float("%.6e" % r[4])] for r in base]
    if variant == "non-integer-time":
        base = [[r[0], r[1] + 0.5, r[2], r[3], r[4]] for r in base]
    val = {"idx": lambda r: float(r[0]), "t": lambda r: float(r[1]), "c": lambda r: r[2], "sec": lambda r: r[1] * lt, "pos": lambda r: r[2] * px,
           "cnt": lambda r: float(r[3]), "md": lambda r: r[4], "c2": lambda r: r[2] + 1.0, "junk": lambda r: 7.0, "cnt2": lambda r: float(r[3] + 1)}
    cells = [[val[k](r) for _, k in cols] for r in base]
    titles = [t for t, _ in cols]
    if variant == "header-shorter":
        titles = titles[:-1]
    if variant == "header-longer":
        titles = titles + ["one more"]
    if variant == "ragged" and cells:
        cells[-1] = cells[-1][:-1]
        if len(cells) == 1:
            cells.insert(0, [val[k](base[0]) for _, k in cols])
            base = [base[0]] + base
    kk = {"route": "array", "cal": "um", "n_lines": 8, "n_pixels": 8, "img_seed": 1, "px_um": 0.1, "lt": 0.125}
    return {"stream": stream, "kind": "hdr", "k": kk, "variant": variant, "version": version, "titles": titles, "cells": cells,
            "base": base, "expect": expect, "delim": delim}


def small_group_case(ops_, tracks=None, lt=0.125, cal="um"):
    k = {"route": "array", "cal": cal, "n_lines": 8, "n_pixels": 8, "img_seed": 5, "px_um": 0.1, "lt": lt}
    if tracks is None:
        tracks = [
            {"t": [0, 1, 3, 4], "c": [1.0, 1.5, 2.5, 2.0], "md": 0.25, "hw": 1},
            {"t": [3, 6], "c": [5.0, 4.25], "md": None, "hw": None},
            {"t": [5], "c": [3.3], "md": 0.0, "hw": 1},
        ]
    return {"stream": "small-scope", "kind": "prog", "k": k, "tracks": tracks, "ops": ops_}


def cases(tier, rng):
    quick = tier == "quick"
    # ---- corpus: finding inputs (also kept as files under corpus/C17) and minimised past disagreements
    for c in load_corpus():
        yield c

    # ---- malformed stream
    kk = {"route": "array", "cal": "um", "n_lines": 8, "n_pixels": 8, "img_seed": 1, "px_um": 0.1, "lt": 0.125}
    yield {"stream": "malformed", "kind": "rt", "k": kk, "tracks": [], "delim": ";", "sw": None, "co": True}
    yield {"stream": "malformed", "kind": "rt", "k": kk, "tracks": [], "delim": ",", "sw": 1, "co": True}
    base_rows = [[0, 1, 2.5, 3, 0.5], [0, 2, 2.75, 4, 0.5], [1, 0, 1.0, 5, 0.25]]
    for d in DELIMS:
        yield {"stream": "malformed", "kind": "read", "k": kk, "rows": [], "delim": d, "has_counts": False, "has_md": True}
        yield {"stream": "malformed", "kind": "read", "k": kk, "rows": [[0, 1, "X", 3, 0.5]] + base_rows, "delim": d, "has_counts": True, "has_md": True}
        yield {"stream": "malformed", "kind": "read", "k": kk, "rows": base_rows + [[1, 3, 1.5, 1, 0.75]], "delim": d, "has_counts": False, "has_md": True}
        yield {"stream": "malformed", "kind": "read", "k": kk, "rows": base_rows + [[1, 3, 1.5, 1, 0.75]], "delim": d, "has_counts": True, "has_md": False}
    for ops_ in ([["s", 0, 0, 1]], [["s", 0, 4, 1]], [["s", 0, -1, 1]], [["s", 2, 1, 1]], [["s", 0, 99, 0]],
                 [["m", 0, 2, 1, 0]], [["m", 0, 4, 1, 0]], [["m", 0, 0, 1, 2]], [["m", 0, -1, 1, 1]], [["m", 0, 1, 1, -1]],
                 [["m", 0, -5, 1, 0]], [["m", 1, 0, 0, -2]], [["m", 0, 2, 0, 2]], [["s", 0, 0, 1], ["m", 0, 1, 1, 1], ["s", 0, 9, 1]]):
        c = small_group_case(ops_)
        c["stream"] = "malformed"
        yield c
    for w in (0.05, 0.2, 0.29):
        yield {"stream": "malformed", "kind": "refine", "k": {"route": "array", "cal": "um", "n_lines": 8, "n_pixels": 12, "img_seed": 3, "px_um": 0.1, "lt": 0.125},
               "tracks": [{"t": [1, 3], "c": [4.0, 5.0]}], "width": w, "bias": True, "width_invalid": True}

    # an overlap strategy the function does not know: refused, or whatever comes back still stays inside the spans
    for strategy in ("", "Skip", "overlap"):
        yield {"stream": "malformed", "kind": "gauss", "k": {"route": "array", "cal": "um", "n_lines": 8, "n_pixels": 12, "img_seed": 3, "px_um": 0.1, "lt": 0.125},
               "tracks": [{"t": [1, 3], "c": [4.0, 5.0]}, {"t": [2, 3, 5], "c": [7.0, 7.0, 8.0]}], "window": 3, "missing": True, "strategy": strategy,
               "strategy_invalid": True}
    # a merge in which one of the two tracks is not a member of the group (every pair of the 3-track group, either side)
    for i, j in itertools.product(range(3), repeat=2):
        for side in ("a", "b"):
            for ni, nj in ((0, 0), ([3, 1, 0][i], 0), (0, [3, 1, 0][j])):
                c = small_group_case([["x", i, ni, j, nj, side]])
                c["stream"] = "malformed"
                yield c
    c = small_group_case([["s", 0, 2, 1], ["x", 2, 1, 3, 0, "b"], ["m", 2, 1, 3, 0], ["x", 0, 0, 2, 3, "a"]])
    c["stream"] = "malformed"
    yield c

    # ---- exhaustive small scope: round trip
    shapes = list(range(len(SHAPES)))
    combos = [(a,) for a in shapes]
    pair_src = shapes[:3] if quick else shapes
    combos += list(itertools.product(pair_src, repeat=2))
    if not quick:
        combos += list(itertools.product([0, 3, 5], repeat=3))
    for combo in combos:
        for delim in DELIMS:
            for sw in (None, 0, 1):
                for mdp in ("none", "zero", "quarter", "mixed"):
                    if mdp == "mixed" and (len(combo) < 2 or delim != ";"):
                        continue
                    for cal in ("um", "kbp", "pixel"):
                        if quick and len(combo) == 2 and cal == "kbp" and delim == ",":
                            continue
                        tracks = []
                        for n, s in enumerate(combo):
                            md = {"none": None, "zero": 0.0, "quarter": 0.25, "mixed": (None if n == 0 else 0.5)}[mdp]
                            tracks.append({"t": SHAPES[s], "c": SHAPE_COORDS[s], "md": md, "hw": None})
                        k = {"route": "array" if cal == "pixel" else "lowlevel", "cal": cal, "n_lines": 7, "n_pixels": 6, "img_seed": 11,
                             "px_um": 0.07, "lt": 0.125, "dt_ns": 12800, "spp": 2, "pad": 1}
                        yield {"stream": "small-scope", "kind": "rt", "k": k, "tracks": tracks, "delim": delim, "sw": sw, "co": True}

    # ---- exhaustive small scope: editing one 3-track group (lengths 4, 2, 1)
    lens = [4, 2, 1]
    for i, n in enumerate(lens):
        for node in range(-2, n + 3):
            for minlen in (0, 1, 2, 3):
                yield small_group_case([["s", i, node, minlen]])
    for i, j in itertools.product(range(3), repeat=2):
        for ni in range(-1, lens[i] + 1):
            for nj in range(-1, lens[j] + 1):
                yield small_group_case([["m", i, ni, j, nj]])
    for L in range(0, 6):
        for D in [0, 0.125, 0.25, 0.375, 0.5, 0.625, 0.0625, 0.3, 0.49, 0.51, 1.0]:
            yield small_group_case([["f", L, D]])
    for bits in range(1, 64):
        t = [b for b in range(6) if bits >> b & 1]
        for pat in (0, 1):
            c = [float(b) if pat == 0 else [1.5, 0.25, 4.75, 3.0, 3.5, 0.0][b] for b in t]
            yield small_group_case([["i"]], tracks=[{"t": t, "c": c, "md": 0.5 if pat else None, "hw": 1 if pat else None}])
    # compositions: split then reconnect the parts (every inner node), interpolate twice, filter twice
    for i, n in enumerate(lens):
        for node in range(1, n):
            for minlen in (0, 1):
                yield small_group_case([["s", i, node, minlen], ["m", 2, node - 1, 3, 0]])
                yield small_group_case([["s", i, node, minlen], ["m", 3, 0, 2, node - 1]])
    for bits in (0b101, 0b100101, 0b110001, 0b1, 0b111):
        t = [b for b in range(6) if bits >> b & 1]
        yield small_group_case([["i"], ["i"]], tracks=[{"t": t, "c": [[1.5, 0.25, 4.75, 3.0, 3.5, 0.0][b] for b in t], "md": 0.5, "hw": 1}])
    for (L1, D1), (L2, D2) in itertools.product([(0, 0), (2, 0.25), (3, 0.125), (1, 0.5), (4, 0.3)], repeat=2):
        yield small_group_case([["f", L1, D1], ["f", L2, D2]])
    # rectangles on the grid of the small group (bounds half-way between nodes / lines)
    for t0, t1 in ((-0.0625, 0.3125), (0.3125, 0.8125), (0.5625, 0.0625), (-1.0, 2.0)):
        for x0, x1 in ((0.05, 0.27), (0.27, 0.6), (0.6, 0.05), (-1.0, 1.0)):
            for allp in (False, True):
                yield small_group_case([["r", t0, x0, t1, x1, allp]])
    # hand-written files: every assignment of 4 rows to the track indices {0, 1, 3}
    for assign in itertools.product([0, 1, 3], repeat=4):
        rows = [[a, n, 1.0 + 0.25 * n, n + 1, 0.5] for n, a in enumerate(assign)]
        yield {"stream": "small-scope", "kind": "read", "k": kk, "rows": rows, "delim": ";", "has_counts": assign[0] == 0, "has_md": assign[1] != 1}
    # sampled photon counts: a node at every quarter pixel of a 6-pixel line x every width x both pixel origins
    ks = {"route": "array", "cal": "um", "n_lines": 24, "n_pixels": 6, "img_seed": 9, "px_um": 0.1, "lt": 0.125}
    grid = [q / 4 for q in range(0, 22)]  # 0 .. 5.25 (pixel centres at integers; the last pixel ends at 5.5)
    for w in (0, 1, 2, 5):
        for co in (True, False):
            cs = safe_coords(grid if co else grid + [5.5, 5.75])
            yield {"stream": "small-scope", "kind": "sample", "k": ks, "tracks": [{"t": list(range(len(cs))), "c": cs, "md": None, "hw": None}], "w": w, "co": co}
    # header variants: every variant x every delimiter on one three-row file, and on a single-row file
    for variant in HDR_VARIANTS:
        for d in DELIMS:
            yield hdr_case(variant, [[0, 1, 2.5, 3, 0.5], [2, 0, 1.0, 5, 0.25], [0, 2, 2.75, 4, 0.5]], d, "small-scope")
        yield hdr_case(variant, [[1, 3, 1.5, 2, 0.75]], ";", "small-scope")
    # %.6e on a grid incl. ties and carries
    for x in [0.0, 1.0, 0.5, 0.1, 1e-5, 123456.75, 1234567.5, 12345675.0, 12345665.0, 9999999.5, 99999995.0, 0.00099999995, 1.0000005, 2.5e-7, 3.0000015,
              0.125 * 7, 1 / 3, 2 / 3, 1e22, 1e-22, 5e-324 * 2**60]:
        yield {"stream": "small-scope", "kind": "fmt", "x": x}

    # ---- small scope: refinement of a group without tracks (no track in, no track out), every option
    ke = {"route": "array", "cal": "um", "n_lines": 8, "n_pixels": 12, "img_seed": 3, "px_um": 0.1, "lt": 0.125}
    for cal in ("um", "kbp", "pixel"):
        kc = dict(ke, cal=cal, **({"kbp": 3.6} if cal == "kbp" else {}))
        for bias in (False, True):
            for width in (None, {"um": 0.5, "kbp": 1.5, "pixel": 5.0}[cal]):
                yield {"stream": "small-scope", "kind": "refine", "k": kc, "tracks": [], "width": width, "bias": bias}
        for strategy in ("ignore", "skip", "simultaneous", "multiple"):
            for missing in (False, True):
                yield {"stream": "small-scope", "kind": "gauss", "k": kc, "tracks": [], "window": 3, "missing": missing, "strategy": strategy}
    # ---- small scope: the default track width (None) on one track with a gap, every calibration x pixel size
    for cal, px_um in (("um", 0.1), ("um", 0.05), ("um", 0.08), ("um", 0.15), ("um", 0.2), ("kbp", 0.1), ("pixel", 0.1)):
        kc = dict(ke, cal=cal, px_um=px_um, n_pixels=16, **({"kbp": 4.8} if cal == "kbp" else {}))
        for bias in (False, True):
            yield {"stream": "small-scope", "kind": "refine" if (bias or cal == "pixel") else "centroid", "k": kc,
                   "tracks": [{"t": [1, 2, 5], "c": [6.02, 7.01, 8.03], "md": 0.25, "hw": None}, {"t": [4], "c": [11.02]}], "width": None, "bias": bias}
    # ---- small scope: round trip with the saved text handed over as an open text stream
    for combo in ((0,), (1,), (4,), (0, 1), (3, 5)):
        for delim in DELIMS:
            for sw in (None, 1):
                tracks = [{"t": SHAPES[s_], "c": SHAPE_COORDS[s_], "md": (None if sw is None else 0.25), "hw": None} for s_ in combo]
                k = {"route": "array", "cal": "um", "n_lines": 7, "n_pixels": 6, "img_seed": 11, "px_um": 0.07, "lt": 0.125}
                yield {"stream": "small-scope", "kind": "rt", "k": k, "tracks": tracks, "delim": delim, "sw": sw, "co": True, "io": "handle"}

    # ---- small scope: one noise-free spot at a fixed distance from the first / last pixel, every strategy
    n = 0
    for side in ("lo", "hi"):
        for dist in EDGE_DISTS:
            for strategy in ("ignore", "simultaneous", "skip"):
                for missing in (False, True):
                    n += 1
                    yield gen_edge_case(Rng(7000 + n), n, "gauss", side=side, dist=dist, sigma=1.2, stream="small-scope", n_pixels=24,
                                        n_lines=6, ntr=1, cal="um", px_um=0.1, strategy=strategy, missing=missing)
            for bias in (False, True):
                n += 1
                yield gen_edge_case(Rng(7000 + n), n, "refine", side=side, dist=dist, sigma=1.2, stream="small-scope", n_pixels=24,
                                    n_lines=6, ntr=1, cal="um", px_um=0.1, bias=bias)

    # ---- random: round trips
    N = 400 if quick else 4000
    r = rng.fork("c17-rt")
    for i in range(N):
        yield gen_rt_case(r.fork(i), i, quick)
    # the same, the saved text handed to the importer as an open text stream instead of a path
    N = 40 if quick else 400
    r = rng.fork("c17-rt-handle")
    for i in range(N):
        yield dict(gen_rt_case(r.fork(i), i, quick), io="handle")

    # ---- random: editing programs
    N = 800 if quick else 10000
    r = rng.fork("c17-prog")
    for i in range(N):
        sub = r.fork(i)
        dyadic = sub.chance(0.6)
        n_lines = sub.randint(6, 40)
        n_pixels = sub.randint(6, 30)
        k = kspec(sub, n_lines=n_lines, n_pixels=n_pixels, dyadic=dyadic)
        tracks = []
        for n in range(sub.randint(1, 8)):
            t, c = B.random_track(sub, n_lines, n_pixels, max_points=15, gap_chance=sub.choice([0.0, 0.3, 0.6]))
            tracks.append({"t": t, "c": c, "md": sub.choice([None, None, 0.0, md_value(sub)]), "hw": sub.choice([None, None, 1])})
        yield gen_program(sub, k, tracks, i)
    # programs that start by trying to connect a member of the group to a track that is not in the group
    N = 40 if quick else 400
    r = rng.fork("c17-prog-foreign")
    for i in range(N):
        sub = r.fork(i)
        n_lines, n_pixels = sub.randint(6, 40), sub.randint(6, 30)
        k = kspec(sub, n_lines=n_lines, n_pixels=n_pixels, dyadic=sub.chance(0.6))
        tracks = []
        for n in range(sub.randint(1, 6)):
            t, c = B.random_track(sub, n_lines, n_pixels, max_points=15, gap_chance=sub.choice([0.0, 0.3, 0.6]))
            tracks.append({"t": t, "c": c, "md": sub.choice([None, None, 0.0, md_value(sub)]), "hw": sub.choice([None, None, 1])})
        a, b = sub.randint(0, len(tracks) - 1), sub.randint(0, len(tracks) - 1)
        x = ["x", a, sub.randint(0, len(tracks[a]["t"]) - 1), b, sub.randint(0, len(tracks[b]["t"]) - 1), sub.choice(["a", "b"])]
        c = gen_program(sub, k, tracks, i)
        c["ops"] = [x] + c["ops"]
        yield c

    # ---- random: hand-written files
    N = 120 if quick else 2000
    r = rng.fork("c17-read")
    for i in range(N):
        sub = r.fork(i)
        nrows = sub.randint(1, 25)
        ids = sub.sample(range(0, 12), sub.randint(1, 5))
        per = {a: sub.choice([0.0, 0.5, 0.25, 1.2345675, sub.uniform(0, 2)]) for a in ids}
        rows = []
        for n in range(nrows):
            a = sub.choice(ids)
            rows.append([a, sub.randint(0, 7), sub.choice([float(sub.randint(0, 7)), sub.uniform(0, 7)]), sub.randint(0, 50), per[a]])
        if sub.chance(0.08):
            rows[sub.randint(0, nrows - 1)][4] = 3.0  # conflicting minimum duration (if the track has other rows)
        yield {"stream": "random", "kind": "read", "k": kk, "rows": rows, "delim": sub.choice(DELIMS), "has_counts": sub.chance(0.5), "has_md": sub.chance(0.7), "subseed": i}

    # ---- random: header variants
    N = 150 if quick else 2000
    r = rng.fork("c17-hdr")
    names = sorted(HDR_VARIANTS)
    for i in range(N):
        sub = r.fork(i)
        ids = sub.sample(range(0, 9), sub.randint(1, 4))
        per = {a: sub.choice([0.0, 0.5, 0.25, 1.2345675, sub.uniform(0, 2)]) for a in ids}
        base = []
        for n in range(sub.randint(1, 12)):
            a = sub.choice(ids)
            base.append([a, sub.randint(0, 7), sub.choice([float(sub.randint(0, 7)), sub.uniform(0, 7)]), sub.randint(0, 50), per[a]])
        c = hdr_case(sub.choice(names), base, sub.choice(DELIMS), "random")
        c["subseed"] = i
        yield c

    # ---- random: %.6e
    N = 300 if quick else 10000
    r = rng.fork("c17-fmt")
    for i in range(N):
        sub = r.fork(i)
        c = sub.randint(0, 3)
        if c == 0:
            x = sub.loguniform(1e-9, 1e9)
        elif c == 1:
            x = (sub.randint(1000000, 9999999) * 10 + 5) * 10.0 ** sub.randint(-12, 3)  # near-ties
        elif c == 2:
            x = sub.randint(1, 2000) * sub.choice([0.125, 0.1, 0.0016, 1e-4])
        else:
            x = sub.randint(9999990, 10000009) / 10.0 ** sub.randint(0, 10)
        yield {"stream": "random", "kind": "fmt", "x": x, "subseed": i}

    # ---- random: refinement on synthetic spots
    N = 60 if quick else 400
    r = rng.fork("c17-refine")
    for i in range(N):
        sub = r.fork(i)
        yield gen_refine_case(sub, i, "refine")
    # centroid core without bias correction: spots in the interior, spots next to an image edge (zero padding, clamping),
    # and random photon-count images (windows with no counts at all, several maxima)
    N = 30 if quick else 300
    r = rng.fork("c17-centroid")
    for i in range(N):
        sub = r.fork(i)
        which = sub.randint(0, 2)
        if which == 0:
            c = gen_refine_case(sub, i, "refine")
        elif which == 1:
            c = gen_edge_case(sub, i, "refine")
        else:
            n_lines, n_pixels = sub.randint(6, 20), sub.randint(8, 24)
            k = {"route": "array", "cal": sub.choice(["um", "pixel"]), "n_lines": n_lines, "n_pixels": n_pixels, "img_seed": sub.randint(0, 10**6), "px_um": 0.1, "lt": 0.125}
            tracks = []
            for n in range(sub.randint(1, 3)):
                t, cs = B.random_track(sub, n_lines, n_pixels, max_points=8, gap_chance=0.4)
                tracks.append({"t": t, "c": cs, "md": sub.choice([None, 0.25]), "hw": None})
            px = 0.1 if k["cal"] == "um" else 1.0
            hk = sub.randint(1, 3)  # half kernel 1 only where 3 pixels is an exact double (validation: width >= 3 pixels)
            width = 3.0 if (hk == 1 and k["cal"] == "pixel") else px * (2 * max(hk, 2) + 1) * 0.999
            c = {"stream": "random", "kind": "refine", "k": k, "tracks": tracks, "width": width, "subseed": i}
        # keep the rounding of the interpolated coordinate to a pixel away from ties (float vs exact arithmetic)
        npx = c["k"]["n_pixels"]
        for tr in c["tracks"]:
            tr["c"] = [min(npx - 1.0, max(0.0, x + sub.uniform(0.003, 0.04))) for x in tr["c"]]
        c["kind"], c["bias"] = "centroid", False
        if which != 0:
            c["assert_truth"] = False
        yield c
    N = 15 if quick else 100
    r = rng.fork("c17-refine2")
    for i in range(N):
        c = gen_refine_case(r.fork(i), i, "refine")
        c["kind"], c["assert_truth"] = "refine2", False
        yield c
    N = 40 if quick else 200
    r = rng.fork("c17-gauss")
    for i in range(N):
        sub = r.fork(i)
        yield gen_refine_case(sub, i, "gauss")
    # ---- random: spots next to the first / last pixel (window clipped by the image)
    N = 30 if quick else 200
    r = rng.fork("c17-refine-edge")
    for i in range(N):
        yield gen_edge_case(r.fork(i), i, "refine")
    N = 40 if quick else 300
    r = rng.fork("c17-gauss-edge")
    for i in range(N):
        yield gen_edge_case(r.fork(i), i, "gauss")
    # ---- random: the default track width (track_width=None); half of them through the centroid model
    N = 16 if quick else 150
    r = rng.fork("c17-refine-default")
    for i in range(N):
        sub = r.fork(i)
        c = gen_refine_case(sub, i, "refine", px_um=sub.choice([0.1, 0.05, 0.08, 0.15, 0.25]))
        c["width"], c["assert_truth"] = None, False  # the default window is narrower than the spots: no accuracy claim
        if c["k"]["cal"] != "pixel" and sub.chance(0.5):
            npx = c["k"]["n_pixels"]
            for tr in c["tracks"]:  # as in the centroid stream: keep the rounding to a pixel away from ties
                tr["c"] = [min(npx - 1.0, max(0.0, x + sub.uniform(0.003, 0.04))) for x in tr["c"]]
            c["kind"], c["bias"] = "centroid", False
        yield c
    # ---- random: groups whose tracks come from several kymographs
    N = 16 if quick else 150
    r = rng.fork("c17-refine-multi")
    for i in range(N):
        yield gen_multi_kymo_case(r.fork(i), i, "refine")
    N = 12 if quick else 100
    r = rng.fork("c17-gauss-multi")
    for i in range(N):
        yield gen_multi_kymo_case(r.fork(i), i, "gauss")
    # ---- random: a lone interior spot fitted with a window narrower than the spot (the whole window is data: both its
    # ends matter to the fit)
    N = 12 if quick else 120
    r = rng.fork("c17-gauss-narrow")
    for i in range(N):
        sub = r.fork(i)
        c = gen_refine_case(sub, i, "gauss", ntr=1)
        c.update({"window": sub.choice([3, 3, 4]), "strategy": sub.choice(["ignore", "simultaneous", "multiple", "skip"]), "narrow": True, "assert_truth": True})
        yield c
    # ---- random: kymographs with more scan lines than pixels per line (line index > number of pixels)
    N = 15 if quick else 150
    r = rng.fork("c17-long")
    for i in range(N):
        sub = r.fork(i)
        kind = sub.choice(["gauss", "gauss", "refine", "centroid"])
        c = gen_refine_case(sub, i, "refine" if kind == "centroid" else kind, long=(40, 8))
        c["long"] = True
        if kind == "centroid":
            npx = c["k"]["n_pixels"]
            for tr in c["tracks"]:  # as in the centroid stream: keep the rounding to a pixel away from ties
                tr["c"] = [min(npx - 1.0, max(0.0, x + sub.uniform(0.003, 0.04))) for x in tr["c"]]
            c["kind"], c["bias"] = "centroid", False
        yield c
    # ---- random: the deprecated overlap strategy "multiple" (simultaneous fit without bounds between the peaks)
    N = 10 if quick else 100
    r = rng.fork("c17-gauss-multiple")
    for i in range(N):
        c = gen_refine_case(r.fork(i), i, "gauss")
        c["strategy"] = "multiple"
        yield c


def gen_rt_case(sub, i, quick):
    big = sub.chance(0.06 if quick else 0.1)
    n_lines = sub.randint(210, 420) if big else sub.randint(4, 40)
    n_pixels = sub.randint(5, 40)
    k = kspec(sub, n_lines=n_lines, n_pixels=n_pixels)
    ntr = sub.choice([1, 1, 2, 3, sub.randint(1, 20)])
    maxp = 200 if big else 15
    one_point = sub.chance(0.15)
    tracks = []
    hw_all = sub.choice([None, None, 1, 2])
    mdmode = sub.choice(["all", "all", "all", "none", "mixed"])
    lt_hint = k.get("lt") or 0.0005
    for n in range(ntr):
        t, c = B.random_track(sub, n_lines, n_pixels, max_points=1 if one_point else maxp, gap_chance=sub.choice([0.0, 0.3, 0.6]))
        md = None if mdmode == "none" or (mdmode == "mixed" and sub.chance(0.5)) else md_value(sub, lt_hint)
        hw = hw_all if not sub.chance(0.1) else sub.choice([None, 0, 1])
        tracks.append({"t": t, "c": safe_coords(c), "md": md, "hw": hw})
    return {"stream": "random", "kind": "rt", "k": k, "tracks": tracks, "delim": sub.choice(DELIMS),
           "sw": sub.choice([None, None, 0, 1, 2, 5]), "co": sub.choice([True, True, False]), "subseed": i}


def gen_refine_case(sub, i, kind, *, cal=None, px_um=None, sigma=None, ntr=None, long=None):
    """noise-free spots in the interior of the scan line; the keyword arguments replace the random draw of that
    quantity (the draw is still made, so the cases of the older streams are what they always were)"""
    n_pixels = sub.randint(30, 50)
    n_lines = sub.randint(8, 16 if kind == "gauss" else 30)
    if long is not None:
        # a kymograph with MORE scan lines than pixels per line (the usual shape of a recording), tracks of at most
        # long[1] lines anywhere along it
        n_lines = n_pixels + sub.randint(3, long[0])
    cal = [sub.choice(["um", "um", "kbp", "pixel"]), cal][cal is not None]
    k = {"route": "array", "cal": cal, "n_lines": n_lines, "n_pixels": n_pixels, "img": "spots", "px_um": sub.choice([0.1, 0.05, 0.08]), "lt": 0.125, "bg": 0.0}
    if px_um is not None:
        k["px_um"] = px_um
    if cal == "kbp":
        k["kbp"] = 0.3 * n_pixels
    sigma = [sub.uniform(1.0, 1.5), sigma][sigma is not None]
    hwid = int(math.ceil(4 * sigma))
    ntr = [sub.choice([1, 1, 2, 3]), ntr][ntr is not None]
    close = kind == "gauss" and ntr >= 2 and sub.chance(0.5)  # overlapping windows (no accuracy claim then)
    truth, tracks = [], []
    lanes = list(range(ntr))
    sub.shuffle(lanes)
    for n in range(ntr):
        lo = hwid + 2
        hi = n_pixels - hwid - 3
        if close:
            centre = (lo + hi) / 2 + (lanes[n] - (ntr - 1) / 2) * sub.uniform(1.5, 3.5)
        else:
            width = (hi - lo) / ntr
            centre = lo + width * (lanes[n] + 0.5)
        t0 = sub.randint(0, max(0, n_lines - 4))
        t1 = sub.randint(min(n_lines - 1, t0 + 1), n_lines - 1)
        if long is not None:
            if sub.chance(0.75):  # mostly on lines whose index exceeds the number of pixels
                t0 = sub.randint(min(n_pixels, n_lines - 4), n_lines - 4)
            t1 = min(n_lines - 1, t0 + sub.randint(1, long[1] - 1))
        ts = list(range(t0, t1 + 1))
        span = 0.6 if (close or ntr > 1) else 3.0
        cs, c = [], centre
        for _ in ts:
            c = min(centre + span, max(centre - span, c + sub.uniform(-0.5, 0.5)))
            cs.append(c)
        truth.append({"t": ts, "c": cs, "amp": sub.uniform(200, 800), "sigma": sigma})
        keep = [j for j in range(len(ts)) if j in (0, len(ts) - 1) or not sub.chance(0.35)]
        tracks.append({"t": [ts[j] for j in keep], "c": [float(round(cs[j])) if sub.chance(0.7) else cs[j] + sub.uniform(-0.4, 0.4) for j in keep],
                       "md": sub.choice([None, 0.0, 0.25]), "hw": sub.choice([None, 1])})
    case = {"stream": "random", "kind": kind, "k": k, "tracks": tracks, "truth": truth, "subseed": i}
    if kind == "refine":
        px = {"um": k["px_um"], "kbp": 0.3, "pixel": 1.0}[cal]
        case.update({"width": px * (2 * hwid + 1) * 0.999, "bias": sub.chance(0.7), "assert_truth": ntr == 1})
    else:
        strategy = sub.choice(["skip", "skip", "ignore", "simultaneous"]) if close else sub.choice(["skip", "ignore", "simultaneous"])
        case.update({"window": hwid if not close else sub.randint(2, hwid), "missing": sub.chance(0.5), "strategy": strategy, "assert_truth": ntr == 1})
    return case


def gen_multi_kymo_case(sub, i, kind):
    """a group whose tracks come from 2-3 kymographs of different sizes (same calibration unit, pixel size and spot
    width, so that one track width / window serves all): the tracks of the single-kymograph cases, interleaved in a
    random order.  With one spot per kymograph the true centre is asserted for every track — each track has to be
    refined on the image of its own kymograph and come back at its own place in the group."""
    nk = sub.choice([2, 2, 3])
    cal = sub.choice(["um", "um", "kbp", "pixel"])
    px_um = sub.choice([0.1, 0.05, 0.08])
    sigma = sub.uniform(1.0, 1.5)
    lone = sub.chance(0.6)
    parts = [gen_refine_case(sub.fork(n), i, kind, cal=cal, px_um=px_um, sigma=sigma, ntr=1 if lone else sub.choice([1, 2]))
             for n in range(nk)]
    slots = [(n, j) for n, p in enumerate(parts) for j in range(len(p["tracks"]))]
    sub.shuffle(slots)
    case = dict(parts[0])
    case["k_more"] = [p["k"] for p in parts[1:]]
    case["tracks"] = [dict(parts[n]["tracks"][j], kymo=n) for n, j in slots]
    case["truth"] = [dict(parts[n]["truth"][j], kymo=n) for n, j in slots]
    case["assert_truth"] = all(len(p["tracks"]) == 1 for p in parts)
    if kind == "gauss":
        case["window"] = int(math.ceil(4 * sigma))  # overlaps can only occur between tracks of the same kymograph
    return case


EDGE_DISTS = [3.0, 3.3, 3.75, 4.2, 4.6, 5.1, 5.5, 6.4]  # pixels, for sigma = 1.2 (window 5): clipped up to 5.x, just free at 6.4
EDGE_MIN_SIGMAS = 2.5  # a spot near the image edge keeps its centre at least this many sigma inside the image


def gen_edge_case(sub, i, kind, *, side=None, dist=None, sigma=None, stream="random", **fixed):
    """one (or two) noise-free spot(s) whose fitting / summing window is CLIPPED by the first or last pixel of the scan
    line: the centre stays between EDGE_MIN_SIGMAS·sigma and (window + 1.5) pixels from that pixel.  A second track, if
    any, sits in the interior.  The true centre is asserted for a lone spot with the tolerances TOL_SPOT_EDGE."""
    n_pixels = fixed.get("n_pixels") or sub.randint(30, 50)
    n_lines = fixed.get("n_lines") or sub.randint(6, 14)
    cal = fixed.get("cal") or sub.choice(["um", "um", "kbp", "pixel"])
    k = {"route": "array", "cal": cal, "n_lines": n_lines, "n_pixels": n_pixels, "img": "spots",
         "px_um": fixed.get("px_um") or sub.choice([0.1, 0.05, 0.08]), "lt": 0.125, "bg": 0.0}
    if cal == "kbp":
        k["kbp"] = 0.3 * n_pixels
    sigma = sigma if sigma is not None else sub.uniform(1.0, 1.5)
    hwid = int(math.ceil(4 * sigma))
    side = side or sub.choice(["lo", "hi"])
    dmin = EDGE_MIN_SIGMAS * sigma
    wander = 0.0 if dist is not None else 0.6
    d0 = dist if dist is not None else sub.uniform(dmin + wander, hwid + 1.5 - wander)  # hwid >= 4 sigma: never empty
    ntr = fixed.get("ntr") or sub.choice([1, 1, 1, 2])
    truth, tracks = [], []
    for n in range(ntr):
        if n == 0:
            t0 = sub.randint(0, max(0, n_lines - 4))
            t1 = sub.randint(min(n_lines - 1, t0 + 1), n_lines - 1)
        else:
            t0, t1 = 0, n_lines - 1
        ts = list(range(t0, t1 + 1))
        ds, d = [], d0
        for _ in ts:
            if n == 0:
                d = min(d0 + wander, max(d0 - wander, d + sub.uniform(-0.5, 0.5))) if wander else d0
            else:  # interior companion, far from the edge spot and from both edges
                d = (n_pixels - 1) / 2 + 3 + sub.uniform(-0.3, 0.3)
            ds.append(d)
        cs = [x if side == "lo" else (n_pixels - 1) - x for x in ds]
        truth.append({"t": ts, "c": cs, "amp": sub.uniform(200, 800), "sigma": sigma})
        keep = [j for j in range(len(ts)) if j in (0, len(ts) - 1) or not sub.chance(0.35)]
        tracks.append({"t": [ts[j] for j in keep],
                       "c": [float(round(cs[j])) if sub.chance(0.7) else min(n_pixels - 1.0, max(0.0, cs[j] + sub.uniform(-0.4, 0.4))) for j in keep],
                       "md": sub.choice([None, 0.0, 0.25]), "hw": sub.choice([None, 1])})
    case = {"stream": stream, "kind": kind, "k": k, "tracks": tracks, "truth": truth, "subseed": i, "edge": side}
    if kind == "refine":
        px = {"um": k["px_um"], "kbp": 0.3, "pixel": 1.0}[cal]
        case.update({"width": px * (2 * hwid + 1) * 0.999, "bias": fixed["bias"] if "bias" in fixed else sub.chance(0.7), "assert_truth": ntr == 1})
    else:
        case.update({"window": fixed.get("window") or hwid, "missing": fixed["missing"] if "missing" in fixed else sub.chance(0.5),
                     "strategy": fixed.get("strategy") or sub.choice(["skip", "ignore", "simultaneous"]), "assert_truth": ntr == 1})
    return case


def gen_program(sub, k, tracks, i):
    """valid-biased program; the generator follows the group with a light simulation of the time indices only"""
    lt = Fraction(k["lt"]) if k["route"] == "array" else None
    dyadic = lt is not None and lt.denominator & (lt.denominator - 1) == 0 and lt.denominator <= 64
    sim = [list(tr["t"]) for tr in tracks]
    ops_ = []
    for _ in range(sub.randint(1, 8)):
        if not sim:
            break
        c = sub.randint(0, 9)
        if c <= 2:  # split
            idx = sub.randint(0, len(sim) - 1)
            n = len(sim[idx])
            node = sub.choice([sub.randint(1, max(1, n - 1)), sub.randint(1, max(1, n - 1)), 0, n, 1, n - 1, -1, n + 1])
            minlen = sub.choice([0, 1, 1, 2, 3])
            ops_.append(["s", idx, node, minlen])
            if 0 < node < n:
                tr = sim.pop(idx)
                sim += [p for p in (tr[:node], tr[node:]) if len(p) >= minlen]
        elif c <= 5:  # merge
            a, b = sub.randint(0, len(sim) - 1), sub.randint(0, len(sim) - 1)
            na, nb = sub.randint(0, len(sim[a]) - 1), sub.randint(0, len(sim[b]) - 1)
            if sub.chance(0.1):
                na = sub.choice([-1, len(sim[a]), na])
            ops_.append(["m", a, na, b, nb])
            if 0 <= na < len(sim[a]) and sim[a][na] != sim[b][nb]:
                if sim[a][na] > sim[b][nb]:
                    a, na, b, nb = b, nb, a, na
                merged = sim[a][: na + 1] + sim[b][nb:]
                if sorted(set(merged)) != merged:
                    ops_.pop()  # would create a track whose lines are not increasing (crossing tracks): not generated
                    continue
                sim[a] = merged
                if a != b:
                    del sim[b]
            elif not (0 <= na < len(sim[a])):
                # negative / out-of-range node: the model mirrors Python's wrap-around; stop following the group
                break
        elif c <= 7:  # filter
            L = sub.choice([0, 1, 2, 2, 3, 5])
            spans = sorted(set(tr[-1] - tr[0] for tr in sim))
            s = sub.choice(spans + [0])
            if k["route"] == "array" and dyadic:
                D = float(lt * s) if sub.chance(0.6) else float(lt * s) + float(lt) * sub.choice([0.5, -0.5, 0.25])
            else:
                ltf = float(k["lt"]) if k["route"] == "array" else (k["n_pixels"] * k["spp"] + k["pad"]) * k["dt_ns"] * 1e-9
                D = (s + sub.choice([0.5, -0.5, 0.3])) * ltf
            D = max(D, 0.0)
            ops_.append(["f", L, D])
            ltx = lt if lt is not None else Fraction((k["n_pixels"] * k["spp"] + k["pad"]) * k["dt_ns"], 10**9)
            sim = [tr for tr in sim if len(tr) >= L and (tr[-1] - tr[0]) * ltx >= Fraction(D)]
        elif c == 8:
            ops_.append(["i"])
            sim = [list(range(tr[0], tr[-1] + 1)) for tr in sim]
        else:  # rectangle with bounds half-way between lines; positions get a margin check at run time (see prepare_rect)
            ltf = float(k["lt"]) if k["route"] == "array" else (k["n_pixels"] * k["spp"] + k["pad"]) * k["dt_ns"] * 1e-9
            a, b = sub.randint(-1, k["n_lines"]), sub.randint(-1, k["n_lines"])
            ops_.append(["r", (a + 0.5) * ltf, None, (b + 0.5) * ltf, None, sub.chance(0.5), sub.randint(0, 10**6)])
            break  # the simulation does not follow coordinates; a rectangle ends the program
    case = {"stream": "random", "kind": "prog", "k": k, "tracks": tracks, "ops": ops_, "subseed": i}
    return fix_rect(case)


def fix_rect(case):
    """choose the position bounds of a trailing rectangle op with a margin from every (possibly interpolated) position"""
    ops_ = case["ops"]
    if not ops_ or ops_[-1][0] != "r" or ops_[-1][2] is not None:
        return case
    op = ops_[-1]
    sub = Rng(op[6])
    k = case["k"]
    px = {"um": k["px_um"], "pixel": 1.0}.get(k["cal"]) or (k["kbp"] / k["n_pixels"])
    # all exact positions any track can have on integer lines: original nodes and exact interpolants
    cands = set()
    for tr in case["tracks"]:
        for (t0, c0), (t1, c1) in zip(zip(tr["t"], tr["c"]), zip(tr["t"][1:], tr["c"][1:])):
            for t in range(t0, t1 + 1):
                cands.add(Fraction(c0) + (Fraction(c1) - Fraction(c0)) * Fraction(t - t0, t1 - t0))
        cands.add(Fraction(tr["c"][0]))
    bounds = []
    for _ in range(2):
        for _try in range(50):
            b = sub.uniform(-1.0, k["n_pixels"])
            if all(abs(Fraction(b) - c) > Fraction(1, 10**6) for c in cands):
                break
        bounds.append(b * px)
    case["ops"] = ops_[:-1] + [["r", op[1], bounds[0], op[3], bounds[1], op[5]]]
    return case


def extra_coverage(results):
    kinds, errs, delims, sws, cals, sizes, nodes, opsk, mdk, routes = {}, {}, {}, {}, {}, {}, {}, {}, {}, {}
    refk = {}

    def bump(d, key):
        d[str(key)] = d.get(str(key), 0) + 1

    single_row = 0
    walk = {}
    winc = {}
    hdrk = {}
    skipped = {}
    plus_twins = 0
    for r in results:
        c = r["case"]
        bump(kinds, c["kind"])
        if any(a.split(" ## ")[0] == UNREACHABLE for a in r["impl"]):
            bump(skipped, c["kind"])
        if c["kind"] == "prog":
            plus_twins += len(split_aux(r["impl"][0])[1].get("plus", []))
        for a in r["impl"]:
            head = a.split(" ## ")[0]
            if head.endswith("Error"):
                bump(errs, c["kind"] + ":" + head)
            m = re.match(r"\[([^\]]*)\] ", head)
            if c["kind"] == "prog" and m:
                for e in m.group(1).split(","):
                    if e and e != "-":
                        bump(errs, "prog-step:" + e)
        if c["kind"] in ("sample", "rt") and c.get("sw" if c["kind"] == "rt" else "w") is not None and c.get("tracks"):
            w, npx = c["sw"] if c["kind"] == "rt" else c["w"], c["k"]["n_pixels"]
            off = 0.5 if c["co"] else 0.0
            for tr in c["tracks"]:
                for x in tr["c"]:
                    lo, hi = int(x + off) - w < 0, int(x + off) + w > npx - 1
                    bump(winc, "clipped-both-sides" if lo and hi else "clipped-at-first-pixel" if lo else "clipped-at-last-pixel" if hi else "inside")
        if c["kind"] == "centroid" and not r["impl"][0].split(" ## ")[0].endswith("Error"):
            aux = split_aux(r["impl"][0])[1]
            for o, st in zip(aux.get("orig", []), aux.get("state", [])):
                got = dict(zip(st["t"], st["c"]))
                for t, x in zip(o["t"], o["c"]):
                    if t in got:
                        d = abs(got[t] - round(x))
                        bump(walk, "stayed-on-the-start-pixel" if d <= 0.5 else "walked-1-pixel" if d <= 1.5 else "walked-2+-pixels")
        if c["kind"] == "hdr":
            bump(hdrk, c["variant"] + ":" + ("error" if r["impl"][0].split(" ## ")[0].endswith("Error") else "imported"))
        if c["kind"] == "rt":
            bump(delims, {";": "semicolon", ",": "comma", "\t": "tab"}[c["delim"]])
            bump(sws, c["sw"])
            bump(cals, c["k"].get("cal"))
            bump(routes, c["k"].get("route"))
            n = len(c["tracks"])
            bump(sizes, "0" if n == 0 else "1" if n == 1 else "2-5" if n <= 5 else "6-20")
            tot = sum(len(t["t"]) for t in c["tracks"])
            single_row += tot == 1
            mx = max([len(t["t"]) for t in c["tracks"]] + [0])
            bump(nodes, "1" if mx <= 1 else "2-15" if mx <= 15 else "16-200")
            mds = [t.get("md") for t in c["tracks"]]
            if mds:
                if all(m is None for m in mds):
                    bump(mdk, "none")
                elif any(m is None for m in mds):
                    bump(mdk, "mixed")
                elif all(float("%.6e" % m) == m for m in mds):
                    bump(mdk, "representable")
                else:
                    bump(mdk, "not-representable-with-6-decimals")
        if c["kind"] in ("refine", "refine2", "centroid", "gauss"):
            where = {"lo": "first-pixel-edge", "hi": "last-pixel-edge"}.get(c.get("edge"), "interior")
            bump(refk, f"{c['kind']}:{where}:{'centre-asserted' if c.get('assert_truth') else 'lines-only'}")
            if c["kind"] == "gauss" and c.get("edge") == "lo":
                # the window start is clamped to pixel 0 exactly when int(coordinate) < window
                clamped = any(int(x) < c["window"] for tr in c["tracks"][:1] for x in tr["c"])
                bump(refk, "gauss:window-start-clamped" if clamped else "gauss:first-pixel-edge-unclamped")
        if c["kind"] == "prog":
            for op in c["ops"]:
                bump(opsk, {"s": "split", "m": "merge", "f": "filter", "i": "interpolate", "r": "remove_in_rect"}[op[0]])
    return {
        "case_kinds": kinds, "error_kinds": errs, "roundtrip_delimiters": delims, "roundtrip_sampling_widths": sws,
        "roundtrip_calibrations": cals, "roundtrip_kymo_routes": routes, "roundtrip_group_sizes": sizes,
        "roundtrip_longest_track": nodes, "roundtrip_single_row_files": single_row, "roundtrip_minimum_durations": mdk,
        "header_variants": hdrk, "sampling_windows": winc, "centroid_pixel_walk": walk, "program_ops": opsk, "refinement_spot_places": refk, "dropped_for_margin": 0,
        "private_ties": {k: dict(v) for k, v in sorted(B.PRIVATE_TIES.items())},
        "private_ties_note": "how often each private pylake member was reached directly / replaced by its public twin / "
                             "rediscovered under another name / unreachable (the case is then skipped as '?')",
        "skipped_unreachable_cases": skipped, "merges_also_checked_through_public_add": plus_twins,
        "minimum_durations_read_from_csv_column": bool(B.MD_LOSSY),
        "margin_note": "no case is dropped: coordinates within 1e-6 of 0.5 are moved by 0.01 at generation, filter thresholds and "
                       "rectangle bounds are drawn with their margin, merges that would cross two tracks (non-increasing lines) are re-drawn",
        "exhaustive": False,
        "exhaustive_note": "the small-scope stream enumerates its finite space completely; the random streams do not",
    }
