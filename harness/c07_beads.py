"""Bead stacks for C07: camera stacks whose pixel content is two Gaussian spots ("beads"), so that one can SEE where
the image content of two chosen points ends up after `define_tether` rotates (skimage.warp: interpolated pixel values,
no longer decodable index by index) and after crops/frame selections around it.

A bead spec is a `builders_tiff` spec (same timing/metadata keys, so `builders_tiff.page_table` applies) plus

    beads       [[px, py], [qx, qy]]  where the full (un-cropped, un-tethered) image pylake DISPLAYS shows the two beads
                (x, y in pixels, pixel centres at integers); the first bead is the brighter one (AMP vs 0.6 AMP)
    sigma       Gaussian width of the spots (pixels)
    mats        None | three Bluelake "Channel k alignment" matrices [a00, a01, a02, a10, a11, a12] (rgb only)
    aoff        [xo, yo] = origin of the alignment ROI minus origin of the ROI (TransformMatrix.from_alignment offsets)
    roi_xy      [x, y] origin of the camera ROI in the metadata
    open_align  the `align=` argument of ImageStack

For a channel that pylake aligns (rgb, matrices present, align=True) the bead is drawn in the RAW channel at
`A_eff · p` (A_eff = the Bluelake matrix re-expressed for the ROI offset, Bluelake's own recipe), so that the aligned image
shows it at `p` in every colour; whether it really does is measured by the harness before the tether is defined (the
"pre" observation), not assumed.
"""
import json
import math
import os
import shutil
import tempfile
import warnings

import numpy as np

import builders_tiff as bt

AMP = 40000.0
SECOND = 0.6  # relative brightness of the second bead


def win_radius(sigma):
    return int(math.ceil(3 * sigma)) + 1


def make_bead_spec(h, w, n, colour, beads, sigma, mats=None, aoff=(0, 0), roi_xy=(0, 0), open_align=True,
                   t0=bt.T0, period=100_000_000, exposure=40_000_000):
    spec = bt.make_spec(files=(n,), h=h, w=w, colour=colour, t0=t0, period=period, exposure=exposure)
    spec.update(kind="beads", beads=[[float(v) for v in b] for b in beads], sigma=float(sigma),
                mats=None if mats is None else [[float(v) for v in m] for m in mats],
                aoff=[int(v) for v in aoff], roi_xy=[int(v) for v in roi_xy], open_align=bool(open_align))
    return spec


def aligned(spec):
    """does pylake apply the alignment matrices to this stack?"""
    return spec["colour"] == "rgb" and spec["mats"] is not None and spec["open_align"]


def effective_matrix(m, xo, yo):
    """Bluelake's recipe for an ROI whose origin is offset from the alignment ROI: translate by -offset, apply the
    matrix, translate back by the (scaled) offset.  Returns the 3x3 matrix that maps aligned -> raw coordinates."""
    a = np.array([[m[0], m[1], m[2]], [m[3], m[4], m[5]], [0.0, 0.0, 1.0]])
    if xo == 0 and yo == 0:
        return a
    t = np.eye(3)
    t[0, 2], t[1, 2] = -xo, -yo
    back = np.eye(3)
    back[0, 2], back[1, 2] = a[0, 0] * xo, a[1, 1] * yo
    return back @ a @ t


def channels(spec):
    return 3 if spec["colour"] == "rgb" else 1


def raw_points(spec):
    """per channel: where the two beads are drawn in the raw page"""
    out = []
    for c in range(channels(spec)):
        if aligned(spec):
            a = effective_matrix(spec["mats"][c], *spec["aoff"])
            out.append([[float(v) for v in (a @ np.array([px, py, 1.0]))[:2]] for px, py in spec["beads"]])
        else:
            out.append([[float(px), float(py)] for px, py in spec["beads"]])
    return out


def raw_page(spec):
    h, w, s = spec["h"], spec["w"], spec["sigma"]
    x, y = np.meshgrid(np.arange(w, dtype=float), np.arange(h, dtype=float))
    chans = []
    for pts in raw_points(spec):
        img = np.zeros((h, w))
        for (px, py), amp in zip(pts, (AMP, SECOND * AMP)):
            img += amp * np.exp(-0.5 * ((x - px) ** 2 + (y - py) ** 2) / s**2)
        chans.append(np.round(img).astype(np.uint16))
    return chans[0] if len(chans) == 1 else np.stack(chans, axis=2)


def description(spec, page):
    d = bt.description(dict(spec, align=False), page)
    rx, ry = spec["roi_xy"]
    d["Region of interest (x, y, width, height)"] = [rx, ry, spec["w"], spec["h"]]
    if spec["colour"] == "rgb" and spec["mats"] is not None:
        for k, wl in enumerate(("680/42", "600/50", "525/40")):
            d[f"Channel {k} alignment"] = list(spec["mats"][k])
            d[f"Channel {k} detection wavelength (nm)"] = wl
        d["Alignment region of interest (x, y, width, height)"] = [rx + spec["aoff"][0], ry + spec["aoff"][1], spec["w"], spec["h"]]
    return d


def write_file(spec, path):
    import tifffile

    raw = raw_page(spec)
    times = bt.page_times(spec)
    with tifffile.TiffWriter(path) as tif:
        for page in range(spec["files"][0]):
            dt = f"{times[page][0]}:{times[page][1]}"
            tif.write(
                raw,
                description=json.dumps(description(spec, page), indent=4),
                software=spec["software"],
                metadata=None,
                contiguous=False,
                extratags=((274, "H", 1, 1, False), (306, "s", len(dt), dt, False)),
                photometric="rgb" if spec["colour"] == "rgb" else "minisblack",
            )


class BeadStacks:
    """small LRU cache of written + opened bead stacks (one temporary directory for the run)"""

    def __init__(self, max_open=8):
        self._dir = tempfile.mkdtemp(prefix="verif_beads_")
        self._cache = {}
        self._count = 0
        self._max_open = max_open

    def get(self, spec):
        from lumicks.pylake import ImageStack

        key = json.dumps(spec, sort_keys=True)
        if key in self._cache:
            self._cache[key] = self._cache.pop(key)
            return self._cache[key][0]
        while len(self._cache) >= self._max_open:
            self._evict(next(iter(self._cache)))
        path = os.path.join(self._dir, f"b{self._count}.tiff")
        self._count += 1
        write_file(spec, path)
        with warnings.catch_warnings():
            warnings.simplefilter("ignore")
            stack = ImageStack(path, align=spec["open_align"])
        self._cache[key] = (stack, path)
        return stack

    def _evict(self, key):
        e = self._cache.pop(key, None)
        if e is not None:
            try:
                e[0].close()
            except Exception:
                pass
            try:
                os.remove(e[1])
            except OSError:
                pass

    def close(self):
        for k in list(self._cache):
            self._evict(k)
        shutil.rmtree(self._dir, ignore_errors=True)


def find_beads(chan, sigma):
    """the two brightest spots of a 2-D image, brightest first: [x, y] intensity-weighted centroids (window of
    +-win_radius around the maximum), or None where no spot of at least a quarter of the second bead's nominal peak is
    left.  Does not use any expectation of where the spots should be."""
    a = np.array(chan, dtype=float)
    r = win_radius(sigma)
    out = []
    for _ in range(2):
        if a.size == 0:
            out.append(None)
            continue
        iy, ix = np.unravel_index(int(np.argmax(a)), a.shape)
        if a[iy, ix] < 0.25 * SECOND * AMP:
            out.append(None)
            continue
        y0, y1, x0, x1 = max(0, iy - r), min(a.shape[0], iy + r + 1), max(0, ix - r), min(a.shape[1], ix + r + 1)
        win = a[y0:y1, x0:x1]
        m = win.sum()
        cx = float((win.sum(axis=0) * np.arange(x0, x1)).sum() / m)
        cy = float((win.sum(axis=1) * np.arange(y0, y1)).sum() / m)
        out.append([cx, cy])
        a[y0:y1, x0:x1] = 0.0
    return out


def locate(spec, image):
    """image: [row, col] or [row, col, 3] -> per channel the result of find_beads"""
    img = np.asarray(image)
    if img.ndim == 2:
        return [find_beads(img, spec["sigma"])]
    return [find_beads(img[:, :, c], spec["sigma"]) for c in range(img.shape[2])]
