"""Generators of Bluelake-layout HDF5 files (written with h5py only; no dependency on the repo's test helpers).

API
---
make_spec(rng, version=None, size="small") -> dict     a JSON-serialisable description of a file
write_file(path, spec)                                   writes it with h5py
expected_channels(spec) -> {h5 path: {"kind", "ts": [...], "data": [...], "dt"?, "start"?}}
infowave(P, L, k, pad) -> (codes uint8 array)           0 discard, 1 use, 2 pixel boundary
scan_json(axes)                                          Bluelake scan metadata JSON ({"value0": …})

A spec is
  {"version": 1|2,
   "root_attrs": {...},
   "channels": [{"group", "name", "kind": "cont"|"ts"|"tags", "start", "dt", "n", "ts": [...], "values": [...],
                 "dtype": "f8"|"u4"|"u1", "extra_attrs": {...}}],
   "calibrations": [{"idx": "1", "timestamp": t, "channels": {"Force 1x": {attr: value}}}],
   "markers": [{"name", "start", "stop"}], "notes": [{"name", "start", "stop", "text"}],
   "kymos": [{"name", "P", "L", "k", "pad", "start", "dt", "lead", "pixel_nm"}]}
Values of continuous/time-series channels are small integers stored as floats (ids), so equality is exact.
"""
import json

import numpy as np

FORCE_HF = ["Force 1x", "Force 1y", "Force 2x", "Force 2y"]


def infowave(P, L, k, pad, lead=0):
    pixel = np.ones(k, dtype=np.uint8)
    pixel[-1] = 2
    line = np.concatenate([np.zeros(pad, np.uint8), np.tile(pixel, P), np.zeros(pad, np.uint8)])
    return np.concatenate([np.zeros(lead, np.uint8), np.tile(line, L)])


def scan_json(axes, scan_count=0):
    """axes: list of (axis id, num pixels, pixel size nm)"""
    return json.dumps(
        {
            "value0": {
                "cereal_class_version": 1,
                "fluorescence": True,
                "force": False,
                "scan count": scan_count,
                "scan volume": {
                    "center point (um)": {"x": 58.07, "y": 31.97, "z": 0},
                    "cereal_class_version": 1,
                    "pixel time (ms)": 0.2,
                    "scan axes": [
                        {
                            "axis": int(ax),
                            "cereal_class_version": 1,
                            "num of pixels": int(n),
                            "pixel size (nm)": float(px),
                            "scan time (ms)": 0,
                            "scan width (um)": float(px) * n / 1000.0 + 0.5,
                        }
                        for ax, n, px in axes
                    ],
                },
            }
        }
    )


def make_spec(rng, version=None, size="small"):
    version = version or rng.choice([1, 2, 2])
    base = rng.choice([0, 10**9, 1_600_000_000 * 10**9 + rng.randint(0, 10**9)])
    nmax = 12 if size == "small" else 400
    chans = []
    # high-frequency force (continuous)
    dt_hf = rng.choice([1, 3, 10, 55, 57, 110, 12800, rng.randint(1, 10**6)])
    for nm in rng.sample(FORCE_HF, rng.randint(1, 3)):
        n = rng.randint(1, nmax)
        chans.append({"group": "Force HF", "name": nm, "kind": "cont", "start": base + rng.randint(0, 5) * dt_hf, "dt": dt_hf, "n": n, "dtype": "f8"})
    # low-frequency force (time series)
    for nm in rng.sample(["Force 1x", "Force 1y", "Force 2x"], rng.randint(0, 2)):
        n = rng.randint(1, nmax)
        t = base + rng.randint(0, 50)
        ts = []
        step = rng.choice([1, 7, 1000, 10**6])
        mode = rng.randint(0, 3)
        for j in range(n):
            ts.append(t)
            if mode == 0:
                t += step  # regular
            elif mode == 1 and step >= 2:
                # irregular, but the mean step equals the first one (a late sample followed by one back on the grid)
                t += step + (0 if j % 3 == 0 else (step // 2 if j % 3 == 1 else -(step // 2)))
            else:
                t += rng.choice([step, step, step + rng.randint(0, step)])
        chans.append({"group": "Force LF", "name": nm, "kind": "ts", "ts": ts})
    if rng.chance(0.5):
        n = rng.randint(1, nmax)
        ts = sorted(base + rng.randint(0, 1000) for _ in range(n))
        ts = sorted(set(ts))
        chans.append({"group": "Distance", "name": "Distance 1", "kind": "ts", "ts": ts})
    if version == 2 and rng.chance(0.5):
        n = rng.randint(0, nmax)
        tags = sorted(base + rng.randint(0, 2000) for _ in range(n))
        chans.append({"group": "Photon Time Tags", "name": "Red", "kind": "tags", "ts": tags})
    kymos = []
    if rng.chance(0.5):
        P, L, k, pad = rng.randint(1, 4), rng.randint(1, 5), rng.randint(1, 3), rng.randint(1, 3)
        dt = rng.choice([1, 4, 10, 12800])
        lead = rng.randint(0, 3)
        kstart = base + rng.randint(0, 20)
        kymos.append({"name": "k1", "P": P, "L": L, "k": k, "pad": pad, "start": kstart, "dt": dt, "lead": lead, "pixel_nm": 100.0})
    # calibration history for the force channels
    cals = []
    ncal = rng.randint(0, 4)
    for i in range(ncal):
        stop = base + rng.randint(-30, 60) * max(dt_hf, 1)
        cals.append(
            {
                "idx": str(i + 1 if rng.chance(0.8) else 10 + i),
                "timestamp": stop if rng.chance(0.75) else None,
                "channels": {
                    nm: {"Start time (ns)": stop - 5, "Stop time (ns)": stop, "Kind": "Full calibration", "Response (pN/V)": 1.0 + i, "cal_id": i}
                    for nm in rng.sample(FORCE_HF, rng.randint(1, 4))
                },
            }
        )
    # de-duplicate idx
    seen = set()
    cals = [c for c in cals if not (c["idx"] in seen or seen.add(c["idx"]))]
    markers = [{"name": f"m{i}", "start": base + rng.randint(0, 100), "stop": base + rng.randint(100, 200)} for i in range(rng.randint(0, 2))]
    notes = [{"name": "n1", "start": base + 5, "stop": base + 5, "text": "hello"}] if rng.chance(0.3) else []
    return {
        "version": version,
        "root_attrs": {"Bluelake version": "unknown", "Experiment": "exp", "Description": "d", "GUID": "{g}", "Export time (ns)": base - 1},
        "channels": chans,
        "calibrations": cals,
        "markers": markers,
        "notes": notes,
        "kymos": kymos,
    }


def chan_values(ch):
    if "values" in ch:
        return list(ch["values"])
    if ch["kind"] == "cont":
        return list(range(ch["n"]))
    return list(range(len(ch["ts"])))


def chan_timestamps(ch):
    if ch["kind"] == "cont":
        return [ch["start"] + i * ch["dt"] for i in range(ch["n"])]
    return list(ch["ts"])


def kymo_streams(k):
    iw = infowave(k["P"], k["L"], k["k"], k["pad"], k["lead"])
    # deterministic photon counts, non-zero also in discarded samples
    n = len(iw)
    red = (np.arange(n) * 7 + 3) % 5
    green = (np.arange(n) * 3 + 1) % 4
    return iw, red.astype(np.uint32), green.astype(np.uint32)


def write_file(path, spec):
    import h5py

    v2 = spec["version"] == 2
    with h5py.File(path, "w") as f:
        for k, val in spec["root_attrs"].items():
            f.attrs[k] = val
        f.attrs["File format version"] = spec["version"]

        def cont(group, name, start, dt, data):
            g = f.require_group(group)
            g[name] = data
            d = g[name]
            d.attrs["Start time (ns)"] = start
            d.attrs["Stop time (ns)"] = start + len(data) * dt
            d.attrs["Sample rate (Hz)"] = 1e9 / dt
            if v2:
                d.attrs["Kind"] = "Continuous"
            return d

        for ch in spec["channels"]:
            g = f.require_group(ch["group"])
            if ch["kind"] == "cont":
                cont(ch["group"], ch["name"], ch["start"], ch["dt"], np.array(chan_values(ch), dtype=ch.get("dtype", "f8")))
            elif ch["kind"] == "ts":
                ct = np.dtype([("Timestamp", np.int64), ("Value", float)])
                g[ch["name"]] = np.array(list(zip(ch["ts"], [float(x) for x in chan_values(ch)])), ct)
                if v2:
                    g[ch["name"]].attrs["Kind"] = b"TimeSeries"
            elif ch["kind"] == "tags":
                g[ch["name"]] = np.array(ch["ts"], dtype=np.int64)
                g[ch["name"]].attrs["Kind"] = "TimeTags"
            for a, val in ch.get("extra_attrs", {}).items():
                g[ch["name"]].attrs[a] = val
        for c in spec["calibrations"]:
            g = f.require_group("Calibration").require_group(c["idx"])
            if c.get("timestamp") is not None:  # the attribute on the Calibration/<n> group itself is optional
                g.attrs["Timestamp (ns)"] = c["timestamp"]
            for nm, attrs in c["channels"].items():
                gg = g.require_group(nm)
                for a, val in attrs.items():
                    gg.attrs[a] = val
        for m in spec["markers"]:
            d = f.require_group("Marker").create_dataset(m["name"], data=json.dumps({"name": m["name"]}))
            d.attrs["Start time (ns)"] = m["start"]
            d.attrs["Stop time (ns)"] = m["stop"]
        for m in spec["notes"]:
            d = f.require_group("Note").create_dataset(m["name"], data=json.dumps({"name": m["name"], "Note text": m["text"]}))
            d.attrs["Start time (ns)"] = m["start"]
            d.attrs["Stop time (ns)"] = m["stop"]
        for k in spec["kymos"]:
            iw, red, green = kymo_streams(k)
            cont("Info wave", "Info wave", k["start"], k["dt"], iw)
            cont("Photon count", "Red", k["start"], k["dt"], red)
            cont("Photon count", "Green", k["start"], k["dt"], green)
            d = f.require_group("Kymograph").create_dataset(k["name"], data=scan_json([(0, k["P"], k["pixel_nm"])]))
            d.attrs["Start time (ns)"] = k["start"] + k["lead"] * k["dt"]
            d.attrs["Stop time (ns)"] = k["start"] + len(iw) * k["dt"]


def expected_channels(spec):
    out = {}
    for ch in spec["channels"]:
        out[f"{ch['group']}/{ch['name']}"] = {"kind": ch["kind"], "ts": chan_timestamps(ch), "data": chan_values(ch), "dt": ch.get("dt"), "start": ch.get("start")}
    for k in spec["kymos"]:
        iw, red, green = kymo_streams(k)
        for path, arr in (("Info wave/Info wave", iw), ("Photon count/Red", red), ("Photon count/Green", green)):
            out[path] = {"kind": "cont", "ts": [k["start"] + i * k["dt"] for i in range(len(arr))], "data": [int(x) for x in arr], "dt": k["dt"], "start": k["start"]}
    return out
