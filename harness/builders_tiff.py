"""Generators of real Bluelake-style camera TIFF stacks for the /verif checks (C07, C18, C19).

Nothing here depends on the repo's test helpers; files are written with `tifffile` into a temporary directory and
opened with `lumicks.pylake.ImageStack` (imported from `common.REPO`, i.e. the tree under test).

API
---
`StackSpec` (a plain JSON-serialisable dict, built with `make_spec(...)`):

    files        list[int]   number of pages in every TIFF file (1-3 files; the stack is their concatenation)
    h, w         int         image height (rows) / width (columns)
    colour       "grey" | "rgb" | "two"     grey = one sample per pixel, rgb = 3, two = 2 samples per pixel that pylake
                             up-converts to RGB using the two "<Colour> Excitation Laser wavelength (nm)" keys
    two_channels [str, str]  for colour == "two": which of "Red","Green","Blue" are present (ascending RGB order)
    t0           int         DateTime start of page 0 (ns; use >= FIRST_TIMESTAMP for time-based indexing)
    period       int         start-to-start distance of consecutive pages (ns)
    frame_len    int         DateTime stop - start of every page (ns, <= period)
    exposure     None | int | list[int]   exposure in ns written as "Exposure time (ms)" on every page
                             (None: key absent -> pylake falls back on the DateTime stop; a list gives a per-page,
                             i.e. variable, exposure and must have sum(files) entries)
    gap          int         extra ns inserted between consecutive files
    software     str         TIFF Software tag ("Bluelake 2.x"; "Pylake v1.3.0" + exposure None = legacy export)
    pixelsize_nm None | float   "Pixel calibration (nm/pix)"
    align        bool        rgb only: add identity "Channel k alignment" matrices (status `ready`; identity warps
                             leave pixel values untouched) instead of no alignment metadata
    dtype        "uint8" | "uint16"

`pixel_value(spec, page, row, col, ch)` / `full_array(spec)`   the synthetic image content: every sample encodes
    (page, row, col, channel) injectively (when it fits the dtype, which `make_spec` checks), so a returned image
    identifies exactly which pages / rows / columns / channels were selected.  `full_array` is the
    [frame, row, column(, colour)] array as pylake presents it (two-colour data up-converted to 3 channels, absent
    channel = 0).
`page_table(spec)`   list of (start, stop, exposure_stop) per page: DateTime start/stop and the stop pylake reports
    for the exposure (`start + exposure` or the DateTime stop without exposure metadata).
`description(spec, page)`   the ImageDescription dict (JSON) written on that page.
`write_files(spec, directory)` -> list[str]   writes the TIFF file(s) (one page per `TiffWriter.write`, DateTime tag 306
    = "start:stop", ImageDescription JSON, Software tag, Orientation tag) and returns the paths in stack order.
`open_stack(paths, align=True)` -> lumicks.pylake.ImageStack
`TiffStacks(max_open=48)`   context manager / LRU cache: `.get(spec)` -> (ImageStack, full_array, page_table); one
    temporary directory for the whole run; at most `max_open` stacks stay written + open (the least recently used
    one is closed and its files removed: objects derived from an evicted stack can no longer read pixels, so use the
    result of `.get` before asking for many other specs); everything is closed/removed by `.close()` (or on
    leaving the `with` block).  `.paths(spec)` gives the file names (for export/reopen checks), `.drop(spec)`
    evicts one entry.
`decode(spec, image)`   inverse of the pixel encoding for an image returned by pylake: returns
    (pages, rows, cols) index lists if the image is exactly full_array[pages][:, rows][:, :, cols], else None.
"""
import json
import os
import shutil
import tempfile
import warnings

import numpy as np

FIRST_TIMESTAMP = 1388534400000000000  # pylake treats smaller integers as frame indices
T0 = 1600000000000000000

_COLOURS = ("Red", "Green", "Blue")


def n_samples(spec):
    return {"grey": 1, "rgb": 3, "two": 2}[spec["colour"]]


def make_spec(files=(6,), h=4, w=5, colour="grey", t0=T0, period=100_000_000, frame_len=None, exposure=40_000_000,
              gap=0, software="Bluelake 2.5.1", pixelsize_nm=None, align=False, two_channels=("Red", "Blue"),
              dtype="uint16"):
    files = [int(f) for f in files]
    spec = {
        "files": files, "h": int(h), "w": int(w), "colour": colour, "t0": int(t0), "period": int(period),
        "frame_len": int(period if frame_len is None else frame_len),
        "exposure": exposure if exposure is None or isinstance(exposure, int) else [int(e) for e in exposure],
        "gap": int(gap), "software": software, "pixelsize_nm": pixelsize_nm, "align": bool(align),
        "two_channels": list(two_channels), "dtype": dtype,
    }
    n = sum(files)
    if isinstance(spec["exposure"], list) and len(spec["exposure"]) != n:
        raise ValueError("one exposure per page needed")
    top = n * spec["h"] * spec["w"] * n_samples(spec)
    if top >= np.iinfo(dtype).max:
        raise ValueError(f"pixel encoding does not fit {dtype}: {top}")
    if any(f < 1 for f in files) or not 1 <= len(files):
        raise ValueError("every file needs at least one page")
    return spec


def pixel_value(spec, page, row, col, ch):
    """sample value = 1 + (((page*h + row)*w + col)*C + ch)   (never 0, so an absent channel is recognisable)"""
    c = n_samples(spec)
    return 1 + (((page * spec["h"] + row) * spec["w"] + col) * c + ch)


def raw_pages(spec):
    """the arrays as stored in the file(s): [page, row, col] or [page, row, col, samples]"""
    n, h, w, c = sum(spec["files"]), spec["h"], spec["w"], n_samples(spec)
    a = 1 + np.arange(n * h * w * c, dtype=np.int64).reshape((n, h, w, c))
    a = a.astype(spec["dtype"])
    return a[..., 0] if c == 1 else a


def full_array(spec):
    """[frame, row, column(, colour)] as pylake presents the unsliced, uncropped stack"""
    raw = raw_pages(spec)
    if spec["colour"] != "two":
        return raw
    out = np.zeros(raw.shape[:3] + (3,), dtype=float)
    order = [i for i, c in enumerate(_COLOURS) if c in spec["two_channels"]]
    out[..., order] = raw
    return out


def page_times(spec):
    """DateTime (start, stop) of every page"""
    out = []
    t = spec["t0"]
    for fi, n in enumerate(spec["files"]):
        for _ in range(n):
            out.append((t, t + spec["frame_len"]))
            t += spec["period"]
        t += spec["gap"]
    return out


def page_exposure(spec, page):
    e = spec["exposure"]
    return e[page] if isinstance(e, list) else e


def page_table(spec):
    out = []
    for p, (a, b) in enumerate(page_times(spec)):
        e = page_exposure(spec, p)
        out.append((a, b, b if e is None else a + e))
    return out


def description(spec, page):
    d = {
        "Background subtraction": False,
        "Bit depth": 8 if spec["dtype"] == "uint8" else 16,
        "Camera": "IRM" if spec["colour"] == "grey" else "WT",
        "Focus lock": False,
        "Frame averaging": 1,
        "Frame rate (Hz)": 1e9 / spec["period"],
        "Pixel clock (MHz)": 50.0,
        "Region of interest (x, y, width, height)": [0, 0, spec["w"], spec["h"]],
    }
    e = page_exposure(spec, page)
    if e is not None:
        d["Exposure time (ms)"] = e * 1e-6
    if spec["pixelsize_nm"] is not None:
        d["Pixel calibration (nm/pix)"] = spec["pixelsize_nm"]
    if spec["colour"] == "rgb":
        for c, wl in zip(_COLOURS, (638, 561, 488)):
            d[f"{c} Excitation Laser wavelength (nm)"] = wl
        if spec["align"]:
            for k, wl in enumerate(("680/42", "600/50", "525/40")):
                d[f"Channel {k} alignment"] = [1.0, 0.0, 0.0, 0.0, 1.0, 0.0]
                d[f"Channel {k} detection wavelength (nm)"] = wl
            d["Alignment region of interest (x, y, width, height)"] = [0, 0, spec["w"], spec["h"]]
    elif spec["colour"] == "two":
        for c, wl in zip(_COLOURS, (638, 561, 488)):
            if c in spec["two_channels"]:
                d[f"{c} Excitation Laser wavelength (nm)"] = wl
    return d


def write_files(spec, directory):
    import tifffile

    raw = raw_pages(spec)
    times = page_times(spec)
    paths = []
    page = 0
    tag_orientation = (274, "H", 1, 1, False)
    for fi, n in enumerate(spec["files"]):
        path = os.path.join(directory, f"stack_{fi}.tiff")
        with tifffile.TiffWriter(path) as tif:
            for _ in range(n):
                dt = f"{times[page][0]}:{times[page][1]}"
                kw = {}
                if spec["colour"] == "rgb":
                    kw["photometric"] = "rgb"
                elif spec["colour"] == "two":
                    kw["photometric"] = "minisblack"
                    kw["planarconfig"] = "contig"
                else:
                    kw["photometric"] = "minisblack"
                tif.write(
                    raw[page],
                    description=json.dumps(description(spec, page), indent=4),
                    software=spec["software"],
                    metadata=None,
                    contiguous=False,
                    extratags=(tag_orientation, (306, "s", len(dt), dt, False)),
                    **kw,
                )
                page += 1
        paths.append(path)
    return paths


def open_stack(paths, align=True):
    from lumicks.pylake import ImageStack

    with warnings.catch_warnings():
        warnings.simplefilter("ignore")
        return ImageStack(*paths, align=align)


class TiffStacks:
    """cache of written + opened stacks, keyed by the canonical JSON of the spec"""

    def __init__(self, max_open=48):
        self._dir = tempfile.mkdtemp(prefix="verif_tiff_")
        self._cache = {}  # insertion/use ordered: least recently used first
        self._count = 0
        self._max_open = max_open

    def __enter__(self):
        return self

    def __exit__(self, *a):
        self.close()

    def _entry(self, spec):
        key = json.dumps(spec, sort_keys=True)
        if key in self._cache:
            self._cache[key] = self._cache.pop(key)  # mark as most recently used
            return self._cache[key]
        while len(self._cache) >= self._max_open:  # bound the number of open file handles
            old = next(iter(self._cache))
            self._evict(old)
        d = os.path.join(self._dir, f"s{self._count}")
        self._count += 1
        os.makedirs(d)
        paths = write_files(spec, d)
        self._cache[key] = (open_stack(paths), full_array(spec), page_table(spec), paths)
        return self._cache[key]

    def _evict(self, key):
        e = self._cache.pop(key, None)
        if e is not None:
            try:
                e[0].close()
            except Exception:
                pass
            shutil.rmtree(os.path.dirname(e[3][0]), ignore_errors=True)

    def get(self, spec):
        return self._entry(spec)[:3]

    def paths(self, spec):
        return self._entry(spec)[3]

    def drop(self, spec):
        self._evict(json.dumps(spec, sort_keys=True))

    def close(self):
        for e in self._cache.values():
            try:
                e[0].close()
            except Exception:
                pass
        self._cache = {}
        shutil.rmtree(self._dir, ignore_errors=True)


def decode(spec, image):
    """(pages, rows, cols) if `image` == full_array[pages][:, rows][:, :, cols] for index lists read off the
    first sample of every frame/row/column, else None.  `image` must have the frame axis (use np.atleast_*)."""
    full = full_array(spec)
    c = n_samples(spec)
    img = np.asarray(image)
    if img.ndim != full.ndim or img.size == 0:
        return None
    h, w = spec["h"], spec["w"]
    if spec["colour"] == "two":
        order = [i for i, col in enumerate(_COLOURS) if col in spec["two_channels"]]
        first = img[..., order[0]]
    elif c == 3:
        first = img[..., 0]
    else:
        first = img
    code = (np.asarray(first, dtype=np.int64) - 1) // c
    pages = [int(x) for x in code[:, 0, 0] // (h * w)]
    rows = [int(x) for x in (code[0, :, 0] // w) % h]
    cols = [int(x) for x in code[0, 0, :] % w]
    try:
        exp = full[pages][:, rows][:, :, cols]
    except IndexError:
        return None
    if exp.shape != img.shape or not np.array_equal(exp, img):
        return None
    return pages, rows, cols
