"""C01 — time-window slicing: correspondence + oracle (see DESIGN.md 6/C01)."""
import itertools
from fractions import Fraction

import numpy as np

from common import enc_list, enc_bool, errname

PROP = "C01"
THEOREMS = [
    "Verif.C01.cont_slice_samples",
    "Verif.C01.ts_slice_samples",
    "Verif.C01.tags_slice_samples",
    "Verif.C01.tags_bounds",
    "Verif.C01.slice_samples",
    "Verif.C01.slice_sublist",
    "Verif.C01.slice_mem_window",
    "Verif.C01.slice_complete",
    "Verif.C01.slice_compose",
    "Verif.C01.getitem_compose",
    "Verif.C01.parse_canonical",
    "Verif.C01.getitem_spec",
    "Verif.C01.getitem_empty",
    "Verif.C01.resolve_rel_nonneg",
    "Verif.C01.resolve_rel_neg",
    "Verif.C01.cont_getitem_none",
    "Verif.C01.mask_sublist",
    "Verif.C01.mask_length_mismatch",
    "Verif.C01.mask_all_true",
    "Verif.C01.matchFull_value",
    "Verif.C01.F1_witness",
    # deepening round D
    "Verif.C01.wf_slice",
    "Verif.C01.wf_getitem",
    "Verif.C01.wf_samples_in_bounds",
    "Verif.C01.tags_init_wf",
    "Verif.C01.getitem_none_all",
    "Verif.C01.getitem_opt_spec",
    "Verif.C01.getitem_compose_opt",
    "Verif.C01.getitem_none_needs_sorted",
    "Verif.C01.window_table",
    "Verif.C01.getitemFull_obj",
    "Verif.C01.getitemFull_step",
    "Verif.C01.getitemFull_scalar",
    "Verif.C01.getitemFull_window_spec",
    "Verif.C01.applyMask_spec",
    "Verif.C01.src_applyMask_table",
    "Verif.C01.matchBody_iff",
    "Verif.C01.captures_unique",
    "Verif.C01.matchFull_iff",
    "Verif.C01.parseTime_spec",
    "Verif.C01.digitsToNat_eq",
    "Verif.C01.tokNs_floor",
    "Verif.C01.wf_samples_sorted",
    "Verif.C01.applyMask_wf",
    "Verif.C01.getitemFull_wf",
    "Verif.C01.mask_then_window",
    "Verif.C01.window_then_mask",
    "Verif.C01.timeString_drop_newline",
    "Verif.C01.parseTime_iff",
    "Verif.C01.bodyMatch_iff_rx",
    "Verif.C01.timeString_iff_rx",
    "Verif.C01.matchFull_accepts_iff_rx",
    "Verif.C01.alignedStart_least",
    "Verif.C01.cont_bounds_tight",
    "Verif.C01.ts_bounds_tight",
    "Verif.C01.getitem_getitem_spec",
    "Verif.C01.chain_spec",
    "Verif.C01.chain_perm",
    "Verif.C01.chain_idem",
    "Verif.C01.window_wf",
    "Verif.C01.timeString_functional",
    "Verif.C01.cont_slice_no_overflow",
    "Verif.C01.slice_shift",
    "Verif.C01.getitem_shift",
    "Verif.C01.shift_timestamps",
]
RULE = (
    "corpus (F1, F6 inputs) + exhaustive small scope (n<=5 samples, dt in {1,2,3,5}, two starts, every window "
    "with bounds in [start-2dt-1, stop+2dt+1] or None, continuous/time-series/time-tags; quick: n<=4, dt in {1,3}; the whole "
    "Slice.__getitem__: every pair of bound kinds (None, integers, valid/invalid time strings, non-numbers) as slice, slice with "
    "step, object, Marker, calibration item, channel slice, on empty and non-empty sources of the three kinds, scalars, all masks "
    "incl. wrong lengths, mask->window and window->mask; every string over the alphabet '1. \\nmsn-' up to length 4, thorough 5) "
    "+ seeded random channels (n<=3000, dt<=1e9, start<=2^62) with 1-3 nested windows drawn around the boundary "
    "timestamps, bounds given as ints, None, time strings, slice objects, Marker, ForceCalibrationItem and channel slices; random "
    "chains of 1-3 items (windows, masks, rarely a step / scalar / invalid string / non-number); boolean "
    "masks; time strings from the grammar and a malformed stream. Observables: the returned samples and, for every non-empty "
    "result, len/start/stop. Non-trivial: the (last) window keeps a non-empty "
    "proper subset of the channel, or one of its bounds lies within one period of the first/last sample, or it lies "
    "wholly before/after the data; for strings: accepted by the grammar with at least one group, or rejected; for item chains: "
    "a non-empty source or a non-mask item. Strengthening round H: `pre` = other windows taken (and read) from the very objects that "
    "are about to be indexed, the chain then taken a second time from the same objects (exhaustive on four small sources, 30% of the "
    "random get/item cases); `h5` = the channel built by the source's own from_dataset from an in-memory HDF5 dataset (every window "
    "on seven small sources, 15% of the random cases); markers read from a dataset (Marker.from_dataset), calibration items with "
    "the full set of stored fields, NumPy-typed bounds on all kinds; objects with only one of start/stop among the non-window arguments."
)
TRUSTED = [
    "time strings: ASCII only (Python's \\d/\\s also accept non-ASCII digits/spaces; outside the model)",
    "timestamps below 2^62 (np.int64 overflow is outside the model)",
    "Python's re module implements the textbook semantics of Timeindex's pattern (the Lean side proves the model's matcher equal to that semantics)",
]
ASSUMPTIONS = [
    "Continuous channels have dt >= 1 (hypothesis of cont_slice_samples; the constructor does not check it)",
    "time-series timestamps are non-decreasing in generated cases that use None or time strings (necessary: getitem_none_needs_sorted); unsorted series are sliced with explicit integers only",
    "the exception class raised for an invalid argument is compared with the model but is not a clause of the property text",
]

UNITS = [("d", 86400 * 10**9), ("h", 3600 * 10**9), ("m", 60 * 10**9), ("s", 10**9), ("ms", 10**6), ("us", 10**3), ("ns", 1)]

# ------------------------------------------------------------------ building implementation objects


def _lk():
    from lumicks.pylake import channel

    return channel, None


def _timeindex():
    # the direct tie to the time-string grammar (anchored mechanism, private module path): imported only by the parse
    # cases, so that a moved module breaks that tie alone; the same strings also reach the code through the public
    # Slice.__getitem__ in the `get` cases
    from lumicks.pylake.detail import timeindex

    return timeindex


_H5 = {"file": None, "count": 0}


def _h5_dataset(data, attrs=None):
    """a dataset of an in-memory HDF5 file (nothing touches the disk); a new file every 256 datasets, the old one is
    released when the last object reading from it is gone"""
    import h5py

    if _H5["file"] is None or _H5["count"] % 256 == 0:
        _H5["file"] = h5py.File(f"c01-mem-{_H5['count']}", "w", driver="core", backing_store=False)
    _H5["count"] += 1
    d = _H5["file"].create_dataset(f"d{_H5['count']}", data=data)
    for key, v in (attrs or {}).items():
        d.attrs[key] = v
    return d


def build_h5(case):
    """the channel as File hands it out: built by the source's own from_dataset from an HDF5 dataset (lazily read data,
    NumPy-typed start, period derived from the stored sample rate, compound Timestamp/Value records)"""
    channel, _ = _lk()
    k = case["kind"]
    if k == "cont":
        d = _h5_dataset(np.arange(case["n"]), {"Kind": "Continuous", "Start time (ns)": np.int64(case["start"]),
                                              "Stop time (ns)": np.int64(case["start"] + case["n"] * case["dt"]),
                                              "Sample rate (Hz)": 1e9 / case["dt"]})
        return channel.Continuous.from_dataset(d)
    ts = np.array(case["ts"], dtype=np.int64)
    if k == "ts":
        rec = np.zeros(len(ts), dtype=np.dtype([("Timestamp", np.int64), ("Value", float)]))
        rec["Timestamp"] = ts
        rec["Value"] = np.arange(len(ts))
        return channel.TimeSeries.from_dataset(_h5_dataset(rec, {"Kind": b"TimeSeries"}))
    if k == "tags":
        return channel.TimeTags.from_dataset(_h5_dataset(ts, {"Kind": "TimeTags"}))
    raise ValueError(k)


def build(case):
    if case.get("h5"):
        return build_h5(case)
    channel, _ = _lk()
    k = case["kind"]
    if k == "cont":
        if case.get("np"):
            # as read from an HDF5 file: the start attribute is a NumPy scalar, the period a Python int
            return channel.Slice(channel.Continuous(np.arange(case["n"]), np.int64(case["start"]), case["dt"]))
        return channel.Slice(channel.Continuous(np.arange(case["n"]), case["start"], case["dt"]))
    ts = np.array(case["ts"], dtype=np.int64)
    if k == "ts":
        return channel.Slice(channel.TimeSeries(np.arange(len(ts)), ts))
    if k == "tags":
        return channel.Slice(channel.TimeTags(ts))
    raise ValueError(k)


def touch(obj, pre):
    """strengthening round H: use the very object that is about to be indexed -- take other windows from it and read
    what they return -- and throw the results away.  Indexing is a pure function of (channel, window): whatever a source
    remembers (cached arrays, a resolved bound, an index) must not leak into the next answer."""
    for a, b in pre:
        r = obj[slice(dec_bound(a), dec_bound(b))]
        np.asarray(r.timestamps), np.asarray(r.data), len(r)
        if len(r):
            r.start, r.stop
    if pre:
        np.asarray(obj.timestamps), np.asarray(obj.data), len(obj)


def src_tokens(case):
    if case["kind"] == "cont":
        return f"cont {case['start']} {case['dt']} {case['n']}"
    return f"{case['kind']} {enc_list(case['ts'])}"


def timestamps_of(case):
    if case["kind"] == "cont":
        return [case["start"] + i * case["dt"] for i in range(case["n"])]
    return list(case["ts"])


def str_total_ns(s):
    """independent exact reading of a well-formed time string made by gen_timestring (value only)"""
    import re

    sign = -1 if s.startswith("-") else 1
    total = 0
    for num, unit in re.findall(r"(\d*\.?\d+)\s*(ms|us|ns|d|h|m|s)", s):
        total += int(Fraction(num) * dict(UNITS)[unit])
    return sign * total


_NUM = r"(?:[0-9]*\.?[0-9]+)"
_WS = "[ \t\n\r\x0b\x0c\x1c-\x1f]*"
_GRAMMAR = "-?" + _WS.join(f"(?:{_NUM}{_WS}{u})?" for u, _ in UNITS)


def grammar_ok(s):
    """the documented grammar (ASCII): optional sign, then at most one 'number unit' group per unit in the order
    d,h,m,s,ms,us,ns separated by optional blanks; one trailing newline is tolerated (Python's `$`)"""
    import re

    if not all(ord(c) < 128 for c in s):
        return False
    return bool(re.fullmatch(_GRAMMAR, s)) or (s.endswith("\n") and bool(re.fullmatch(_GRAMMAR, s[:-1])))


class Obj:
    def __init__(self, start, stop):
        self.start = start
        self.stop = stop


def make_item(a, b, via):
    """turn decoded bounds into the index object handed to Slice.__getitem__"""
    if via == "slice":
        return slice(a, b)
    if via == "obj":
        return Obj(a, b)
    if via == "markerh5" and all(isinstance(v, (int, np.integer)) for v in (a, b)):
        # the marker as File.markers hands it out: read from a dataset whose attributes hold the two timestamps
        import json
        from lumicks.pylake.marker import Marker

        d = _h5_dataset(json.dumps({"name": "m", "payload": json.dumps({"value0": {"comment": "c"}})}),
                        {"Start time (ns)": np.int64(a), "Stop time (ns)": np.int64(b)})
        return Marker.from_dataset(d, None)
    if via in ("marker", "markerh5"):
        from lumicks.pylake.marker import Marker

        return Marker(None, {"Start time (ns)": a, "Stop time (ns)": b}, {})
    if via == "calibfull":
        from lumicks.pylake.force_calibration.calibration_item import ForceCalibrationItem

        # a calibration item as it is stored with a force channel: many more fields than the two bounds, among them
        # other times (when it was applied) and counts
        ref = next((int(v) for v in (a, b) if isinstance(v, (int, np.integer))), 0)
        fields = {"Kind": "Full calibration", "Timestamp (ns)": ref + 3, "Sample rate (Hz)": 78125, "Number of samples": 781250,
                  "Response (pN/V)": 1.5, "Rd (um/V)": 7.25, "kappa (pN/nm)": 0.25, "Offset (pN)": 0.0, "Bead diameter (um)": 4.4,
                  "Temperature (C)": 25.0, "Viscosity (Pa*s)": 0.00089, "Fit range (min.) (Hz)": 100.0, "Fit range (max.) (Hz)": 23000.0}
        fields.update({k: v for k, v in (("Start time (ns)", a), ("Stop time (ns)", b)) if v is not None})
        return ForceCalibrationItem(fields)
    if via == "calib":
        from lumicks.pylake.force_calibration.calibration_item import ForceCalibrationItem

        # a missing key is how a calibration item without a start/stop time looks (`.get` gives None)
        return ForceCalibrationItem({k: v for k, v in (("Start time (ns)", a), ("Stop time (ns)", b)) if v is not None})
    if via == "tagslice":
        # another channel slice used as the window (`force[photon_time_tags]`): its start/stop are the bounds
        channel, _ = _lk()
        if isinstance(a, int) and isinstance(b, int):
            return channel.Slice(channel.TimeTags(np.array([], dtype=np.int64), a, b))
        return Obj(a, b)
    raise ValueError(via)


OTHERS = {"list": [1], "tuple": (1, 2), "bytes": b"1s", "dict": {"start": 1}}


class Half:
    """an object with only ONE of the two attributes: not "an object with start/stop", hence not a window"""

    def __init__(self, **kw):
        self.__dict__.update(kw)


SCALARS = {"int": 5, "list": [True, False], "str": "1s", "float": 2.5, "none": None,
           "only-start": Half(start=5), "only-stop": Half(stop=9), "only-start-none": Half(start=None), "only-stop-str": Half(stop="1ns")}


def dec_arg(b):
    """item encoding of one bound: None | int | {"s": str} | {"other": name}"""
    if isinstance(b, dict):
        return b["s"] if "s" in b else OTHERS[b["other"]]
    return b


def make_full_item(it):
    """the argument of Slice.__getitem__ for an `item` case"""
    t = it["t"]
    if t == "M":
        return np.array(it["mask"], dtype=bool)
    if t == "X":
        return SCALARS[it["what"]]
    a, b = dec_arg(it["a"]), dec_arg(it["b"])
    if t == "S":
        return slice(a, b, it.get("step"))
    return make_item(a, b, it.get("via", "obj"))


def enc_arg_model(b):
    if b is None:
        return "N"
    if isinstance(b, dict):
        return "s" + enc_list([ord(c) for c in b["s"]]) if "s" in b else "?"
    return str(int(b))


def enc_item_model(it):
    t = it["t"]
    if t == "M":
        return "M " + enc_list(it["mask"], enc_bool)
    if t == "X":
        return "X"
    ab = f"{enc_arg_model(it['a'])} {enc_arg_model(it['b'])}"
    if t == "S":
        return f"S {ab} {enc_bool(it.get('step') is not None)}"
    return "O " + ab


def dec_bound(b):
    """case encoding: None | int | {"s": "<time string>"}"""
    if isinstance(b, dict):
        return b["s"]
    return b


def enc_bound_model(b):
    if b is None:
        return "N"
    if isinstance(b, dict):
        return "r" + str(str_total_ns(b["s"]))
    return str(int(b))


def show_samples(ts, data):
    return "[" + ",".join(f"{int(t)}:{int(v)}" for t, v in zip(ts, data)) + "]"


# ------------------------------------------------------------------ impl / ops


def impl(case):
    channel, timeindex = _lk()
    k = case["op"]
    try:
        if k == "get":
            base = s = build(case)
            npw = (lambda v: np.int64(v) if isinstance(v, int) else v) if case.get("np") else (lambda v: v)
            pre = case.get("pre", [])
            seen = []
            for rnd in range(2 if pre else 1):
                # with `pre`: other windows are taken from each object before the window under test (see touch); then the
                # whole chain is taken a second time from the same objects.  The FIRST answer is the one compared.
                s = base
                for (a, b), via in zip(case["windows"], case["via"]):
                    if not rnd:
                        touch(s, pre)
                    s = s[make_item(npw(dec_bound(a)), npw(dec_bound(b)), via)]
                seen.append((s, list(np.asarray(s.timestamps)), list(np.asarray(s.data))))
            s = seen[0][0]
            seen = [x[1:] for x in seen]
            ts = np.asarray(s.timestamps)
            data = np.asarray(s.data)
            if len(ts) != len(data):
                return [f"length-mismatch {len(ts)} {len(data)}"]
            kind = case["kind"]
            if len(seen) == 2 and seen[0] != seen[1]:
                return [f"history-dependent {kind} first " + show_samples(*seen[0]) + " later " + show_samples(*seen[1])]
            # second observable: Slice.start / Slice.stop of a non-empty result (what a nested relative time string
            # counts from, and what `None` stands for at the next level)
            bounds = "0" if len(s) == 0 else f"{len(s)} {int(s.start)} {int(s.stop)}"
            first = "tags " + enc_list(data) if kind == "tags" else f"{kind} " + show_samples(ts, data)
            if "shift" not in case:
                return [first, bounds]
            # translation invariance on the real code (theorem getitem_shift): the same recording `shift` ns later,
            # absolute bounds moved along, None and relative time strings unchanged -> same samples, `shift` ns later
            d = case["shift"]
            moved = dict(case)
            if kind == "cont":
                moved["start"] = case["start"] + d
            else:
                moved["ts"] = [t + d for t in case["ts"]]
            s2 = build(moved)
            for (a, b), via in zip(case["windows"], case["via"]):
                a2, b2 = (v + d if isinstance(v, int) else dec_bound(v) for v in (a, b))
                s2 = s2[make_item(npw(a2), npw(b2), via)]
            ts2 = np.asarray(s2.timestamps) - d
            data2 = np.asarray(s2.data)
            if len(ts2) != len(data2):
                return [first, bounds, f"length-mismatch {len(ts2)} {len(data2)}"]
            back = "tags " + enc_list(data2 - d) if kind == "tags" else f"{kind} " + show_samples(ts2, data2)
            return [first, bounds, back]
        if k == "item":
            s = build(case)
            pre = case.get("pre", [])
            for it in case["items"]:
                touch(s, pre)
                s = s[make_full_item(it)]
            ts = np.asarray(s.timestamps)
            data = np.asarray(s.data)
            if len(ts) != len(data):
                return [f"length-mismatch {len(ts)} {len(data)}"]
            return [show_samples(ts, data)]
        if k == "mask":
            ts = np.array(case["ts"], dtype=np.int64)
            if case["kind"] == "cont":
                s = channel.Slice(channel.Continuous(np.arange(len(ts)), int(ts[0]) if len(ts) else 0, case.get("dt", 1)))
            else:
                s = channel.Slice(channel.TimeSeries(np.arange(len(ts)), ts))
            r = s[np.array(case["mask"], dtype=bool)]
            return [show_samples(r.timestamps, r.data)]
        if k == "parse":
            try:
                return [str(int(_timeindex().Timeindex(case["s"]).total_ns))]
            except ImportError:
                # the module was moved: the channel module still resolves time strings with the same function, which
                # adds a non-negative value to `first` and a negative one to `after_last` (both 0 here)
                return [str(int(channel.to_timestamp(case["s"], 0, 0)))]
    except Exception as e:  # mapped to the small enum; compared with the model's error answer
        return [errname(e)]
    raise ValueError(k)


def ops(case):
    k = case["op"]
    if k == "get":
        w = " ".join(f"{enc_bound_model(a)} {enc_bound_model(b)}" for a, b in case["windows"])
        lines = [f"c01.get {src_tokens(case)} {w}", f"c01.bounds {src_tokens(case)} {w}"]
        if "shift" in case:
            lines.append(lines[0])  # the shifted run, moved back, must give the very same answer
        return lines
    if k == "item":
        return [f"c01.item {src_tokens(case)} " + " ".join(enc_item_model(it) for it in case["items"])]
    if k == "mask":
        return [f"c01.mask {enc_list(case['ts'])} {enc_list(case['mask'], enc_bool)}"]
    if k == "parse":
        return [f"c01.parse {enc_list([ord(c) for c in case['s']])}"]
    raise ValueError(k)


def agree(case, i, ia, ma):
    if case["op"] == "get" and i in (0, 2):
        # the model prints its full source (start/dt/bounds); the property determines the samples only
        toks = ma.split(" ")
        if toks[0] == "cont":
            ma = "cont " + toks[-1]
        elif toks[0] == "tags":
            ma = "tags " + toks[-1]
    return ia == ma


# ------------------------------------------------------------------ oracle (plain Python from the property text)


def oracle(case, ia):
    k = case["op"]
    ans = ia[0]
    if k == "get":
        tsall = timestamps_of(case)
        cur = list(zip(tsall, range(len(tsall))))
        if not tsall:
            begin = end = None
        elif case["kind"] == "cont":
            begin, end = tsall[0], tsall[0] + len(tsall) * case["dt"]
        else:
            begin, end = tsall[0], tsall[-1] + 1
        for level, (a, b) in enumerate(case["windows"]):
            if not cur:
                break
            lo, hi = a, b
            for which, v in (("lo", a), ("hi", b)):
                if isinstance(v, dict):
                    if level > 0:
                        return None  # begin/end of an intermediate slice: left to the model comparison
                    n = str_total_ns(v["s"])
                    r = begin + n if n >= 0 else end + n
                    if which == "lo":
                        lo = r
                    else:
                        hi = r
            cur = [(t, v) for (t, v) in cur if (lo is None or lo <= t) and (hi is None or t < hi)]
        if case["kind"] == "tags":
            exp = "tags " + enc_list([t for t, _ in cur])
        else:
            exp = f"{case['kind']} " + show_samples([t for t, _ in cur], [v for _, v in cur])
        if ans.startswith("history-dependent"):
            return ("purity: the same window(s) taken twice from the same channel object, with other windows "
                    f"{case.get('pre')} taken from it in between, gave different samples: {ans[:400]} (expected both times {exp[:200]})")
        if ans != exp:
            return f"window-membership: implementation returned {ans[:300]} but the samples with start <= t < stop are {exp[:300]}"
        if len(ia) > 2 and ia[2] != ia[0]:
            return f"translation: the same recording {case['shift']} ns later gives {ia[2][:200]} (moved back) instead of {ia[0][:200]}"
        if len(ia) > 1 and ia[1] != "0" and cur and not case.get("unsorted"):
            # a non-empty result must lie inside what the result itself reports as its begin and end (these are what
            # `None` and relative time strings mean at the next level)
            try:
                n_out, st, sp = (int(x) for x in ia[1].split(" "))
            except ValueError:
                return f"result-bounds: cannot read len/start/stop of the result: {ia[1][:100]}"
            kept = [t for t, _ in cur]
            if n_out != len(kept) or not (st <= min(kept) and max(kept) < sp):
                return f"result-bounds: result reports len/start/stop {ia[1]} but holds the timestamps {kept[:20]}"
        return None
    if k == "item":
        if ans.endswith("Error") or ans.startswith("Error:") or ans.startswith("length-mismatch"):
            return None  # the property text does not say which arguments are refused; left to the model comparison
        tsall = timestamps_of(case)
        cur = list(zip(tsall, tsall if case["kind"] == "tags" else range(len(tsall))))
        for level, it in enumerate(case["items"]):
            if it["t"] == "M":
                if len(it["mask"]) != len(cur):
                    return f"mask-length: expected IndexError, got {ans[:100]}"
                cur = [x for x, f in zip(cur, it["mask"]) if f]
                continue
            if it["t"] == "X":
                return f"scalar index accepted: {ans[:100]}"
            if not cur:
                continue  # an empty slice returns itself
            lo, hi = it["a"], it["b"]
            if any(isinstance(v, dict) for v in (lo, hi)):
                for v in (lo, hi):
                    if isinstance(v, dict) and "s" not in v:
                        # a window is given as timestamps, time strings or None; anything else is no window at all
                        return f"bound: a {v['other']} accepted as a window bound of a non-empty channel: {ans[:100]}"
                if level > 0 or case.get("unsorted"):
                    return None
                begin = cur[0][0]
                end = begin + len(cur) * case["dt"] if case["kind"] == "cont" else cur[-1][0] + 1
                res = []
                for v in (lo, hi):
                    if isinstance(v, dict):
                        if not grammar_ok(v["s"]):
                            return f"time-string: invalid string '{v['s']}' accepted as a bound"
                        n = str_total_ns(v["s"])
                        v = begin + n if n >= 0 else end + n
                    res.append(v)
                lo, hi = res
            cur = [(t, v) for (t, v) in cur if (lo is None or lo <= t) and (hi is None or t < hi)]
        exp = show_samples([t for t, _ in cur], [v for _, v in cur])
        if ans != exp:
            return f"getitem: implementation returned {ans[:300]} but the selected samples are {exp[:300]}"
        return None
    if k == "mask":
        ts, m = case["ts"], case["mask"]
        if len(ts) != len(m):
            return None if ans == "IndexError" else f"mask-length: expected IndexError, got {ans[:100]}"
        exp = show_samples([t for t, f in zip(ts, m) if f], [i for i, f in enumerate(m) if f])
        return None if ans == exp else f"mask: implementation returned {ans[:300]}, flagged samples are {exp[:300]}"
    if k == "parse":
        wf = grammar_ok(case["s"])
        if case.get("wellformed") and not wf:
            return f"harness-bug: generator claims '{case['s']}' is well-formed but the harness grammar rejects it"
        exp = str(str_total_ns(case["s"])) if wf else "RuntimeError"
        return None if ans == exp else f"time-string: '{case['s']}' should give {exp}, implementation says {ans}"
    return None


def nontrivial(case, ia):
    k = case["op"]
    if k == "get":
        ts = timestamps_of(case)
        if not ts:
            return False
        ans = ia[0]
        n_out = 0 if ans.endswith("[]") else ans.count(",") + 1
        if 0 < n_out < len(ts):
            return True
        a, b = case["windows"][-1]
        dt = case.get("dt", 1)
        for v in (a, b):
            if isinstance(v, int) and (abs(v - ts[0]) <= dt or abs(v - ts[-1]) <= dt):
                return True
            if isinstance(v, dict):
                return True
        if isinstance(a, int) and isinstance(b, int) and (b <= ts[0] or a > ts[-1]):
            return True
        return False
    if k == "mask":
        return any(case["mask"]) and not all(case["mask"])
    if k == "item":
        return len(timestamps_of(case)) > 0 or any(it["t"] != "M" for it in case["items"])
    if k == "parse":
        return len(case["s"].strip()) > 1
    return False


def tags(case, r):
    t = {"op": case["op"]}
    if case["op"] == "parse":
        t["parse_float_truncation"] = bool(case.get("wellformed")) and r["impl"][0] not in ("RuntimeError",) and r["impl"][0].lstrip("-").isdigit() and abs(int(r["impl"][0]) - str_total_ns(case["s"])) == 1
    if case["op"] == "get" and case["kind"] == "cont" and len(case["windows"]) >= 1:
        a, b = case["windows"][0]
        t["stop_more_than_one_period_before_data"] = isinstance(b, int) and b <= case["start"] - case["dt"]
    return t


def shrink(case):
    k = case["op"]
    for key in ("pre", "h5", "np", "shift"):
        if key in case:
            c = dict(case)
            del c[key]
            yield c
    if len(case.get("pre", [])) > 1:
        for i in range(len(case["pre"])):
            c = dict(case)
            c["pre"] = case["pre"][:i] + case["pre"][i + 1 :]
            yield c
    if k == "get":
        if len(case["windows"]) > 1:
            for i in range(len(case["windows"])):
                c = dict(case)
                c["windows"] = case["windows"][:i] + case["windows"][i + 1 :]
                c["via"] = case["via"][:i] + case["via"][i + 1 :]
                yield c
        if case["kind"] == "cont":
            if case["n"] > 1:
                for n in (case["n"] // 2, case["n"] - 1):
                    c = dict(case)
                    c["n"] = n
                    yield c
            if case["start"] > 1000:
                # translate everything towards 0
                sh = case["start"] - 1000
                c = dict(case)
                c["start"] = 1000
                c["windows"] = [[(x - sh if isinstance(x, int) else x) for x in w] for w in case["windows"]]
                yield c
        else:
            if len(case["ts"]) > 1:
                for cut in (case["ts"][: len(case["ts"]) // 2], case["ts"][1:], case["ts"][:-1]):
                    c = dict(case)
                    c["ts"] = cut
                    yield c
        if any(v != "slice" for v in case["via"]):
            c = dict(case)
            c["via"] = ["slice"] * len(case["via"])
            yield c
    elif k == "item":
        if len(case["items"]) > 1:
            for i in range(len(case["items"])):
                c = dict(case)
                c["items"] = case["items"][:i] + case["items"][i + 1 :]
                yield c
    elif k == "parse":
        s = case["s"]
        for i in range(len(s)):
            c = dict(case)
            c["s"] = s[:i] + s[i + 1 :]
            if case.get("wellformed"):
                try:
                    from re import fullmatch

                    if not fullmatch(r"-?(\d*\.?\d+(d|h|m|s|ms|us|ns) ?)*", c["s"]) or c["s"].endswith(" "):
                        continue
                except Exception:
                    continue
            yield c
    elif k == "mask":
        if len(case["ts"]) > 1 and len(case["ts"]) == len(case["mask"]):
            c = dict(case)
            c["ts"] = case["ts"][:-1]
            c["mask"] = case["mask"][:-1]
            yield c


# ------------------------------------------------------------------ generators


def gen_timestring(rng, maxgroups=3):
    """a string of the grammar (mostly) with its exact value known by construction"""
    k = rng.randint(1, maxgroups)
    idx = sorted(rng.sample(range(7), k))
    parts = []
    for i in idx:
        u = UNITS[i][0]
        style = rng.randint(0, 4)
        if style == 0:
            num = str(rng.randint(0, 30))
        elif style == 1:
            num = f"{rng.randint(0, 99)}.{rng.randint(0, 999)}"
        elif style == 2:
            num = f".{rng.randint(0, 9999)}"
        elif style == 3:
            num = f"{rng.randint(0, 9)}.{rng.randint(1, 9)}"
        else:
            num = f"{rng.randint(0, 5)}.{rng.randint(0, 999999999):09d}"
        parts.append(num + (" " if rng.chance(0.15) else "") + u)
    s = (" " if rng.chance(0.6) else "").join(parts)
    if rng.chance(0.3):
        s = "-" + s
    return s


MALFORMED = [
    "1ns ", " 1d", "1s 1m", "1mss", " -1s", "1.5.5s", "1.s", "s", "1", "--1s", "1s-", "1 2s", "1s1s", "1sm", "1 ms",
    "1us ", " 1h", "-", "", " ", "1ns\n", "1s\n", "1ns\n\n", "\t1m", "1m\t2s", "1e3s", "+1s", "1S", "0x1s", "1,5s",
    "1d1h1m1s1ms1us1ns", "1d 1h 1m 1s 1ms 1us 1ns", "1ns 1us", ".s", "..1s", "1..1s", "1. 1s", "1 .1s", "-.5h",
    "1\x1cs", "1\x0bs", "1m s", "1u s", "10 d", "- 1h", "- 1d", "1h ", "1d ",
]


def boundary_values(ts, dt, rng):
    vals = []
    pts = [ts[0], ts[-1], ts[-1] + dt, ts[len(ts) // 2], ts[0] - dt, ts[0] - 2 * dt, ts[-1] + 2 * dt]
    for p in pts:
        for d in (0, 1, -1, dt - 1, dt, dt + 1, -dt, -(dt + 1), -(dt - 1)):
            vals.append(p + d)
    return vals


def cases(tier, rng):
    # ---- corpus: finding inputs and minimised past disagreements
    yield {"stream": "corpus", "op": "get", "kind": "cont", "start": 1000, "dt": 10, "n": 10, "windows": [[None, 990]], "via": ["slice"]}
    yield {"stream": "corpus", "op": "get", "kind": "cont", "start": 1000, "dt": 10, "n": 10, "windows": [[0, 980]], "via": ["slice"]}
    yield {"stream": "corpus", "op": "get", "kind": "cont", "start": 1000, "dt": 10, "n": 10, "windows": [[2000, 0]], "via": ["slice"]}
    yield {"stream": "corpus", "op": "parse", "s": "4.1s", "wellformed": True}
    yield {"stream": "corpus", "op": "parse", "s": "-2.3s 1.1ms", "wellformed": True}
    yield {"stream": "corpus", "op": "get", "kind": "ts", "ts": [0, 4099999999, 4100000000], "windows": [[{"s": "4.1s"}, None]], "via": ["slice"]}
    for s in MALFORMED:
        yield {"stream": "malformed-strings", "op": "parse", "s": s, "wellformed": False}

    # ---- exhaustive small scope
    quick = tier == "quick"
    ns = range(0, 5 if quick else 6)
    dts = (1, 3) if quick else (1, 2, 3, 5)
    starts = (7,) if quick else (0, 7)
    for n in ns:
        for dt in dts:
            for start in starts:
                stop = start + n * dt
                bounds = [None] + list(range(start - 2 * dt - 1, stop + 2 * dt + 2))
                for a, b in itertools.product(bounds, bounds):
                    yield {"stream": "small-scope", "op": "get", "kind": "cont", "start": start, "dt": dt, "n": n, "windows": [[a, b]], "via": ["slice"]}
    # time series / tags on small irregular grids (incl. duplicates)
    grids = [[], [5], [5, 5], [3, 5, 6], [3, 5, 5, 9]] if quick else [[], [5], [5, 5], [3, 5, 6], [3, 5, 5, 9], [0, 1, 2, 3, 10]]
    for g in grids:
        lo = (g[0] if g else 0) - 2
        hi = (g[-1] if g else 0) + 3
        bounds = [None] + list(range(lo, hi + 1))
        for kind in ("ts", "tags"):
            for a, b in itertools.product(bounds, bounds):
                yield {"stream": "small-scope", "op": "get", "kind": kind, "ts": g, "windows": [[a, b]], "via": ["slice"]}
    # time series that is NOT stored chronologically (e.g. the result of downsampled_over with unordered ranges):
    # explicit integer windows only, for which "exactly the samples with start <= t < stop, in the original order"
    # does not depend on what the channel calls its begin and end
    for g in ([5, 3], [9, 3, 5], [3, 9, 5, 5, 1], [4, 8, 2, 6]):
        bounds = list(range(min(g) - 1, max(g) + 3))
        for a, b in itertools.product(bounds, bounds):
            yield {"stream": "small-scope", "op": "get", "kind": "ts", "ts": g, "windows": [[a, b]], "via": ["slice"], "unsorted": True}
    for a, b, c, d in itertools.product(range(0, 11, 2 if quick else 1), repeat=4):
        yield {"stream": "small-scope", "op": "get", "kind": "ts", "ts": [3, 9, 5, 5, 1], "windows": [[a, b], [c, d]], "via": ["slice", "slice"], "unsorted": True}
    # nested small scope: two levels on one small continuous channel
    n, dt, start = 4, 3, 7
    stop = start + n * dt
    bounds = [None] + list(range(start - dt - 1, stop + dt + 2, 1 if not quick else 2))
    for a, b, c, d in itertools.product(bounds, repeat=4):
        yield {"stream": "small-scope", "op": "get", "kind": "cont", "start": start, "dt": dt, "n": n, "windows": [[a, b], [c, d]], "via": ["slice", "slice"]}
    # channels as File hands them out (built by from_dataset from HDF5 datasets, see build_h5), every window
    for base in ({"kind": "cont", "start": 7, "dt": 3, "n": 0}, {"kind": "cont", "start": 7, "dt": 3, "n": 1}, {"kind": "cont", "start": 7, "dt": 3, "n": 4},
                 {"kind": "ts", "ts": []}, {"kind": "ts", "ts": [3, 5, 5, 9]}, {"kind": "tags", "ts": []}, {"kind": "tags", "ts": [1, 2, 4]}):
        tsb = timestamps_of(base)
        lo, hi = (tsb[0] if tsb else 7) - 4, (tsb[-1] if tsb else 7) + 5
        bounds = [None] + list(range(lo, hi + 1))
        for a, b in itertools.product(bounds, bounds):
            yield dict(base, stream="small-scope", op="get", windows=[[a, b]], via=["slice"], h5=True)
        for a, b, c, d in itertools.product(bounds[::4], repeat=4):
            yield dict(base, stream="small-scope", op="get", windows=[[a, b], [c, d]], via=["markerh5", "slice"], h5=True, pre=[[lo + 2, hi - 2]])
    # the same object indexed repeatedly: every window of a coarse grid taken (and read) before, between and after the
    # window(s) under test, which are then taken a second time from the same objects
    for base, lo, hi in (({"kind": "cont", "start": 7, "dt": 3, "n": 4}, 3, 22), ({"kind": "ts", "ts": [3, 5, 5, 9]}, 1, 12),
                         ({"kind": "tags", "ts": [1, 2, 4]}, -1, 7), ({"kind": "ts", "ts": [9, 3, 5], "unsorted": True}, 1, 12)):
        uns = base.get("unsorted")
        fine = ([] if uns else [None]) + list(range(lo, hi + 1, 2 if quick and base["kind"] == "cont" else 1))
        coarse = ([] if uns else [None]) + list(range(lo + 1, hi + 1, 4 if quick else 3))
        for p, q in itertools.product(coarse, coarse):
            for a, b in itertools.product(fine, fine):
                yield dict(base, stream="small-scope", op="get", windows=[[a, b]], via=["slice"], pre=[[p, q]])
        mid = (lo + hi) // 2
        for p, q in ((lo + 1, mid), (mid, hi), (mid + 1, hi + 1), (hi, lo)) + (() if uns else ((None, mid), (mid, None))):
            for a, b, c, d in itertools.product(coarse, repeat=4):
                yield dict(base, stream="small-scope", op="get", windows=[[a, b], [c, d]], via=["slice", "slice"], pre=[[p, q]])
    # nested small scope with relative time strings at the second level (begin/end of the intermediate slice)
    rel = [None, {"s": "0ns"}, {"s": "1ns"}, {"s": "2ns"}, {"s": "-1ns"}, {"s": "-2ns"}, {"s": "3ns"}]
    for kind, g in (("tags", [1, 2, 4]), ("tags", [3, 5, 5, 9]), ("ts", [1, 2, 4]), ("cont", None)):
        if kind == "cont":
            base = {"kind": "cont", "start": 1, "dt": 2, "n": 3}
            lo, hi = -2, 9
        else:
            base = {"kind": kind, "ts": g}
            lo, hi = g[0] - 2, g[-1] + 3
        b1 = [None] + list(range(lo, hi + 1, 1 if not quick else 1))
        cnt = 0
        for a, b in itertools.product(b1, b1):
            for c, d in itertools.product(rel, rel):
                cnt += 1
                if quick and cnt % 3:
                    continue
                yield dict(base, stream="small-scope", op="get", windows=[[a, b], [c, d]], via=["slice", "slice"])
    # the whole Slice.__getitem__: every combination of bound kinds (None, integer, valid / invalid time string,
    # an object that is neither), with and without a step, as a slice and as an object with start/stop, scalar
    # indices and masks, on empty and non-empty sources of the three kinds
    srcs = [
        {"kind": "cont", "start": 7, "dt": 3, "n": 0}, {"kind": "cont", "start": 7, "dt": 3, "n": 3},
        {"kind": "ts", "ts": []}, {"kind": "ts", "ts": [3, 5, 5, 9]},
        {"kind": "tags", "ts": []}, {"kind": "tags", "ts": [1, 2, 4]},
    ]
    args = [None, 5, 9, {"s": "1ns"}, {"s": "-2ns"}, {"s": "1x"}, {"s": "1ns "}, {"other": "list"}]
    if not quick:
        args += [0, {"s": ""}, {"s": " 1d"}, {"other": "bytes"}, {"other": "tuple"}]
    for base in srcs:
        n = base["n"] if base["kind"] == "cont" else len(base["ts"])
        for a, b in itertools.product(args, args):
            yield dict(base, stream="small-scope", op="item", items=[{"t": "S", "a": a, "b": b}])
            yield dict(base, stream="small-scope", op="item", items=[{"t": "O", "a": a, "b": b, "via": "obj"}])
            if a is None or b is None or isinstance(a, dict) or isinstance(b, dict):
                yield dict(base, stream="small-scope", op="item", items=[{"t": "S", "a": a, "b": b, "step": 1}])
        for via in ("marker", "calib", "tagslice", "markerh5", "calibfull"):
            for a, b in itertools.product(args[:5], args[:5]):
                yield dict(base, stream="small-scope", op="item", items=[{"t": "O", "a": a, "b": b, "via": via}])
        for what in SCALARS:
            yield dict(base, stream="small-scope", op="item", items=[{"t": "X", "what": what}])
        for ln in sorted({0, 1, n, n + 1}):
            for m in itertools.product([False, True], repeat=ln):
                yield dict(base, stream="small-scope", op="item", items=[{"t": "M", "mask": list(m)}])
                if ln == n and base["kind"] != "tags":
                    # derive -> derive: a mask, then a window on the masked slice (and the other way round)
                    for a, b in ((None, None), (5, None), (None, 9), (4, 9), (9, 4)):
                        yield dict(base, stream="small-scope", op="item", items=[{"t": "M", "mask": list(m)}, {"t": "S", "a": a, "b": b}])
        if base["kind"] != "tags" and n:
            for a, b in ((None, None), (5, None), (None, 9), (4, 12), (9, 4), (4, 5)):
                k = sum(1 for t in timestamps_of(base) if (a is None or a <= t) and (b is None or t < b))
                for m in itertools.product([False, True], repeat=k):
                    yield dict(base, stream="small-scope", op="item", items=[{"t": "S", "a": a, "b": b}, {"t": "M", "mask": list(m)}])
    # masks: all masks on 4 samples, plus length mismatches
    for m in itertools.product([False, True], repeat=4):
        yield {"stream": "small-scope", "op": "mask", "kind": "ts", "ts": [2, 4, 4, 9], "mask": list(m)}
        yield {"stream": "small-scope", "op": "mask", "kind": "cont", "dt": 1, "ts": [2, 3, 4, 5], "mask": list(m)}
    for m in ([], [True], [True] * 5):
        yield {"stream": "small-scope", "op": "mask", "kind": "ts", "ts": [2, 4, 4, 9], "mask": m}
        yield {"stream": "small-scope", "op": "mask", "kind": "cont", "dt": 1, "ts": [2, 3, 4, 5], "mask": m}
    # every 1-3 decimal string "<x>s" on a grid (where F6 lives), strided on quick
    stride = 37 if quick else 1
    for v in range(0, 10000, stride):
        yield {"stream": "small-scope", "op": "parse", "s": f"{v // 1000}.{v % 1000:03d}s", "wellformed": True}
    for v in range(0, 1000, 7 if quick else 1):
        yield {"stream": "small-scope", "op": "parse", "s": f"{v // 10}.{v % 10}s", "wellformed": True}

    # every string over a small alphabet of the grammar up to length 4 (5 on thorough): digits, dot, blank, newline,
    # sign and the letters of m / s / ms / ns -- the matcher against the real regular expression, exhaustively
    alphabet = "1. \nmsn-"
    for ln in range(1, 5 if quick else 6):
        for tup in itertools.product(alphabet, repeat=ln):
            yield {"stream": "small-scope-strings", "op": "parse", "s": "".join(tup), "wellformed": False}

    # ---- random
    N = 1500 if quick else 40000
    r = rng.fork("c01-random")
    for i in range(N):
        sub = r.fork(i)
        kind = sub.choice(["cont", "cont", "ts", "tags"])
        big = sub.chance(0.1)
        n = sub.randint(1, 3000 if big else 40)
        if kind == "cont":
            dt = sub.choice([1, 2, 3, 7, 10, 12800, 10**6, sub.randint(1, 10**9)])
            start = sub.choice([0, 1000, sub.randint(0, 2**40), sub.randint(2**61, 2**62)])
            ts = [start + j * dt for j in range(n)]
            case = {"kind": "cont", "start": start, "dt": dt, "n": n}
        else:
            dt = sub.choice([1, 5, 1000])
            t = sub.choice([0, 10**9, sub.randint(0, 2**60)])
            ts = []
            for j in range(n):
                t += sub.choice([0, 1, dt, sub.randint(1, 5 * dt)])
                ts.append(t)
            case = {"kind": kind, "ts": ts}
        unsorted = kind == "ts" and n > 1 and sub.chance(0.2)
        if unsorted:
            # two acquisitions appended / blocks out of order; windows are explicit integers (see small scope)
            k = sub.randint(1, n - 1)
            if sub.chance(0.5):
                ts = ts[k:] + ts[:k]
            else:
                ts = list(ts)
                sub.shuffle(ts)
            case = {"kind": "ts", "ts": ts, "unsorted": True}
            srt = sorted(ts)
            bv = boundary_values(srt, dt, sub)
        else:
            bv = boundary_values(ts, dt, sub)
        levels = sub.choice([1, 1, 2, 3])
        windows, via = [], []
        for _ in range(levels):
            w = []
            for _ in range(2):
                c = sub.randint(2 if unsorted else 0, 9)
                if c == 0:
                    w.append(None)
                elif c == 1:
                    # at nested levels the string is relative to the intermediate slice's own begin/end
                    w.append({"s": gen_timestring_for(sub, ts, dt)})
                elif c <= 7:
                    w.append(sub.choice(bv))
                else:
                    w.append(sub.randint(min(ts) - 3 * dt, max(ts) + 3 * dt))
            windows.append(w)
            has_none_or_str = any(x is None or isinstance(x, dict) for x in w)
            via.append(sub.choice(["slice", "slice", "slice", "obj", "marker", "calib", "tagslice", "markerh5", "calibfull"]))
        case.update({"stream": "random", "op": "get", "windows": windows, "via": via, "subseed": i})
        if sub.chance(0.25):
            # cont: start and bounds as NumPy scalars (as read from HDF5); ts / tags: the bounds (e.g. taken from another
            # channel's timestamps array)
            case["np"] = True
        if sub.chance(0.3):
            lowest = min(ts)
            case["shift"] = sub.choice([1, 7, 10**9, sub.randint(0, 2**40), -sub.randint(0, lowest)])
        h = sub.fork("history")
        if not big and h.chance(0.15):
            case["h5"] = True  # the channel as read from a file (see build_h5)
        if h.chance(0.3):
            # the same objects are indexed repeatedly (see touch): 1-3 other windows taken from them in between
            case["pre"] = [[(None if not unsorted and h.chance(0.15) else h.choice(bv)) for _ in range(2)] for _ in range(h.randint(1, 3))]
        yield case
    # random chains of 1-3 items through the whole Slice.__getitem__ (windows with every kind of bound, masks,
    # rarely a step / scalar / non-number bound / invalid string)
    NI = 400 if quick else 10000
    r = rng.fork("c01-items")
    for i in range(NI):
        sub = r.fork(i)
        kind = sub.choice(["cont", "ts", "tags"])
        n = sub.randint(0, 12) if sub.chance(0.9) else 0
        if kind == "cont":
            dt = sub.choice([1, 3, 10, 1000])
            start = sub.choice([0, 1000, sub.randint(0, 2**40)])
            ts = [start + j * dt for j in range(n)]
            case = {"kind": "cont", "start": start, "dt": dt, "n": n}
        else:
            dt = sub.choice([1, 5])
            t = sub.choice([0, 10**9])
            ts = []
            for j in range(n):
                t += sub.choice([0, 1, dt, sub.randint(1, 5 * dt)])
                ts.append(t)
            case = {"kind": kind, "ts": ts}
        cur = list(ts)
        items = []
        for _ in range(sub.randint(1, 3)):
            c = sub.randint(0, 19)
            if c <= 3 and kind != "tags" or c == 0:
                ln = len(cur) if sub.chance(0.9) else sub.randint(0, len(cur) + 2)
                m = [sub.chance(0.6) for _ in range(ln)]
                items.append({"t": "M", "mask": m})
                if ln != len(cur) or kind == "tags":
                    break
                cur = [t for t, f in zip(cur, m) if f]
            elif c == 4:
                items.append({"t": "X", "what": sub.choice(sorted(SCALARS))})
                break
            else:
                w = []
                for _ in range(2):
                    q = sub.randint(0, 11)
                    if q == 0:
                        w.append(None)
                    elif q == 1 and cur:
                        w.append({"s": gen_timestring_for(sub, cur, dt)})
                    elif q == 2:
                        w.append({"s": sub.choice(MALFORMED)})
                    elif q == 3:
                        w.append({"other": sub.choice(sorted(OTHERS))})
                    elif cur:
                        w.append(sub.choice(boundary_values(cur, dt, sub)))
                    else:
                        w.append(sub.randint(0, 50))
                it = {"t": sub.choice(["S", "S", "O"]), "a": w[0], "b": w[1]}
                if it["t"] == "O":
                    it["via"] = sub.choice(["obj", "marker", "calib", "tagslice", "markerh5", "calibfull"])
                elif sub.chance(0.05):
                    it["step"] = sub.choice([1, 2, -1])
                items.append(it)
                if any(isinstance(v, dict) for v in w) or "step" in it:
                    break  # the harness does not track the intermediate begin/end; the model does (one level)
                cur = [t for t in cur if (w[0] is None or w[0] <= t) and (w[1] is None or t < w[1])]
        case.update({"stream": "random", "op": "item", "items": items, "subseed": i})
        h = sub.fork("history")
        if h.chance(0.15):
            case["h5"] = True
        if h.chance(0.3):
            case["pre"] = [[(None if h.chance(0.15) else (h.choice(boundary_values(ts, dt, h)) if ts else h.randint(0, 50))) for _ in range(2)]
                           for _ in range(h.randint(1, 2))]
        yield case
    M = 600 if quick else 20000
    r = rng.fork("c01-strings")
    for i in range(M):
        sub = r.fork(i)
        if sub.chance(0.75):
            yield {"stream": "random-strings", "op": "parse", "s": gen_timestring(sub, 4), "wellformed": True, "subseed": i}
        else:
            # mutate a well-formed string
            s = list(gen_timestring(sub, 3))
            for _ in range(sub.randint(1, 2)):
                pos = sub.randint(0, len(s))
                m = sub.randint(0, 3)
                if m == 0 and s:
                    del s[min(pos, len(s) - 1)]
                elif m == 1:
                    s.insert(pos, sub.choice(list(" .-smhdun0123\n\t")))
                elif m == 2 and len(s) > 1:
                    j = min(pos, len(s) - 2)
                    s[j], s[j + 1] = s[j + 1], s[j]
                else:
                    s.append(sub.choice([" ", "\n", "s", "1"]))
            yield {"stream": "random-malformed", "op": "parse", "s": "".join(s), "wellformed": False, "subseed": i}
    K = 200 if quick else 5000
    r = rng.fork("c01-masks")
    for i in range(K):
        sub = r.fork(i)
        n = sub.randint(0, 30)
        t = 100
        ts = []
        for _ in range(n):
            t += sub.randint(0, 3)
            ts.append(t)
        m = [sub.chance(0.5) for _ in range(n if sub.chance(0.9) else sub.randint(0, 32))]
        yield {"stream": "random", "op": "mask", "kind": "ts", "ts": ts, "mask": m, "subseed": i}


def gen_timestring_for(rng, ts, dt):
    """a time string whose value lands near the channel's span"""
    span = max(ts[-1] - ts[0], 1)
    target = rng.randint(0, span + 2 * dt)
    # decompose target into s/ms/us/ns groups
    parts = []
    rem = target
    for u, ratio in UNITS[3:]:
        q, rem = divmod(rem, ratio)
        if q and q < 10**6:
            parts.append(f"{q}{u}")
        elif q:
            rem += q * ratio
    s = " ".join(parts) if parts else "0ns"
    if rng.chance(0.4):
        s = "-" + s
    return s


def extra_coverage(results):
    kinds = {}
    errs = {}
    out_sizes = {"empty": 0, "all": 0, "proper": 0}
    for r in results:
        c = r["case"]
        key = c["op"] + ("/" + c["kind"] if "kind" in c else "")
        kinds[key] = kinds.get(key, 0) + 1
        a = r["impl"][0]
        if a.endswith("Error"):
            errs[a] = errs.get(a, 0) + 1
        if c["op"] == "get":
            n_out = 0 if a.endswith("[]") else a.count(",") + 1
            n_in = c["n"] if c["kind"] == "cont" else len(c["ts"])
            out_sizes["empty" if n_out == 0 else ("all" if n_out == n_in else "proper")] += 1
    positions = {}
    for r in results:
        c = r["case"]
        if c["op"] != "get" or len(c["windows"]) != 1 or c.get("unsorted"):
            continue
        ts = timestamps_of(c)
        a, b = c["windows"][0]
        if not ts:
            pos = "empty-source"
        elif not (isinstance(a, int) or a is None) or not (isinstance(b, int) or b is None):
            pos = "time-string"
        else:
            lo = ts[0] if a is None else a
            hi = ts[-1] + 1 if b is None else b
            if lo > hi:
                pos = "inverted"
            elif lo == hi:
                pos = "empty-window"
            elif hi <= ts[0]:
                pos = "before"
            elif lo > ts[-1]:
                pos = "after"
            elif lo <= ts[0] and hi > ts[-1]:
                pos = "covering"
            elif lo <= ts[0]:
                pos = "overlap-left"
            elif hi > ts[-1]:
                pos = "overlap-right"
            else:
                pos = "inside"
            if c["kind"] == "cont" and isinstance(a, int) and isinstance(b, int):
                dt = c["dt"]
                pos += "/" + ("on" if (a - c["start"]) % dt == 0 else "off") + "-" + ("on" if (b - c["start"]) % dt == 0 else "off") + "-grid"
            if None in (a, b):
                pos += "/None"
        key = f"{c['kind']}/{pos}"
        positions[key] = positions.get(key, 0) + 1
    branches = {}
    for r in results:
        c = r["case"]
        if c["op"] != "item":
            continue
        a = r["impl"][0]
        outcome = a if (a.endswith("Error") or a.startswith("Error:")) else ("ok-empty" if a == "[]" else "ok")
        n_in = c["n"] if c["kind"] == "cont" else len(c["ts"])
        last = c["items"][-1]
        if last["t"] in ("S", "O"):
            def cls(v):
                return "None" if v is None else ("int" if isinstance(v, int) else ("str" if "s" in v else "other"))
            shape = last["t"] + ("+step" if last.get("step") is not None else "") + f"[{cls(last['a'])}:{cls(last['b'])}]"
        else:
            shape = last["t"]
        for key in (f"{shape}/{outcome}", f"{c['kind']}{'(empty)' if n_in == 0 else ''}/depth{len(c['items'])}/{last['t']}/{outcome}"):
            branches[key] = branches.get(key, 0) + 1
    parse_branches = {}
    for r in results:
        c = r["case"]
        if c["op"] != "parse":
            continue
        a = r["impl"][0]
        st = c["s"]
        if a == "RuntimeError":
            key = "rejected"
        else:
            import re

            groups = len(re.findall(r"[0-9.]+[ \t\n\r\x0b\x0c\x1c-\x1f]*[a-z]+", st))
            key = f"accepted/{groups}-groups" + ("/signed" if st.startswith("-") else "") + ("/decimal" if "." in st else "") + (
                "/trailing-newline" if st.endswith("\n") else "")
        parse_branches[key] = parse_branches.get(key, 0) + 1
    return {"case_kinds": kinds, "error_kinds": errs, "result_sizes": out_sizes, "getitem_branches": branches,
            "parse_branches": parse_branches, "window_positions": positions, "exhaustive": False,
            "exhaustive_note": "the small-scope stream enumerates its finite space completely; the random streams do not"}
