"""C19, clause 3 (aliasing) - the stream that ties the BUFFER model (lean/Verif/Model/C19.lean, namespace Alias) to pylake.

A case is a kymograph description plus a history over
    ["g", i, key]        key in r / g / b / ts : objs[i].get_image(colour) / objs[i].timestamps   -> a handle (kept)
    ["rgb", i]           objs[i].get_image("rgb")                                                  -> a handle (kept)
    ["w", h, j, v]       in-place write through the h-th handle: element j (row-major) := v        -> refused / written
    ["v", i, "crop", lo, hi] | ["v", i, "flip"] | ["v", i, "down", k]      crop_by_distance / flip / downsampled_by(position)
    ["c", i]             copy.copy;   ["c", i, "kbp"]   calibrate_to_kbp (to the model the same step: factories carried, no table)
Three parties answer every step:
    implementation   the real objects, the whole history in order, writes included               -> op c19.alias
    twins            for every step a FRESHLY built kymograph on which only the derivations that made the addressed object
                     are replayed, never written to (the property text)                           -> op c19.aliasSpec
    model            the reference-semantics machine (buffers, views, WRITEABLE flags, memo tables: runA) and the value
                     semantics (runS); `Verif.C19.alias_refines` proves the two equal for every history.
The source values (the three colour planes and the timestamps of the unprocessed kymograph, row-major) are read from a clean
object and sent to the model as inputs: what they ARE is C02/C03's subject, what may happen to them is this clause.
"""
import copy as _copy

import numpy as np

COLOR = {"r": "red", "g": "green", "b": "blue"}
_MAKE = None  # set by c19.py: cf_make(spec) -> a new kymograph
_QUIET = None


def is_alias(case):
    return case.get("family") == "alias"


def get(o, key):
    return o.timestamps if key == "ts" else o.get_image(COLOR[key])


def show(a):
    return "arr(%s;[%s])" % ("T" if a.flags.writeable else "F", ",".join(str(int(v)) for v in np.asarray(a).ravel()))


def derive(o, op):
    if op[0] == "c":
        return o.calibrate_to_kbp(12.5) if len(op) > 2 else _copy.copy(o)  # both: factories carried, memo table not
    if op[2] == "crop":
        px = o.pixelsize[0]
        return o.crop_by_distance((op[3] + 0.25) * px, (op[4] - 0.25) * px)
    if op[2] == "flip":
        return o.flip()
    if op[2] == "down":
        return o.downsampled_by(time_factor=1, position_factor=op[3])
    raise KeyError(op[2])


def write(a, j, v):
    try:
        a[np.unravel_index(j, a.shape)] = v
        return "written"
    except ValueError:
        return "refused"


def ask(o, op):
    """-> (answer, handle or None)"""
    if op[0] == "g":
        a = get(o, op[2])
        return show(a), a
    try:
        a = o.get_image("rgb")
    except ValueError:
        return "err", None
    return show(a), a


def run_hist(spec, hist):
    objs, handles, out = [_MAKE(spec)], [], []
    for op in hist:
        if op[0] in ("g", "rgb"):
            if op[1] >= len(objs):
                out.append("dead")
                continue
            ans, a = ask(objs[op[1]], op)
            if a is not None:
                handles.append(a)
            out.append(ans)
        elif op[0] == "w":
            out.append(write(handles[op[1]], op[2], op[3]) if op[1] < len(handles) else "dead")
        else:
            if op[1] >= len(objs):
                out.append("dead")
                continue
            objs.append(derive(objs[op[1]], op))
            out.append("made")
    return out


def lineage(hist, t):
    """the derivation steps that made object t, oldest first"""
    made = [x for x, op in enumerate(hist) if op[0] in ("v", "c")]
    steps = []
    while t != 0:
        x = made[t - 1]
        steps.append(hist[x])
        t = hist[x][1]
    return steps[::-1]


def twin_object(spec, hist, t):
    o = _MAKE(spec)
    for op in lineage(hist, t):
        o = derive(o, op)
    return o


def run_twins(spec, hist):
    out, nobj, asked = [], 1, []  # asked: the steps that handed out an array, in order
    for n, op in enumerate(hist):
        if op[0] in ("g", "rgb"):
            if op[1] >= nobj:
                out.append("dead")
                continue
            ans, a = ask(twin_object(spec, hist, op[1]), op)
            if a is not None:
                asked.append(op)
            out.append(ans)
        elif op[0] == "w":
            if op[1] >= len(asked):
                out.append("dead")
                continue
            src = asked[op[1]]
            _, a = ask(twin_object(spec, hist, src[1]), src)  # a fresh array of the same kind: does NumPy let us write?
            out.append(write(a, op[2], op[3]))
        else:
            if op[1] >= nobj:
                out.append("dead")
                continue
            nobj += 1
            out.append("made")
    return out


def impl(case):
    with _QUIET():
        return ["|".join(run_hist(case["obj"], case["hist"])), "|".join(run_twins(case["obj"], case["hist"]))]


def tok(op):
    if op[0] == "g":
        return f"g:{op[1]}:{op[2]}"
    if op[0] == "rgb":
        return f"rgb:{op[1]}"
    if op[0] == "w":
        return f"w:{op[1]}:{op[2]}:{op[3]}"
    if op[0] == "c":
        return f"c:{op[1]}"  # copy.copy and calibrate_to_kbp
    return f"v:{op[1]}:" + ".".join(str(x) for x in op[2:])


def ops(case):
    with _QUIET():
        o = _MAKE(case["obj"])
        planes = [np.asarray(get(o, k)) for k in ("r", "g", "b", "ts")]
    cols = planes[0].shape[1]
    head = f"{cols} " + " ".join("[" + ",".join(str(int(v)) for v in p.ravel()) + "]" for p in planes)
    tail = "".join(" " + tok(op) for op in case["hist"])
    return ["c19.alias " + head + tail, "c19.aliasSpec " + head + tail]


def oracle(case, ia):
    hist, twin = ia[0].split("|"), ia[1].split("|")
    for n, op in enumerate(case["hist"]):
        if op[0] in ("g", "rgb") and hist[n] != twin[n]:
            writes = [o for o in case["hist"][:n] if o[0] == "w"]
            return (
                f"aliasing / order-dependence: step {n} {op} after {case['hist'][:n]} answers {hist[n][:120]} but a freshly built, "
                f"never written-to object answers {twin[n][:120]} ({len(writes)} in-place write attempts before it)"
            )
        if op[0] == "w" and hist[n] == "written":
            src = [o for o in case["hist"][:n] if o[0] in ("g", "rgb")][op[1]]
            if src[0] == "g":
                return f"aliasing: step {n}: NumPy accepted an in-place write through the array handed out by {src}"
    return None


def nontrivial(case, ia):
    h = case["hist"]
    return any(o[0] == "w" for o in h) and any(o[0] in ("g", "rgb") for o in h[1:])


def shrink(case):
    h = case["hist"]
    base = {k: v for k, v in case.items() if not k.startswith("_")}
    # dropping a step is safe when nothing later refers to what it made: only trailing steps and writes
    if h:
        yield dict(base, hist=h[:-1])
    for i in range(len(h) - 1, -1, -1):
        if h[i][0] == "w":
            yield dict(base, hist=h[:i] + h[i + 1 :])


# ------------------------------------------------------------------------------------------------------------ generators


class Tr:
    """rows of every object and size of every handle along a history (so that generated steps are valid)"""

    def __init__(self, P, lines):
        self.lines, self.rows, self.proc, self.kbp, self.sizes, self.hist = lines, [P], [False], [False], [], []

    def steps(self, small):
        out = []
        for i, r in enumerate(self.rows):
            out += [["g", i, "r"], ["g", i, "ts"], ["rgb", i]]
            if not small:
                out += [["g", i, "g"], ["g", i, "b"]]
        for h, n in enumerate(self.sizes):
            out.append(["w", h, 0, 1000 + h])
            if not small and n > 1:
                out.append(["w", h, n - 1, -7])
        for i, r in enumerate(self.rows):
            out.append(["c", i])
            if not small and not self.kbp[i]:
                out.append(["c", i, "kbp"])
            if r >= 2:
                out.append(["v", i, "crop", 1, r])
                out.append(["v", i, "down", 2])
                if not (small and self.proc[i]):  # the small alphabet flips unprocessed kymographs only
                    out.append(["v", i, "flip"])
            if not small and r >= 3:
                out += [["v", i, "crop", 0, r - 1], ["v", i, "down", r - 1]]
        return out

    def push(self, op):
        self.hist.append(op)
        if op[0] == "g":
            self.sizes.append(self.rows[op[1]] * self.lines)
        elif op[0] == "rgb":
            self.sizes.append(self.rows[op[1]] * self.lines * 3)
        elif op[0] == "c":
            self.rows.append(self.rows[op[1]])
            self.proc.append(self.proc[op[1]])
            self.kbp.append(self.kbp[op[1]] or len(op) > 2)
        elif op[0] == "v":
            r = self.rows[op[1]]
            self.rows.append(op[4] - op[3] if op[2] == "crop" else r // op[3] if op[2] == "down" else r)
            self.proc.append(True if op[2] != "flip" else self.proc[op[1]])
            self.kbp.append(self.kbp[op[1]])

    def fork(self):
        t = Tr(0, self.lines)
        t.rows, t.proc, t.kbp, t.sizes, t.hist = list(self.rows), list(self.proc), list(self.kbp), list(self.sizes), list(self.hist)
        return t


def exhaustive(P, lines, depth, keep):
    """every history of length <= depth over the steps valid at each point (small alphabet); `keep(hist)` filters"""
    out = []

    def rec(tr):
        if tr.hist and keep(tr.hist):
            out.append(list(tr.hist))
        if len(tr.hist) == depth:
            return
        for op in tr.steps(True):
            t = tr.fork()
            t.push(op)
            rec(t)

    rec(Tr(P, lines))
    return out


def random_hist(rng, P, lines, length):
    tr = Tr(P, lines)
    for _ in range(length):
        steps = tr.steps(False)
        kind = rng.choice(["g", "g", "w", "w", "d"] if tr.sizes else ["g", "g", "d"])
        pool = [s for s in steps if (s[0] in ("g", "rgb")) == (kind == "g") and (s[0] == "w") == (kind == "w")]
        op = list(rng.choice(pool or steps))
        if op[0] == "w":
            op[2] = rng.randint(0, tr.sizes[op[1]] - 1)
            op[3] = rng.choice([0, -1, 255, 10**6, rng.randint(-50, 50)])
        if op[0] == "v" and op[2] == "crop":
            r = tr.rows[op[1]]
            lo = rng.randint(0, r - 1)
            op[3], op[4] = lo, rng.randint(lo + 1, r)
        if op[0] == "v" and op[2] == "down":
            op[3] = rng.randint(1, tr.rows[op[1]])
        tr.push(op)
    return tr.hist


def coverage(results):
    """distribution of the branches of the buffer machine the histories went through"""
    cov = {"cases": 0, "memo_hit": 0, "memo_miss_default_factory": 0, "memo_miss_view_of_parent": 0,
           "memo_miss_new_buffer_from_parent": 0, "rgb_stack": 0, "write_refused": 0, "write_written": 0,
           "get_after_a_successful_write": 0, "derive": {}, "max_depth": 0}
    for r in results:
        c = r["case"]
        if not is_alias(c):
            continue
        cov["cases"] += 1
        kinds, tkinds, depth, seen, wrote = [None], [None], [0], set(), False
        try:
            answers = r["impl"][0].split("|")
        except Exception:
            answers = []
        for n, op in enumerate(c["hist"]):
            if op[0] in ("v", "c"):
                name = ("calibrate_to_kbp" if len(op) > 2 else "copy") if op[0] == "c" else op[2]
                cov["derive"][name] = cov["derive"].get(name, 0) + 1
                kinds.append(kinds[op[1]] if op[0] == "c" else op[2])
                tkinds.append(tkinds[op[1]] if op[0] == "c" or op[2] == "flip" else op[2])
                depth.append(depth[op[1]] + (op[0] == "v"))
                cov["max_depth"] = max(cov["max_depth"], depth[-1])
            elif op[0] == "w":
                a = answers[n] if n < len(answers) else "?"
                cov["write_refused"] += a == "refused"
                cov["write_written"] += a == "written"
                wrote = wrote or a == "written"
            else:
                keys = ["r", "g", "b"] if op[0] == "rgb" else [op[2]]
                cov["rgb_stack"] += op[0] == "rgb"
                cov["get_after_a_successful_write"] += wrote
                for k in keys:
                    if (op[1], k) in seen:
                        cov["memo_hit"] += 1
                        continue
                    seen.add((op[1], k))  # (ancestors' tables are filled as well; counted at the asked object only)
                    kd = tkinds[op[1]] if k == "ts" else kinds[op[1]]
                    if kd is None:
                        cov["memo_miss_default_factory"] += 1
                    elif kd == "down":
                        cov["memo_miss_new_buffer_from_parent"] += 1
                    else:
                        cov["memo_miss_view_of_parent"] += 1
    return cov
