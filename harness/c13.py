"""C13 — analytic model derivatives equal numerical derivatives: correspondence + oracle (DESIGN.md 6/C13).

Three kinds of cases
  base : one built-in model, one abscissa, one parameter vector    -> c13.val / c13.jac / c13.der
  tree : a composition (sum, independent-offset, inversion)        -> c13.tree names / jac / der
  fit  : 1-2 models x 1-3 data sets with renamed / shared / pinned parameters, data sets sharing a condition in
         every order of appearance (AAB, ABA, ABB ...)              -> c13.fit code / c13.fit fixed
The oracle differentiates numerically (Richardson-extrapolated central differences):
  base/tree : a plain-Python evaluation of the composition by NAMES (sum = sum of the parts, offset = shift
              of the abscissa, inverse = bisection of the forward part) over the leaf model functions,
  fit       : the implementation's own residual vector (`Fit._calculate_residual`), as the property says.

The harness is a caller with memory.  A Jacobian / derivative is a function of the abscissa and the parameter
vector only, so a case may say what the SAME model object (the same fit) was asked before the observed call:
  base/tree : "before" = [[method, abscissas, parameters | null], ...] — the model function `model(x, params)` / `jacobian` / `derivative` on
              other abscissas (same or different number of points) with the same or other parameter values, run
              before the observed Jacobian and again before the observed derivative; "also" / "pos" = other
              abscissas evaluated in the same (vectorised) call, the observed one at index pos,
  fit       : "pre" = [["res" | "jac", factor], ...] — residual / Jacobian evaluations of the same fit (at the
              parameter vector times `factor`) before the observed Jacobian (an optimiser asks for the residual
              first); fits contain inverted models (`invert()`, efjc_force, twlc_force) like any other.
Model and oracle are stateless: any dependence of the answer on such a history is a disagreement.
Offsets (force / distance offset leaves, the parameter of subtract_independent_offset()) are the only parameters whose
legitimate range contains 0, and "no offset" is their natural value: generators produce EXACTLY 0.0 on purpose — as a
parameter value of a composition, as the value of a fit parameter, and as the number a data set fixes the offset to
(`params={"DNA/d_offset": 0}`; case key "int_pins": integral constants are handed to add_data as Python ints).

What the harness touches of the implementation (robustness against behaviour-preserving refactorings):
  public    : model constructors, `model(x, {name: value})` (every model-function value: observed values, histories, the
              values returned by inversions, the leaf functions of the oracle), `Model.jacobian / derivative /
              parameter_names / independent`, `+`, `invert()`, `subtract_independent_offset()`, `FdFit`, `add_data`,
              `fit.params`, `Fit.verify_jacobian`.  Parts of a composition are built on their own through the public
              API and addressed by parameter NAME; the routing attributes of the compositions are not read.
  anchored  : `Fit._calculate_jacobian` (the property's observation point) and `Fit._calculate_residual` (its "residual
              vector") — observed while reachable under these names, else "?" (ignored by agree / oracle), the fit tie
              then rests on its public twin `Fit.verify_jacobian`, which the oracle judges in every run;
              `detail.model_implementation.calc_cubic_root / calc_cubic_root_derivatives` (raw cubics; no public twin
              for arbitrary coefficients) — when unreachable the raw-cubic cases report a broken tie, the chain rule
              stays tied through the public Jacobians / derivatives of the four cubic models.
"""
import math

import numpy as np

from common import enc_float, dec_float, enc_list, dec_list, errname

PROP = "C13"
THEOREMS = [
    "Verif.C13.odijk_distance_hasDerivAt",
    "Verif.C13.odijk_distance_jac",
    "Verif.C13.ms_force_hasDerivAt",
    "Verif.C13.ms_force_jac",
    "Verif.C13.offset_jac",
    "Verif.C13.offset_hasDerivAt",
    "Verif.C13.cubic_implicit_deriv",
    "Verif.C13.cubic_implicit_deriv_abc",
    "Verif.C13.coefficient_chain_odijk_force",
    "Verif.C13.coefficient_chain_wlc_distance",
    "Verif.C13.coefficient_chain_ewlc_force",
    "Verif.C13.coefficient_chain_ewlc_distance",
    "Verif.C13.inverse_derivative_rule",
    "Verif.C13.inverse_jacobian_rule",
    "Verif.C13.composite_jacobian",
    "Verif.C13.composite_jacobian_unfold",
    "Verif.C13.composite_is_sum_deriv",
    "Verif.C13.offset_jacobian",
    "Verif.C13.offset_jacobian_unfold",
    "Verif.C13.offset_chain_rule",
    "Verif.C13.localize_sensitivities_spec",
    "Verif.C13.fit_jacobian_assembly",
    "Verif.C13.fit_row_unfold",
    "Verif.C13.fit_row_sols_unfold",
    "Verif.C13.fit_rows_without_inversion",
    "Verif.C13.shared_parameter_chain_rule",
    "Verif.C13.F9_witness",
    "Verif.C13.cardano_chain_eq_implicit_partial",
    "Verif.C13.cubic_jac_eq_implicit_cardano",
    "Verif.C13.twlc_distance_hasDerivAt",
    "Verif.C13.efjc_distance_hasDerivAt",
    # deepening round D
    "Verif.C13.trig_chain_eq_implicit",
    "Verif.C13.trig_band_free",
    "Verif.C13.trig_root_is_simple_root",
    "Verif.C13.cardano_chain_eq_implicit",
    "Verif.C13.det_ne_zero_necessary",
    "Verif.C13.cubic_jac_eq_implicit",
    "Verif.C13.cardano_root_is_simple_root",
    "Verif.C13.cubic_root_hasDerivAt",
    "Verif.C13.efjc_distance_jac",
    "Verif.C13.twlc_distance_jac",
    "Verif.C13.composite_jacobian_end_to_end",
    "Verif.C13.offset_jacobian_end_to_end",
    "Verif.C13.fit_row_code_eq_accumulating",
    "Verif.C13.composite_indices_established",
    "Verif.C13.offset_indices_established",
    "Verif.C13.fit_indices_established",
    "Verif.C13.parameterNames_sub_globalNames",
    "Verif.C13.M.params_nodup",
    "Verif.C13.tree_derivative_sound",
    "Verif.C13.leaf_der_ok",
    "Verif.C13.groupConditions_perm",
    "Verif.C13.groupConditions_same_key",
    "Verif.C13.fitJacobian_shape",
    "Verif.C13.tree_jacobian_sound",
    "Verif.C13.leaf_jac_ok",
    "Verif.C13.leaf_jac_ok_cubic",
    "Verif.C13.demo_tree_hypotheses",
    "Verif.C13.efjc_distance_jac_Lc_St",
    "Verif.C13.efjc_distance_above_guards",
    "Verif.C13.efjc_distance_between_guards",
    "Verif.C13.inverted_tree_derivative_sound",
    "Verif.C13.demo_inverted",
    "Verif.C13.OF.jac_Lp_hasDerivAt",
    "Verif.C13.OF.jac_Lc_hasDerivAt",
    "Verif.C13.OF.jac_St_hasDerivAt",
    "Verif.C13.OF.jac_kT_hasDerivAt",
    "Verif.C13.OF.der_hasDerivAt",
    "Verif.C13.WD.jac_Lp_hasDerivAt",
    "Verif.C13.WD.jac_Lc_hasDerivAt",
    "Verif.C13.WD.jac_kT_hasDerivAt",
    "Verif.C13.WD.der_hasDerivAt",
    "Verif.C13.EF.jac_Lp_hasDerivAt",
    "Verif.C13.EF.jac_Lc_hasDerivAt",
    "Verif.C13.EF.jac_St_hasDerivAt",
    "Verif.C13.EF.jac_kT_hasDerivAt",
    "Verif.C13.EF.der_hasDerivAt",
    "Verif.C13.ED.jac_Lp_hasDerivAt",
    "Verif.C13.ED.jac_Lc_hasDerivAt",
    "Verif.C13.ED.jac_St_hasDerivAt",
    "Verif.C13.ED.jac_kT_hasDerivAt",
    "Verif.C13.ED.der_hasDerivAt",
]
for _ns, _vars in (("OF", "Lp Lc St kT d"), ("WD", "Lp Lc kT f"), ("EF", "Lp Lc St kT d"), ("ED", "Lp Lc St kT f")):
    THEOREMS += [f"Verif.C13.{_ns}.row_{v}" for v in _vars.split()]

RULE = "filled in below"
TRUSTED = []
ASSUMPTIONS = []

# ------------------------------------------------------------------ the built-in models

# kind -> (public constructor, independent variable, function-argument names)
KINDS = {
    "odijk_d": ("ewlc_odijk_distance", "f", ["Lp", "Lc", "St", "kT"]),
    "odijk_f": ("ewlc_odijk_force", "d", ["Lp", "Lc", "St", "kT"]),
    "ms_f": ("wlc_marko_siggia_force", "d", ["Lp", "Lc", "kT"]),
    "ms_d": ("wlc_marko_siggia_distance", "f", ["Lp", "Lc", "kT"]),
    "ems_f": ("ewlc_marko_siggia_force", "d", ["Lp", "Lc", "St", "kT"]),
    "ems_d": ("ewlc_marko_siggia_distance", "f", ["Lp", "Lc", "St", "kT"]),
    "efjc_d": ("efjc_distance", "f", ["Lp", "Lc", "St", "kT"]),
    "twlc_d": ("twlc_distance", "f", ["Lp", "Lc", "St", "C", "g0", "g1", "Fc", "kT"]),
    "offset_f": ("force_offset", "d", ["f_offset"]),
    "offset_d": ("distance_offset", "f", ["d_offset"]),
}
MODEL_KIND = {"offset_f": "offset", "offset_d": "offset"}  # protocol name of the kind
CUBIC = {"odijk_f", "ms_d", "ems_f", "ems_d"}
DEFAULTS = {"Lp": 40.0, "Lc": 16.0, "St": 1500.0, "kT": 4.11, "C": 440.0, "g0": -637.0, "g1": 17.0, "Fc": 30.6,
            "f_offset": 0.01, "d_offset": 0.01}


def _pl():
    from lumicks import pylake

    return pylake


_WARN_OFF = False


def _quiet():
    global _WARN_OFF
    if not _WARN_OFF:
        import warnings

        warnings.filterwarnings("ignore")
        np.seterr(all="ignore")
        _WARN_OFF = True


# ------------------------------------------------------------------ trees
# JSON form: ["base", kind, name] | ["add", t, t] | ["off", t] | ["inv", t] | ["efjc_f", name] | ["twlc_f", name]


def build(tree):
    """the implementation's Model object for a tree (public API only)"""
    pl = _pl()
    t = tree[0]
    if t == "base":
        return getattr(pl, KINDS[tree[1]][0])(tree[2])
    if t == "add":
        return build(tree[1]) + build(tree[2])
    if t == "off":
        return build(tree[1]).subtract_independent_offset()
    if t == "inv":
        return build(tree[1]).invert()
    if t == "efjc_f":
        return pl.efjc_force(tree[1])
    if t == "twlc_f":
        return pl.twlc_force(tree[1])
    raise ValueError(t)


def indep_of(tree):
    t = tree[0]
    if t == "base":
        return KINDS[tree[1]][1]
    if t in ("add", "off"):
        return indep_of(tree[1])
    if t == "inv":
        return "d" if indep_of(tree[1]) == "f" else "f"
    return "d"


def leaf_names(kind, name):
    """pylake's naming convention: `<model name>/<argument>`, kT is shared between models"""
    return [a if a == "kT" else f"{name}/{a}" for a in KINDS[kind][2]]


def offset_name(tree):
    """name of the offset parameter of an ["off", t] node: the parameter the offset model has and the wrapped model
    (built on its own through the public API) has not"""
    inner = set(obj_of(tree[1]).parameter_names)
    extra = [n for n in obj_of(tree).parameter_names if n not in inner]
    if len(extra) != 1:
        raise ValueError(f"offset model adds {extra} to the parameters of the wrapped model")
    return extra[0]


def tokens(tree):
    """protocol tokens of a tree; names are read from the public `parameter_names` of the implementation's model of
    each part, built on its own through the public API (they are inputs of the routing under test, not results of it;
    the routing attributes lhs / rhs / model / *_params of the compositions are not consulted)"""
    t = tree[0]
    if t == "base":
        names = list(obj_of(tree).parameter_names)
        return ["base", MODEL_KIND.get(tree[1], tree[1]), str(len(names))] + names
    if t == "add":
        return ["add"] + tokens(tree[1]) + tokens(tree[2])
    if t == "off":
        return ["off", offset_name(tree)] + tokens(tree[1])
    if t == "inv":
        return ["inv"] + tokens(tree[1])
    if t in ("efjc_f", "twlc_f"):
        names = list(obj_of(tree).parameter_names)
        return ["inv", "base", "efjc_d" if t == "efjc_f" else "twlc_d", str(len(names))] + names
    raise ValueError(t)


def call_model(obj, xs, pd):
    """the model function of a Model object through its public entry point `model(independent, {name: value})`"""
    return obj(np.asarray(xs, dtype=float), pd)


def collect_sols(tree, x, pd):
    """values the numerical inversions return for the inv nodes, pre-order (inputs of the model's inversion rule).
    Parameters are looked up BY NAME (`pd`); every inverted part is the implementation's model of that part, built
    through the public API and evaluated through the public `model(x, params)`"""
    t = tree[0]
    if t == "base":
        return []
    if t == "add":
        return collect_sols(tree[1], x, pd) + collect_sols(tree[2], x, pd)
    if t == "off":
        return collect_sols(tree[1], x - pd[offset_name(tree)], pd)
    if t == "inv":
        F = float(np.asarray(call_model(obj_of(tree), [x], pd)).ravel()[0])
        return [F] + collect_sols(tree[1], F, pd)
    if t in ("efjc_f", "twlc_f"):
        return [float(np.asarray(call_model(obj_of(tree), [x], pd)).ravel()[0])]
    raise ValueError(t)


_SOLS = {}


def sols_of(case):
    key = json_key(case)
    if key not in _SOLS:
        if len(_SOLS) > 5000:
            _SOLS.clear()
        try:
            _SOLS[key] = collect_sols(case["tree"], float(case["x"]), {n: float(v) for n, v in case["params"].items()})
        except Exception:
            _SOLS[key] = [float("nan")] * count_inv(case["tree"])
    return _SOLS[key]


def json_key(case):
    import json

    return json.dumps([case["tree"], case["x"], sorted(case["params"].items())])


def spec_sols(tree, x, pd):
    """the exact values of the inversions (bisection to machine precision), same order as collect_sols"""
    t = tree[0]
    if t == "base":
        return []
    if t == "add":
        return spec_sols(tree[1], x, pd) + spec_sols(tree[2], x, pd)
    if t == "off":
        return spec_sols(tree[1], x - pd[f"{tree_name(tree[1])}/{indep_of(tree[1])}_offset"], pd)
    sub = tree[1] if t == "inv" else ["base", "efjc_d" if t == "efjc_f" else "twlc_d", tree[1]]
    F = bisect(lambda F_: spec_eval(sub, F_, pd) - x, *bracket(sub, pd))
    return [F] + (spec_sols(sub, F, pd) if t == "inv" else [])


def has_derivative(tree):
    t = tree[0]
    if t == "twlc_f":
        return False
    if t in ("base", "efjc_f"):
        return True
    return all(has_derivative(s) for s in tree[1:] if isinstance(s, list))


def has_jacobian(tree):
    """the composition has an analytic Jacobian at all: the offset and the inversion of a model need that model's
    derivative w.r.t. the independent variable, which twlc_force does not provide (Model.has_jacobian is then false,
    jacobian() returns None and fits fall back to finite differences) — such trees are outside the property"""
    t = tree[0]
    if t in ("base", "efjc_f", "twlc_f"):
        return True
    subs = [s for s in tree[1:] if isinstance(s, list)]
    if t in ("off", "inv") and not has_derivative(subs[0]):
        return False
    return all(has_jacobian(s) for s in subs)


# ------------------------------------------------------------------ plain-Python specification of a composition


_LEAF = {}


def leaf_fn(kind):
    """model function `fn(x_array, *args)` of a built-in leaf for the oracle's plain-Python evaluation: the public model
    object of that kind (`pylake.<constructor>("leaf")`) evaluated through its public `model(x, {name: value})`, the
    parameters in argument order"""
    if kind not in _LEAF:
        obj = getattr(_pl(), KINDS[kind][0])("leaf")
        names = list(obj.parameter_names)
        if len(names) != len(KINDS[kind][2]):
            raise ValueError(f"{kind}: the model has the parameters {names}")
        _LEAF[kind] = lambda x, *args, obj=obj, names=names: obj(x, dict(zip(names, args)))
    return _LEAF[kind]


def tree_name(tree):
    t = tree[0]
    if t == "base":
        return tree[2]
    if t == "add":
        return tree_name(tree[1]) + "_with_" + tree_name(tree[2])
    if t == "off":
        return tree_name(tree[1]) + "(x-d)"
    if t == "inv":
        return "inv(" + tree_name(tree[1]) + ")"
    return tree[1] if t == "twlc_f" else "inv(" + tree[1] + ")"


class NoBracket(Exception):
    pass


def spec_eval(tree, x, pd):
    """value of the composition at x with parameters looked up BY NAME (sum of parts, shifted abscissa, inverse by
    bisection) — written from the property text, shares no routing with the implementation"""
    t = tree[0]
    if t == "base":
        args = [pd[n] for n in leaf_names(tree[1], tree[2])]
        return float(np.asarray(leaf_fn(tree[1])(np.array([x], dtype=float), *args)).ravel()[0])
    if t == "add":
        return spec_eval(tree[1], x, pd) + spec_eval(tree[2], x, pd)
    if t == "off":
        return spec_eval(tree[1], x - pd[f"{tree_name(tree[1])}/{indep_of(tree[1])}_offset"], pd)
    if t in ("inv", "efjc_f", "twlc_f"):
        sub = tree[1] if t == "inv" else ["base", "efjc_d" if t == "efjc_f" else "twlc_d", tree[1]]
        return bisect(lambda F: spec_eval(sub, F, pd) - x, *bracket(sub, pd))
    raise ValueError(t)


def bracket(sub, pd):
    hi = 1.0e3
    # the twistable model loses validity (pole) at f_max = (-g0 + sqrt(St C)) / g1
    for leaf in leaves(sub):
        if leaf[1] == "twlc_d":
            n = leaf[2]
            fmax = (-pd[f"{n}/g0"] + math.sqrt(pd[f"{n}/St"] * pd[f"{n}/C"])) / pd[f"{n}/g1"]
            hi = min(hi, 0.95 * fmax)
    return 1.0e-3, hi


def leaves(tree):
    if tree[0] == "base":
        return [tree]
    if tree[0] in ("efjc_f", "twlc_f"):
        return [["base", "efjc_d" if tree[0] == "efjc_f" else "twlc_d", tree[1]]]
    out = []
    for s in tree[1:]:
        if isinstance(s, list):
            out += leaves(s)
    return out


def bisect(g, lo, hi):
    glo, ghi = g(lo), g(hi)
    if not (math.isfinite(glo) and math.isfinite(ghi)) or glo * ghi > 0:
        raise NoBracket()
    for _ in range(200):
        mid = 0.5 * (lo + hi)
        if mid == lo or mid == hi:
            break
        gm = g(mid)
        if (gm > 0) == (ghi > 0):
            hi, ghi = mid, gm
        else:
            lo, glo = mid, gm
    return 0.5 * (lo + hi)


def cubic_invariants(kind, x, P):
    """(p, q) of the depressed cubic of a cubic-based model, derived from the model EQUATION (not from the code's
    coefficient formulas): Odijk  F (F/St - alpha)^2 = kT/(4 Lp), alpha = d/Lc - 1;  Marko-Siggia in y = Lc z,
    z the relative (entropic) extension:  F Lp/kT = 1/(4 (1-z)^2) - 1/4 + z;  extensible force in w = 1 - d/Lc + F/St:
    (4k+4) w^3 - (4 k u + 3) w^2 - 1 = 0, k = St Lp / kT, u = 1 - d/Lc, F = St (w - u).  A shift of the unknown does
    not change (p, q); a scaling y -> s y multiplies p by s^2 and q by s^3."""
    if kind not in CUBIC:
        return None
    Lp, Lc, kT = P["Lp"], P["Lc"], P["kT"]
    if kind == "odijk_f":
        St = P["St"]
        al = x / Lc - 1.0
        a, b, c, sc = -2.0 * al * St, al * al * St * St, -0.25 * (kT / Lp) * St * St, 1.0
    elif kind in ("ms_d", "ems_d"):
        t = x * Lp / kT
        a, b, c, sc = -Lc * (t + 2.25), Lc * Lc * (2.0 * t + 1.5), -t * Lc**3, 1.0
    elif kind == "ems_f":
        St = P["St"]
        k = St * Lp / kT
        u = 1.0 - x / Lc
        a, b, c, sc = -(4.0 * k * u + 3.0) / (4.0 * k + 4.0), 0.0, -1.0 / (4.0 * k + 4.0), St
    else:
        return None
    p_ = (b - a * a / 3.0) * sc**2
    q_ = (2.0 * a**3 / 27.0 - a * b / 3.0 + c) * sc**3
    return p_, q_


def amplification(kind, x, args):
    """how much the cancellation inside det = q^2/4 + p^3/27 amplifies rounding errors of the coefficients"""
    inv = cubic_invariants(kind, x, dict(zip(KINDS[kind][2], args)))
    if inv is None:
        return 1.0
    p_, q_ = inv
    det = q_ * q_ / 4.0 + p_**3 / 27.0
    if det == 0 or not math.isfinite(det):
        return float("inf")
    amp = (q_ * q_ / 4.0 + abs(p_) ** 3 / 27.0) / abs(det)
    if det > 0:  # cancellation inside the arguments -q/2 +- sqrt(det) of the cube roots
        s_ = math.sqrt(det)
        tmin = min(abs(s_ - 0.5 * q_), abs(-s_ - 0.5 * q_))
        amp = max(amp, (abs(q_) * 0.5 + s_) / tmin if tmin > 0 else float("inf"))
    return amp


def in_band(kind, x, args, margin=3.0):
    """the documented regularisation band (1e-5 clamps of the Cardano chain rule; |F| = 1 of the trigonometric one),
    widened by `margin`, from the cubic's invariants"""
    inv = cubic_invariants(kind, x, dict(zip(KINDS[kind][2], args)))
    if inv is None:
        return False
    p_, q_ = inv
    det = q_ * q_ / 4.0 + p_**3 / 27.0
    if not math.isfinite(det):
        return True
    if det > 0:
        s_ = math.sqrt(det)
        t1 = abs(s_ - 0.5 * q_) ** (2.0 / 3.0)
        t2 = abs(-s_ - 0.5 * q_) ** (2.0 / 3.0)
        return min(t1, t2, s_) < 1.0e-5 * margin
    if p_ >= 0:
        return True
    F = 3.0 * math.sqrt(3.0) * q_ / (2.0 * (-p_) ** 1.5)
    return abs(F) > 1.0 - 1.0e-7 * margin


def richardson(fn, x, h):
    """central differences with steps h, h/2, h/4, h/8, extrapolated; returns (derivative, error estimate).  The error
    estimate includes `jump_estimate`: a numerical derivative is only accepted where the function is numerically
    differentiable (a sample placed exactly on a regime boundary gives a perfectly 'converged' central difference —
    the mean of the two one-sided slopes)"""
    rows, ends = [], []
    for k in range(4):
        hk = h / (2**k)
        up, dn = fn(x + hk), fn(x - hk)
        ends.append((hk, up, dn))
        row = [(up - dn) / (2 * hk)]
        for j in range(1, k + 1):
            row.append(row[j - 1] + (row[j - 1] - rows[k - 1][j - 1]) / (4**j - 1))
        rows.append(row)
    best = rows[3][3]
    err = max(abs(rows[3][3] - rows[3][2]), abs(rows[3][3] - rows[2][2]))
    return best, err + noise_of(fn, x) / (h / 8) * 4 + JUMP_WEIGHT * jump_estimate(fn(x), ends)


JUMP_WEIGHT = 0.05  # on a kink with slope jump J the central difference is off by at most J/2 from either one-sided
#                     derivative; `judge` abstains when err > 1e-7 mag and tolerates 10 err = J/2 otherwise


def jump_estimate(f0, ends):
    """difference between the right and the left derivative: D(h) = (f(x+h) - 2 f(x) + f(x-h)) / h is (right slope -
    left slope) + f'' h + O(h^3), so 2 D(h/2) - D(h) is the jump J of the slope up to O(h^3) (0 for a smooth function).
    Taken from the two largest and from the two smallest steps; the smaller one counts (the large steps are limited
    by truncation, the small ones by rounding noise; at a kink both are ~|J|).  Works on floats and on arrays."""
    D = [(up - 2 * f0 + dn) / hk for hk, up, dn in ends]
    return np.minimum(np.abs(2 * D[1] - D[0]), np.abs(2 * D[3] - D[2]))


def noise_of(fn, x):
    """rounding noise of fn near x: second differences at a spacing (2^-33 relative) at which the true curvature is
    invisible — what is left is the cancellation noise of the evaluation (cube roots of the Cardano formula)"""
    d = max(abs(x), 1e-3) * 2.0**-33
    v = [fn(x + k * d) for k in range(6)]
    return max(abs(v[k] - 2 * v[k + 1] + v[k + 2]) for k in range(4)) / 2


def step_for(v, scale):
    return 1.0e-3 * max(abs(v), scale)


ORACLE_REL = 2.0e-6  # analytic vs numerical derivative (relative to the larger of the two + conditioning floor)


INV_REL = 1.0e-3  # through a numerical inversion (least_squares, tol 1e-8): the analytic rule is evaluated at the
#                    solver's F, whose error (~1e-5 relative) is outside the property


JUDGED = [0, 0]  # derivative entries handed to the oracle / of which abstained


def judge(an, num, err, floor, loose=False, rel=None):
    """None = agree; 'skip' = numerical derivative did not converge; else text"""
    JUDGED[0] += 1
    if not (math.isfinite(num) and math.isfinite(err)):
        JUDGED[1] += 1
        return "skip"
    mag = max(abs(an), abs(num), floor)
    if err > 1.0e-7 * mag:
        JUDGED[1] += 1
        return "skip"
    if not math.isfinite(an):
        return f"analytic value {an} is not finite where the numerical derivative is {num}"
    if abs(an - num) > (rel or (INV_REL if loose else ORACLE_REL)) * mag + 10 * err:
        return f"analytic {an!r} vs numerical {num!r} (± {err:.1e})"
    return None


# ------------------------------------------------------------------ impl / ops


def fl(v):
    v = float(v)
    return "nan" if math.isnan(v) else enc_float(v)


def fl_list(vs):
    return "[" + ",".join(fl(v) for v in vs) + "]"


def dec(s):
    return dec_float(s)


def pvec(case, names):
    return [float(case["params"][n]) for n in names]


_OBJ_CACHE = {}


def obj_of(tree):
    key = repr(tree)
    if key not in _OBJ_CACHE:
        if len(_OBJ_CACHE) > 2000:
            _OBJ_CACHE.clear()
        _OBJ_CACHE[key] = build(tree)
    return _OBJ_CACHE[key]


def xvec(case):
    """(abscissa array of the observed call, index of the observed abscissa in it): `x` alone, or together with
    the other abscissas `also` of the same vectorised call"""
    also = [float(v) for v in case.get("also", [])]
    pos = min(max(int(case.get("pos", 0)), 0), len(also))
    return np.array(also[:pos] + [float(case["x"])] + also[pos:], dtype=float), pos


def at(arr, pos):
    """entry `pos` of a per-point result (a row that does not depend on the abscissa may come back as a scalar)"""
    a = np.asarray(arr, dtype=float).ravel()
    return a[pos] if a.size > 1 else a[0]


def run_steps(obj, steps, p_same, names=None):
    """what the same model object was asked before the observed call (results and errors are not observed)"""
    for meth, xs, pd in steps or []:
        try:
            pv = p_same if pd is None else ([float(pd[n]) for n in names] if isinstance(pd, dict) else [float(v) for v in pd])
            xa = np.array([float(v) for v in xs], dtype=float)
            if meth == "call":
                call_model(obj, xa, dict(zip(obj.parameter_names, pv)))
            elif meth == "jac":
                obj.jacobian(xa, pv)
            elif meth == "der":
                obj.derivative(xa, pv)
        except Exception:
            pass


def priv(obj, name):
    """a private member of the implementation that the harness observes, or None when it is not there under that
    name any more (renamed / inlined by a refactoring): the observation is then "?" — never an implementation answer"""
    return getattr(obj, name, None)


UNREACHABLE = {}  # private member -> number of observations that could not be made (evidence)


def fit_fns(fit):
    """(Jacobian, residual vector) of a fit as functions of the parameter vector: `Fit._calculate_jacobian` (the
    property's observation point) and `Fit._calculate_residual` (the property's 'residual vector'; no public accessor
    returns the vector itself), each None when unreachable"""
    out = []
    for name in ("_calculate_jacobian", "_calculate_residual"):
        fn = priv(fit, name)
        if fn is None:
            UNREACHABLE[name] = UNREACHABLE.get(name, 0) + 1
        out.append(fn)
    return out


def run_fit_steps(fit, steps, vec):
    jac_fn, res_fn = priv(fit, "_calculate_jacobian"), priv(fit, "_calculate_residual")
    for meth, factor in steps or []:
        try:
            v = np.array(vec, dtype=float) * float(factor)
            if meth == "res":  # (public entries that evaluate the same thing when the private one is gone)
                res_fn(v) if res_fn else fit.log_likelihood(v, sigma=np.ones(1))
            elif meth == "jac":
                jac_fn(v) if jac_fn else fit.verify_jacobian(v, verbose=False)
        except Exception:
            pass


# the public twin of the fit tie: `Fit.verify_jacobian(params, dx=, rtol=, atol=)` compares the fit's analytic Jacobian
# with central differences (absolute step dx for every parameter) of its residual vector and returns one bool
VERIFY_DX = 3.0e-5
VERIFY_RTOL = 1.0e-3
VERIFY_ATOL = 3.0e-5  # x largest |ordinate| of the data: rounding noise of the cubic models' values / dx


def public_verify(fit, case, vec):
    """ "1" / "0" = what the public Fit.verify_jacobian says at the case's parameter vector; "?" = not asked (no
    parameter; a model with a numerical inversion — every residual evaluation solves an inversion per point, whose
    tolerance 1e-8 divided by dx is far above any useful threshold) or it raised"""
    if not len(vec) or fit_has_inv(case):
        return "?"
    scale = max([abs(float(y)) for m in case["models"] for d in m["data"] for y in d["ys"]] + [0.0])
    try:
        return "1" if fit.verify_jacobian(np.array(vec, dtype=float), plot=0, verbose=False, dx=VERIFY_DX, rtol=VERIFY_RTOL,
                                          atol=VERIFY_ATOL * scale) else "0"
    except Exception:
        return "?"


def impl(case):
    _quiet()
    k = case["op"]
    try:
        if k == "base":
            obj = obj_of(["base", case["kind"], "m"])
            x, pos = xvec(case)
            p = [float(v) for v in case["p"]]
            out = []
            try:
                out.append(fl(at(call_model(obj, x, dict(zip(obj.parameter_names, p))), pos)))
            except Exception as e:
                out.append(errname(e))
            run_steps(obj, case.get("before"), p)
            try:
                j = obj.jacobian(x, p)
                out.append(fl_list([at(r, pos) for r in j]))
            except Exception as e:
                out.append(errname(e))
            run_steps(obj, case.get("before"), p)
            try:
                out.append(fl(at(obj.derivative(x, p), pos)))
            except Exception as e:
                out.append(errname(e))
            return out
        if k == "cubic":
            # anchored mechanism without a public twin for arbitrary (a, b, c): tied directly while it is reachable under
            # its name; the same chain rule stays tied through the public Jacobians / derivatives of the four cubic
            # models (base, tree and fit cases), which do not need it by name
            try:
                from lumicks.pylake.fitting.detail import model_implementation as mi

                root_fn, droot_fn = mi.calc_cubic_root, mi.calc_cubic_root_derivatives
            except (ImportError, AttributeError) as e:
                return [f"Error:TieBroken:anchored calc_cubic_root / calc_cubic_root_derivatives not reachable ({type(e).__name__}: {str(e)[:80]})"]
            a, b, c = (np.array([float(case[n])]) for n in "abc")
            y = root_fn(a, b, c, case["k"])
            d = droot_fn(a, b, c, case["k"])
            return [fl_list([y[0], d[0][0], d[1][0], d[2][0]])]
        if k == "tree":
            obj = obj_of(case["tree"])
            names = list(obj.parameter_names)
            p = pvec(case, names)
            x, pos = xvec(case)
            out = [" ".join(names) + " | " + fl_list(sols_of(case))]
            run_steps(obj, case.get("before"), p, names)
            try:
                j = obj.jacobian(x, p)
                out.append(fl_list([at(r, pos) for r in np.asarray(j)]))
            except Exception as e:
                out.append(errname(e))
            if has_derivative(case["tree"]):
                run_steps(obj, case.get("before"), p, names)
                try:
                    out.append(fl(at(obj.derivative(x, p), pos)))
                except Exception as e:
                    out.append(errname(e))
            try:  # the model function itself, through the public `model(x, {name: value})` (tie of M.val)
                out.append(fl(at(call_model(obj, x, dict(zip(names, p))), pos)))
            except Exception as e:
                out.append(errname(e))
            return out
        if k == "fit":
            fit, _ = build_fit(case)
            names = [str(n) for n in fit.params.keys()]
            vec = np.array([float(case["values"][n]) for n in names], dtype=float)
            run_fit_steps(fit, case.get("pre"), vec)
            jac_fn, res_fn = fit_fns(fit)
            head = " ".join(names) + " | "
            a0 = a1 = head + "?"
            if jac_fn is not None:
                J = np.asarray(jac_fn(np.array(vec)))
                a0 = head + "[" + ";".join(",".join(fl(v) for v in row) for row in J) + "]"
            if res_fn is not None:
                Jn, En = numeric_fit_jacobian(res_fn, vec)
                if fit_has_inv(case):
                    # every residual evaluation solves an inversion per point: the oracle (which judges the very same
                    # numerical differentiation of the residual vector) takes this table instead of repeating it
                    if len(_NUMJ) > 50:
                        _NUMJ.clear()
                    _NUMJ[fit_key(case)] = (np.array(Jn), np.array(En))
                Jn = np.where(En > 1.0e-7 * np.maximum(np.abs(Jn), 1e-300), np.nan, Jn)  # not converged (kink, noise)
                a1 = head + "[" + ";".join(",".join(fl(v) for v in row) for row in Jn) + "]"
            # the same tie through the public API (judged by the oracle, see oracle_fit)
            return [a0, a1 + " | V" + public_verify(fit, case, vec)]
    except Exception as e:
        return [errname(e)] * len(ops(case))
    raise ValueError(k)


_NUMJ = {}


def fit_key(case):
    import json

    return json.dumps({k: v for k, v in case.items() if not str(k).startswith("_") and k not in ("stream", "subseed")}, sort_keys=True)


def build_fit(case):
    pl = _pl()
    models = [build(m["tree"]) for m in case["models"]]
    fit = pl.FdFit(*models)
    for mi_, (m, obj) in enumerate(zip(case["models"], models)):
        for di, d in enumerate(m["data"]):
            xs, ys = np.array(d["xs"], dtype=float), np.array(d["ys"], dtype=float)
            f, dd = (xs, ys) if obj.independent == "f" else (ys, xs)
            fit[obj].add_data(f"m{mi_}d{di}", f, dd, params={n: pin_value(case, v) for n, v in d["trans"]})
    return fit, models


def numeric_fit_jacobian(res_fn, vec):
    """Richardson-extrapolated central differences of the residual vector `res_fn` (of a fit) at vec"""
    n = len(vec)
    r0 = np.asarray(res_fn(np.array(vec)))
    J = np.zeros((len(r0), n))
    E = np.zeros((len(r0), n))
    for i in range(n):
        def fn(t, i=i):
            v = np.array(vec)
            v[i] = t
            return np.asarray(res_fn(v))

        J[:, i], E[:, i] = richardson_vec(fn, vec[i], step_for(vec[i], 1e-2))
    return J, E


def richardson_vec(fn, x, h):
    rows, ends = [], []
    for k in range(4):
        hk = h / (2**k)
        up, dn = fn(x + hk), fn(x - hk)
        ends.append((hk, up, dn))
        row = [(up - dn) / (2 * hk)]
        for j in range(1, k + 1):
            row.append(row[j - 1] + (row[j - 1] - rows[k - 1][j - 1]) / (4**j - 1))
        rows.append(row)
    best = rows[3][3]
    err = np.maximum(np.abs(rows[3][3] - rows[3][2]), np.abs(rows[3][3] - rows[2][2]))
    d = max(abs(x), 1e-3) * 2.0**-33
    v = [fn(x + k * d) for k in range(6)]
    noise = np.max([np.abs(v[k] - 2 * v[k + 1] + v[k + 2]) for k in range(4)], axis=0) / 2
    return best, err + noise / (h / 8) * 4 + JUMP_WEIGHT * jump_estimate(fn(x), ends)


_FIT_SOLS = {}


def local_params(case, m, d):
    """{model parameter: value} of one data set of a fit case (renamed -> the fit parameter's value, pinned -> the
    number, untransformed -> the value of the parameter of that name)"""
    tr = dict((n, v) for n, v in d["trans"])
    out = {}
    for n in obj_of(m["tree"]).parameter_names:
        v = tr.get(n, n)
        out[n] = float(case["values"][v]) if isinstance(v, str) else float(v)
    return out


def fit_sols(case):
    """per model, per data set, per point: what the numerical inversions of the model tree return at that point with
    the data set's local parameters (inputs of the model's inversion rule, as `sols_of`), and the largest relative
    error of any of them against a bisection to machine precision (nan if that could not be measured)"""
    import json

    key = json.dumps([case["models"], sorted(case["values"].items())], sort_keys=True)
    if key not in _FIT_SOLS:
        if len(_FIT_SOLS) > 500:
            _FIT_SOLS.clear()
        rows, worst = [], 0.0
        for m in case["models"]:
            mrows = []
            n_inv = count_inv(m["tree"])
            obj = obj_of(m["tree"])
            names = list(obj.parameter_names)
            for d in m["data"]:
                drows = []
                if n_inv:
                    try:
                        loc = local_params(case, m, d)
                    except Exception:
                        loc = None
                    for x in d["xs"]:
                        try:
                            got = collect_sols(m["tree"], float(x), loc)
                        except Exception:
                            got = [float("nan")] * n_inv
                        drows.append(got)
                        try:
                            exact = spec_sols(m["tree"], float(x), loc)
                            for a, b in zip(got, exact):
                                e = abs(a - b) / max(abs(b), 1e-300) if math.isfinite(a) else float("inf")
                                worst = max(worst, e) if not math.isnan(worst) else worst
                        except Exception:
                            worst = float("nan")
                mrows.append(drows)
            rows.append(mrows)
        _FIT_SOLS[key] = (rows, worst)
    return _FIT_SOLS[key]


def local_targets(m, d):
    """what each model parameter of one data set is mapped to (a fit parameter's name, or a number)"""
    tr = dict((n, v) for n, v in d["trans"])
    return [tr.get(n, n) for n in obj_of(m["tree"]).parameter_names]


def fit_has_inv(case):
    return any(count_inv(m["tree"]) for m in case["models"])


def fit_inv_rel(case):
    """tolerance of a fit whose models contain numerical inversions: the analytic rule is evaluated at the F the
    inversion returned, whose error is outside the property (as for compositions); None = no inversion; inf = the
    error could not be measured / is too large to judge anything"""
    if not fit_has_inv(case):
        return None
    worst = fit_sols(case)[1]
    if not worst < 1.0e-2:
        return float("inf")
    return 1.0e-5 + 200.0 * worst


def assoc_tokens(d):
    items = sorted(d.items())
    return [str(len(items))] + [t for n, v in items for t in (n, fl(v))]


def ops(case):
    _quiet()
    k = case["op"]
    if k == "base":
        kind = MODEL_KIND.get(case["kind"], case["kind"])
        args = f"{kind} {fl(case['x'])} {fl_list(case['p'])}"
        return [f"c13.val {args}", f"c13.jac {args}", f"c13.der {args}"]
    if k == "cubic":
        return [f"c13.cubic {fl(case['a'])} {fl(case['b'])} {fl(case['c'])} {case['k']}"]
    if k == "tree":
        sols = sols_of(case)
        head = [fl(case["x"]), fl_list(sols)] + assoc_tokens(case["params"])
        tail = tokens(case["tree"])
        out = [" ".join(["c13.tree", w] + head + tail) for w in ("names", "jac")]
        if has_derivative(case["tree"]):
            out.append(" ".join(["c13.tree", "der"] + head + tail))
        out.append(" ".join(["c13.tree", "val"] + head + tail))  # LAST: the function M.der / M.jac differentiate (M.val)
        return out
    if k == "fit":
        toks = assoc_tokens(case["values"]) + [str(len(case["models"]))]
        sols = fit_sols(case)[0] if fit_has_inv(case) else None
        for mi_, m in enumerate(case["models"]):
            obj = obj_of(m["tree"])
            toks += tokens(m["tree"]) + [str(len(m["data"]))]
            names = list(obj.parameter_names)
            for di, d in enumerate(m["data"]):
                tr = dict(d["trans"])
                toks += [fl_list(d["xs"])]
                if sols is not None and count_inv(m["tree"]):
                    toks.append("S[" + ";".join(",".join(fl(v) for v in row) for row in sols[mi_][di]) + "]")
                toks += [str(len(names))]
                for n in names:
                    v = tr.get(n, n)
                    toks.append("s:" + v if isinstance(v, str) else "c:" + fl(v))
        return ["c13.fit both " + " ".join(toks), "c13.fit fixed " + " ".join(toks)]
    raise ValueError(k)


def count_inv(tree):
    if tree[0] == "base":
        return 0
    if tree[0] in ("efjc_f", "twlc_f"):
        return 1
    return (1 if tree[0] == "inv" else 0) + sum(count_inv(s) for s in tree[1:] if isinstance(s, list))


# ------------------------------------------------------------------ agreement model <-> implementation

MODEL_REL = 1.0e-9
CUBIC_REL = 2.0e-6  # Cardano chain rule: cancellation between cube roots amplifies the last-digit differences of
#                     np.abs(t)**(2/3) vs cbrt(|t|)^2 and libm variants; see TRUSTED


def close(a, b, rel, floor=0.0):
    if math.isnan(a) or math.isnan(b):
        return math.isnan(a) and math.isnan(b)
    if math.isinf(a) or math.isinf(b):
        return a == b
    return abs(a - b) <= rel * max(abs(a), abs(b), floor)


def close_out_of_domain(a, b, rel, floor=0.0):
    """comparison of one entry in the out-of-domain stream (non-finite / zero / negative abscissas and parameters, which
    the property does not quantify over).  Finite entries as `close`; a finite entry never matches a non-finite one; two
    infinities must have the same sign.  NaN is what IEEE arithmetic returns for an indeterminate form (inf/inf,
    inf - inf, 0 inf): whether an expression that is infinite there runs into one depends on how the algebraically same
    expression is associated — infinitely ill-conditioned, no digit of it is determined, the model executes ONE
    association — so a NaN on one side is matched by NaN or either infinity on the other."""
    if math.isnan(a) or math.isnan(b):
        return not (math.isfinite(a) or math.isfinite(b))
    return close(a, b, rel, floor)


def rows_close(a, b, p, rel, sens_rel=1.0e-9):
    """entry-wise comparison of two Jacobian rows; an entry whose relative sensitivity |p_i J_i| is negligible
    against the largest one of the row is compared on that scale (it is a sum of cancelling terms).  The scale of a
    parameter is max(|p_i|, 1e-2) in the numerator as in the denominator: an offset that is exactly 0 (round H) still
    moves the answer by |J_i| per unit, it does not drop out of the row's scale"""
    sens = max([max(abs(pi), 1e-2) * abs(v) for pi, v in zip(p, a) if math.isfinite(v) and math.isfinite(pi)] + [0.0])
    for u, v, pi in zip(a, b, p):
        floor = sens_rel * sens / max(abs(pi), 1e-2) / rel if math.isfinite(pi) else 0.0
        if not close(u, v, rel, floor):
            return False
    return True


def parse_floats(s):
    inner = s.strip()[1:-1]
    return [] if inner == "" else [dec(t) for t in inner.split(",")]


def parse_rows(s):
    inner = s.strip()[1:-1]
    if inner == "":
        return []
    return [[dec(t) for t in row.split(",")] if row else [] for row in inner.split(";")]


def agree(case, i, ia, ma):
    k = case["op"]
    try:
        if k == "base":
            rel = CUBIC_REL if case["kind"] in CUBIC else MODEL_REL
            if ia.endswith("Error") or ma.endswith("Error"):
                return ia == ma
            if case.get("stream") == "malformed":
                # out of the domain the outputs are rounding residue: same non-finite pattern, finite entries
                # on the scale of the largest one
                a = [dec(ia)] if i != 1 else parse_floats(ia)
                b = [dec(ma.split(" ")[-1])] if i != 1 else parse_floats(ma.split(" ", 1)[1])
                if ma.endswith("Error"):
                    return ia == ma
                if len(a) != len(b):
                    return False
                big = max([abs(v) for v in a + b if math.isfinite(v)] + [0.0])
                return all(close_out_of_domain(u, v, 1e-6, 1e-3 * big + 1e-6) for u, v in zip(a, b))
            head, body = ma.split(" ", 1)
            if ":" in head:  # cubic model: rounding of the coefficients is amplified by the cancellation inside det
                amp = dec(head.split(":")[1])
                rel = max(rel, 1.0e-12 * amp) if math.isfinite(amp) else 1.0
            if i == 0:
                return close(dec(ia), dec(body), rel)
            if i == 1:
                a, b = parse_floats(ia), parse_floats(body)
                return len(a) == len(b) and rows_close(a, b, case["p"], rel)
            return close(dec(ia), dec(body), rel)
        if k == "cubic":
            if ia.endswith("Error") or " " not in ma:
                return ia == ma
            head, body = ma.split(" ", 1)
            amp = dec(head.split(":")[1])
            rel = max(MODEL_REL, 1.0e-12 * amp) if math.isfinite(amp) else 1.0
            a, b = parse_floats(ia), parse_floats(body)[:4]
            return len(a) == 4 and all(close(u, v, rel, fl_) for u, v, fl_ in zip(a, b, cubic_floors(case, b[0], b[3])))
        if k == "tree":
            if i == 0:
                return ia.split(" | ")[0] == ma
            rel = CUBIC_REL if any(l[1] in CUBIC for l in leaves(case["tree"])) else MODEL_REL
            if count_inv(case["tree"]):
                rel = max(rel, 1.0e-7)
            if ia.endswith("Error") or ma.endswith("Error") or ma == "bad-op":
                return ia == ma
            if i == 1:
                a, b = parse_floats(ia), parse_floats(ma)
                pv = pvec(case, list(obj_of(case["tree"]).parameter_names))
                return len(a) == len(b) and rows_close(a, b, pv, rel)
            if i == (3 if has_derivative(case["tree"]) else 2):
                # value of the composition (M.val): the parts' values add up / are shifted; a sum of parts of opposite
                # sign is compared on the scale of the parts (the largest |leaf value| is not known here: use |x| + |value|)
                return close(dec(ia), dec(ma), rel, rel * abs(float(case["x"])))
            return close(dec(ia), dec(ma), rel)
        if k == "fit":
            if " | " not in ia or " | " not in ma:
                return ia == ma
            na, ja = ia.split(" | ")[:2]  # (the oracle's part of answer 1 — the public verify flag — follows)
            parts = ma.split(" | ")
            nb, jb = parts[0], parts[1]
            if na != nb:
                return False
            if ja.strip() == "?":
                return True  # the private observation point is not reachable under its name: nothing was observed
            if not na.strip():
                return ja.strip() == jb.strip()  # no named parameter: an empty Jacobian on both sides
            if i == 0 and len(parts) == 3 and parts[1] != parts[2]:
                # a data set maps two parameters to one global (F16): the model gives the code's buffered update and
                # the accumulating one; the implementation must be one of them (the oracle says which is right)
                return fit_rows_agree(case, 0, na, ja, parts[1]) or fit_rows_agree(case, 0, na, ja, parts[2])
            return fit_rows_agree(case, i, na, ja, jb)
    except Exception:
        return False
    return ia == ma


def fit_rows_agree(case, i, na, ja, jb):
    if True:
        if True:
            A, B = parse_rows(ja), parse_rows(jb)
            if len(A) != len(B):
                return False
            cub = any(l[1] in CUBIC for m in case["models"] for l in leaves(m["tree"]))
            rel = (CUBIC_REL if cub else MODEL_REL) if i == 0 else 1.0e-5
            inv_rel = fit_inv_rel(case)
            if inv_rel is not None:
                # i == 0: model and code apply the inversion rule to the same F (1e-7 as for compositions);
                # i == 1: the numerical derivative of the residual sees the true inverse, the rule the returned F
                rel = max(rel, 1.0e-7) if i == 0 else max(rel, inv_rel)
                if i == 1 and not math.isfinite(rel):
                    return True
            g = [float(case["values"][n]) for n in na.split(" ")]
            for ra, rb in zip(A, B):
                if len(ra) != len(rb):
                    return False
                if i == 1:
                    keep = [j for j, (u, v) in enumerate(zip(ra, rb)) if math.isfinite(u) and math.isfinite(v)]
                    sens = max([abs(g[j] * rb[j]) for j in range(len(rb)) if math.isfinite(rb[j])] + [0.0])
                    # through an inversion the differentiated residual contains the (smooth, parameter dependent)
                    # error of the returned F: entries are compared on the scale of the row's largest sensitivity
                    fl_ = 1.0 if inv_rel is not None else 1.0e-4
                    for j in keep:
                        if not close(ra[j], rb[j], rel, fl_ * sens / max(abs(g[j]), 1e-2)):
                            return False
                    continue
                if not rows_close(ra, rb, g, rel, 1.0e-9 if i == 0 else 1.0e-5):
                    return False
            return True


# ------------------------------------------------------------------ oracle


def clause_class(clause):
    return (clause or "").split(":")[0].split("[")[0]


def oracle(case, ia):
    """the clause violated by the implementation's answers, or None.  A case produced by `shrink` carries the class
    of its parent's clause (`_want_class`): a candidate that fails in a DIFFERENT way is not a smaller version of the
    same failure (and must not be allowed to drift into the input class of a known finding)."""
    clause = oracle_(case, ia)
    case["_class"] = clause_class(clause)
    if clause and case.get("_want_class") not in (None, case["_class"]):
        return None
    return clause


def oracle_(case, ia):
    _quiet()
    k = case["op"]
    try:
        if k == "base":
            if case.get("stream") == "malformed":
                return None
            tree = ["base", case["kind"], "m"]
            names = leaf_names(case["kind"], "m")
            pd = dict(zip(names, case["p"]))
            if ia[1].endswith("Error") or ia[2].endswith("Error"):
                return f"derivative-available: {ia[1][:40]} / {ia[2][:40]}"
            if in_band(case["kind"], float(case["x"]), case["p"]):
                case.setdefault("_skipped", []).append("regularised-band")
                return None
            amp = amplification(case["kind"], float(case["x"]), case["p"])
            if amp > 1.0e7:
                case.setdefault("_skipped", []).append("ill-conditioned-cubic")
                return None
            return oracle_tree(tree, float(case["x"]), pd, names, parse_floats(ia[1]), dec(ia[2]), case, rel=max(ORACLE_REL, 1.0e-12 * amp))
        if k == "tree":
            names = ia[0].split(" | ")[0].split(" ")
            if sorted(names) != sorted(case["params"].keys()):
                return f"parameter-names: implementation has {names}, the leaves have {sorted(case['params'])}"
            if ia[1].endswith("Error"):
                return f"jacobian-available: {ia[1]}"
            der = None
            if has_derivative(case["tree"]):
                if ia[2].endswith("Error"):
                    return f"derivative-available: {ia[2]}"
                der = dec(ia[2])
            rel = None
            if count_inv(case["tree"]):
                # the analytic rule is evaluated at the F the numerical inversion returned; its error is outside the
                # property: measure it against a bisection to machine precision and widen the tolerance accordingly
                got = parse_floats(ia[0].split(" | ")[1])
                exact = spec_sols(case["tree"], float(case["x"]), dict(case["params"]))
                if len(got) != len(exact):
                    return f"inversions: {len(got)} values for {len(exact)} inverse nodes"
                worst = max([abs(a - b) / max(abs(b), 1e-300) if math.isfinite(a) else float("inf") for a, b in zip(got, exact)] + [0.0])
                if not worst < 1.0e-2:
                    case.setdefault("_skipped", []).append("inversion-error>1e-2")
                    return None
                rel = 1.0e-5 + 200.0 * worst
                case["_inv_err"] = worst
            return oracle_tree(case["tree"], float(case["x"]), dict(case["params"]), names, parse_floats(ia[1]), der, case, rel=rel)
        if k == "cubic":
            return oracle_cubic(case, ia)
        if k == "fit":
            return oracle_fit(case, ia)
    except NoBracket:
        case.setdefault("_skipped", []).append("no-bracket")
        return None
    return None


def raw_band_amp(a, b, c):
    p_ = b - a * a / 3.0
    q_ = 2.0 * a**3 / 27.0 - a * b / 3.0 + c
    det = q_ * q_ / 4.0 + p_**3 / 27.0
    if det == 0 or not math.isfinite(det):
        return True, float("inf")
    amp = (q_ * q_ / 4.0 + abs(p_) ** 3 / 27.0) / abs(det)
    if det > 0:
        s_ = math.sqrt(det)
        t1, t2 = abs(s_ - 0.5 * q_), abs(-s_ - 0.5 * q_)
        band = min(t1 ** (2.0 / 3.0), t2 ** (2.0 / 3.0), s_) < 3.0e-5
        amp = max(amp, (abs(q_) * 0.5 + s_) / min(t1, t2) if min(t1, t2) > 0 else float("inf"))
        return band, amp
    if p_ >= 0:
        return True, float("inf")
    F = 3.0 * math.sqrt(3.0) * q_ / (2.0 * (-p_) ** 1.5)
    return abs(F) > 1.0 - 3.0e-7, amp


def cubic_floors(case, y, yc):
    """y = (cube roots) - a/3 is a sum of terms of size comp = max(|y|, |a|/3); dy/da = -y^2/P', dy/db = -y/P' are
    computed by the code as sums of terms of the sizes comp^2 |dy/dc|, comp |dy/dc|: entries far below that are
    cancellation residue and are compared on that scale"""
    comp = max(abs(y), abs(float(case["a"])) / 3.0)
    return [comp, comp * comp * abs(yc), comp * abs(yc), 0.0]


def oracle_cubic(case, ia):
    """the three root derivatives against the implicit-function values -y^2/P'(y), -y/P'(y), -1/P'(y) at the root the
    implementation returned (shares no formula with the Cardano / trigonometric chain rule)"""
    if ia[0].endswith("Error"):
        return f"cubic-available: {ia[0]}"
    a, b, c = float(case["a"]), float(case["b"]), float(case["c"])
    band, amp = raw_band_amp(a, b, c)
    if band or amp > 1.0e6:
        case.setdefault("_skipped", []).append("regularised-band" if band else "ill-conditioned-cubic")
        return None
    y, ya, yb, yc = parse_floats(ia[0])
    P = ((y + a) * y + b) * y + c
    dP = (3.0 * y + 2.0 * a) * y + b
    scale = abs(y**3) + abs(a * y * y) + abs(b * y) + abs(c)
    if not abs(P) <= 1.0e-9 * amp * scale:
        return f"cubic-root: P(y) = {P!r} at the returned y = {y!r} (terms of size {scale:.3g})"
    rel = max(1.0e-7, 1.0e-11 * amp)
    floors = cubic_floors(case, y, -1.0 / dP)
    for (name, got, want), fl_ in zip((("a", ya, -y * y / dP), ("b", yb, -y / dP), ("c", yc, -1.0 / dP)), floors[1:]):
        if not close(got, want, rel, fl_):
            return f"cubic-d{name}: d y / d {name} = {got!r}, implicit differentiation gives {want!r} (root {case['k']}, y = {y!r})"
    return None


def oracle_tree(tree, x, pd, names, jac, der, case, rel=None):
    skipped = case.setdefault("_skipped", [])
    y0 = spec_eval(tree, x, pd)
    if not math.isfinite(y0):
        skipped.append("value-not-finite")
        return None
    if len(jac) != len(names):
        return f"jacobian-shape: {len(jac)} rows for {len(names)} parameters"
    sens = max([abs(pd[n] * j) for n, j in zip(names, jac) if math.isfinite(j)] + [0.0])
    loose = count_inv(tree) > 0
    for n, an in zip(names, jac):
        def fn(t, n=n):
            q = dict(pd)
            q[n] = t
            return spec_eval(tree, x, q)

        num, err = richardson(fn, pd[n], step_for(pd[n], 1e-2))
        floor = max(1.0e-9 * abs(y0), 1.0e-3 * sens) / max(abs(pd[n]), 1e-2)
        v = judge(an, num, err, floor, loose, rel)
        if v == "skip":
            skipped.append("jac:" + n.split("/")[-1])
        elif v:
            return f"jacobian[{n}]: at x={x!r} {v}"
    if der is not None:
        num, err = richardson(lambda t: spec_eval(tree, t, pd), x, step_for(x, 1e-3))
        v = judge(der, num, err, 1.0e-9 * abs(y0) / max(abs(x), 1e-3), loose, rel)
        if v == "skip":
            skipped.append("der")
        elif v:
            return f"derivative: at x={x!r} {v}"
    return None


def dup_columns(case, names):
    """(row range, column) pairs that belong to a data set mapping two model parameters to one global name"""
    bad = set()
    row = 0
    # rows follow models -> conditions (first occurrence of the transformation) -> data sets -> points
    for m in case["models"]:
        obj = obj_of(m["tree"])
        pn = list(obj.parameter_names)
        keyed = []
        for d in m["data"]:
            tr = dict(d["trans"])
            vals = [tr.get(n, n) for n in pn]
            keyed.append(("|".join(str(v) for v in vals), d, vals))
        order = []
        for key, _, _ in keyed:
            if key not in order:
                order.append(key)
        for key in order:
            for k2, d, vals in keyed:
                if k2 != key:
                    continue
                strs = [v for v in vals if isinstance(v, str)]
                dups = {v for v in strs if strs.count(v) > 1}
                for r in range(row, row + len(d["xs"])):
                    for v in dups:
                        if v in names:
                            bad.add((r, names.index(v)))
                row += len(d["xs"])
    return bad


def fit_near_kink(case, rel=1.0e-3):
    """some data point of the fit is within `rel` of f == Fc of a twistable leaf at that data set's parameter values"""
    for m in case["models"]:
        for d in m["data"]:
            try:
                local = local_params(case, m, d)
            except Exception:
                return True
            if any(near_kink(m["tree"], x, local, rel) for x in d["xs"]):
                return True
    return False


def verify_clause(case, flag, alone):
    """the public twin of the fit tie.  `alone` = the private observation points are not reachable, so the harness's own
    numerical differentiation could not say where the residual is differentiable: samples on / next to the regime
    boundary of a twistable leaf are then left out (plain central differences straddle the kink)"""
    if flag != "0":
        return None
    if alone and fit_near_kink(case):
        case.setdefault("_skipped", []).append("fit-verify-near-kink")
        return None
    return (f"fit-verify-jacobian: the public Fit.verify_jacobian(dx={VERIFY_DX:g}, rtol={VERIFY_RTOL:g}, atol={VERIFY_ATOL:g} x largest "
            "ordinate) rejects the fit's analytic Jacobian against central differences of its residual vector")


def oracle_fit(case, ia):
    if " | " not in ia[0]:
        return f"fit-jacobian-available: {ia[0][:60]}"
    names = [n for n in ia[0].split(" | ")[0].split(" ") if n]
    if not names:
        return None  # every parameter pinned to a constant: the Jacobian has no column to judge
    flag = ia[1].split(" | V")[-1].strip() if " | V" in ia[1] else "?"
    skipped = case.setdefault("_skipped", [])
    vec = np.array([float(case["values"][n]) for n in names], dtype=float)
    body = ia[0].split(" | ")[1].strip()
    numj = None
    if body != "?":
        if fit_key(case) in _NUMJ:
            numj = _NUMJ.pop(fit_key(case))
        else:
            res_fn = priv(build_fit(case)[0], "_calculate_residual")
            if res_fn is not None:
                numj = numeric_fit_jacobian(res_fn, vec)
    if numj is None:
        # Fit._calculate_jacobian / Fit._calculate_residual are not reachable under these names: what is left of the
        # fit tie is its public twin
        skipped.append("fit-private-unreachable")
        return verify_clause(case, flag, alone=True)
    A = parse_rows(body)
    Jn, En = numj
    if len(A) != Jn.shape[0] or any(len(r) != Jn.shape[1] for r in A):
        return f"fit-jacobian-shape: {len(A)} rows, numerical {Jn.shape}"
    inv_rel = fit_inv_rel(case)
    if inv_rel is not None and not math.isfinite(inv_rel):
        skipped.append("inversion-error>1e-2")
        return None
    wrong = []
    abstained = 0
    for r in range(Jn.shape[0]):
        sens = max([abs(g * v) for g, v in zip(vec, A[r]) if math.isfinite(v)] + [0.0])
        for c in range(Jn.shape[1]):
            # (through an inversion the differentiated residual contains the smooth, parameter dependent error of the
            # returned F: the entries are then judged on the scale of the row's largest sensitivity)
            v = judge(A[r][c], float(Jn[r, c]), float(En[r, c]), (1e-3 if inv_rel is None else 1.0) * sens / max(abs(vec[c]), 1e-2) + 1e-300, rel=inv_rel)
            if v == "skip":
                skipped.append("fit-entry")
                abstained += 1
            elif v:
                wrong.append((r, c, v))
    if not wrong:
        # every entry agrees with the converged numerical derivative: the public check (far coarser) must accept too
        return verify_clause(case, flag, alone=False) if not abstained else None
    dups = dup_columns(case, names)
    cls = "fit-jacobian-dup" if all((r, c) in dups for r, c, _ in wrong) else "fit-jacobian"
    r, c, v = wrong[0]
    return f"{cls}: d residual[{r}] / d {names[c]}: {v}; {len(wrong)} entries differ from numerical differentiation of the residual vector"


# ------------------------------------------------------------------ bookkeeping


def nontrivial(case, ia):
    k = case["op"]
    if k == "base":
        return case.get("stream") != "malformed" and not ia[1].endswith("Error")
    if k == "tree":
        return case["tree"][0] != "base"
    if k == "cubic":
        return True
    if k == "fit":
        return sum(len(m["data"]) for m in case["models"]) > 1 or any(d["trans"] for m in case["models"] for d in m["data"])
    return False


def tags(case, r):
    t = {"op": case["op"]}
    if case["op"] == "fit":
        t["clause_class"] = clause_class(r.get("clause"))
    if case["op"] == "tree":
        t["clause_class"] = clause_class(r.get("clause"))
        t["inv_over_cubic_leaf"] = inv_over_cubic(case["tree"])
        t["error"] = r["impl"][1] if len(r.get("impl", [])) > 1 and r["impl"][1].endswith("Error") else None
    return t


def inv_over_cubic(tree):
    if tree[0] == "inv" and tree[1][0] == "base" and tree[1][1] in CUBIC:
        return True
    return any(inv_over_cubic(s) for s in tree[1:] if isinstance(s, list))


def shrink(case):
    for c in shrink_(case):
        c = {k: v for k, v in c.items() if k not in ("_class", "_skipped", "_inv_err")}
        c["_want_class"] = case.get("_want_class") or case.get("_class")
        yield c


def shrink_(case):
    k = case["op"]
    if k == "fit":
        ms = case["models"]
        if len(ms) > 1:
            for i in range(len(ms)):
                c = dict(case)
                c["models"] = ms[:i] + ms[i + 1 :]
                yield c
        for i, m in enumerate(ms):
            if len(m["data"]) > 1:
                for j in range(len(m["data"])):
                    c = dict(case)
                    c["models"] = [dict(mm) for mm in ms]
                    c["models"][i]["data"] = m["data"][:j] + m["data"][j + 1 :]
                    yield c
            for j, d in enumerate(m["data"]):
                if len(d["xs"]) > 1:
                    c = dict(case)
                    c["models"] = [dict(mm) for mm in ms]
                    c["models"][i]["data"] = list(m["data"])
                    c["models"][i]["data"][j] = dict(d, xs=d["xs"][:1], ys=d["ys"][:1])
                    yield c
                for t in range(len(d["trans"])):
                    c = dict(case)
                    c["models"] = [dict(mm) for mm in ms]
                    c["models"][i]["data"] = list(m["data"])
                    c["models"][i]["data"][j] = dict(d, trans=d["trans"][:t] + d["trans"][t + 1 :])
                    yield c
    if k in ("tree", "base"):
        # a failure that does not need the object's past is reported without it
        if case.get("before"):
            yield {kk: v for kk, v in case.items() if kk != "before"}
            if len(case["before"]) > 1:
                for i in range(len(case["before"])):
                    yield dict(case, before=case["before"][:i] + case["before"][i + 1 :])
        if case.get("also"):
            yield {kk: v for kk, v in case.items() if kk not in ("also", "pos")}
    if k == "fit" and case.get("pre"):
        yield {kk: v for kk, v in case.items() if kk != "pre"}
    if k == "tree":
        t = case["tree"]
        for s in t[1:]:
            if isinstance(s, list) and indep_of(s) == indep_of(t):
                names = set()
                try:
                    names = set(obj_of(s).parameter_names)
                except Exception:
                    continue
                c = dict(case)
                c["tree"] = s
                c["params"] = {n: v for n, v in case["params"].items() if n in names}
                if len(c["params"]) == len(names):
                    yield c


# ------------------------------------------------------------------ generators


ZERO_SHARE = 0.25  # share of the offset parameters (the only parameters whose legitimate range contains 0) that are exactly 0


def snap0(v, half_width, share=ZERO_SHARE):
    """an offset drawn uniformly from +-half_width, the innermost `share` of the interval replaced by EXACTLY 0.0: 'no
    offset' is the natural value of an offset (the start of a fit, a calibrated data set) and the one value at which
    `if offset:` / `offset or default` / `not value` style code takes another path.  No extra random draw (the rest of
    the stream is unchanged)."""
    return 0.0 if abs(v) < share * half_width else v


def is_offset(name):
    return str(name).endswith("_offset")


def gen_params(rng, kind, name, efjc="mix", zero=None):
    """a parameter dictionary in the property's box: +-50 % around the defaults, twist parameters +-10 %,
    L_c 0.3-30 um, offsets within +-0.05 — a quarter of them exactly 0 (`zero` = True: every offset exactly 0, False: none).
    The eFJC is used in both of the box's regimes (`efjc` = "ss", "stiff" or
    "mix" = either with equal chance): an ssDNA-like Kuhn length scale (0.5-2 nm) and the library's own default
    L_p = 40 nm +-50 % (a stiff chain); only with the latter does 2 f L_p / kT reach the overflow guards of the code
    (1/sinh^2 dropped from 300, coth = 1 from 500) inside the force range, i.e. only there are those branches run"""
    pd = {}
    for a, n in zip(KINDS[kind][2], leaf_names(kind, name)):
        if a == "Lc":
            v = rng.loguniform(0.3, 30.0)
        elif a in ("C", "g0", "g1", "Fc"):
            v = DEFAULTS[a] * rng.uniform(0.9, 1.1)
        elif a in ("f_offset", "d_offset"):
            v = snap0(rng.uniform(-0.05, 0.05), 0.05)
            if zero is not None:
                v = 0.0 if zero else (v or 0.01)
        elif a == "Lp" and kind == "efjc_d":
            stiff = rng.chance(0.5) if efjc == "mix" else efjc == "stiff"
            v = DEFAULTS[a] * rng.uniform(0.5, 1.5) if stiff else rng.uniform(0.5, 2.0)
        else:
            v = DEFAULTS[a] * rng.uniform(0.5, 1.5)
        pd[n] = float(v)
    return pd


def gen_x(rng, kind, pd, name):
    """an abscissa inside the validity range of the model (forces 0.05 pN .. 80 % of the validity limit;
    distances that correspond to such forces)"""
    g = lambda a: pd[a if a == "kT" else f"{name}/{a}"]
    if KINDS[kind][1] == "f":
        hi = 60.0
        if kind == "twlc_d":
            hi = 0.8 * (-g("g0") + math.sqrt(g("St") * g("C"))) / g("g1")
        if kind == "ms_d":
            hi = 30.0
        style = rng.randint(0, 4)
        if style == 0:
            return float(rng.loguniform(0.05, hi))
        if style == 1 and kind == "twlc_d":
            return float(g("Fc") * (1 + rng.choice([-1, 1]) * rng.loguniform(0.01, 0.3)))
        if style in (1, 4) and kind == "efjc_d":
            # on / one ulp beside / near the force at which 2 f Lp / kT crosses an overflow guard of the code
            f0 = efjc_guard_force(rng.choice(EFJC_GUARDS), g("Lp"), g("kT"))
            if 0.05 <= f0 <= hi:
                c = rng.randint(0, 3)
                if c == 0:
                    return float(f0)
                if c == 1:
                    return float(math.nextafter(f0, rng.choice([-math.inf, math.inf])))
                return float(min(max(f0 * (1 + rng.choice([-1, 1]) * rng.loguniform(1e-12, 0.3)), 0.05), hi))
        if style == 4 and kind == "twlc_d":
            # ON the boundary between the two coupling regimes (f == Fc bit for bit: both comparisons of the code
            # see equality), one ulp beside it, or very close to it
            c = rng.randint(0, 3)
            if c <= 1:
                return float(g("Fc"))
            if c == 2:
                return float(math.nextafter(g("Fc"), rng.choice([-math.inf, math.inf])))
            return float(g("Fc") * (1 + rng.choice([-1, 1]) * rng.loguniform(1e-12, 1e-2)))
        return float(rng.uniform(0.05, hi))
    if kind in ("offset_f",):
        return float(rng.uniform(0.1, 10.0))
    # distance-driven models: pick a force, convert with the closed-form forward relation of that family
    F = float(rng.loguniform(0.05, 50.0 if kind != "ms_f" else 20.0))
    Lp, Lc, kT = g("Lp"), g("Lc"), g("kT")
    if kind == "odijk_f":
        return Lc * (1.0 - 0.5 * math.sqrt(kT / (F * Lp)) + F / g("St"))
    # Marko-Siggia: relative extension from the interpolation formula by bisection
    St = g("St") if kind == "ems_f" else float("inf")
    target = F * Lp / kT

    def eq(z):  # z = d/Lc - F/St in (0, 1)
        return 0.25 / (1 - z) ** 2 - 0.25 + z - target

    z = bisect(eq, 0.0, 1.0 - 1e-12)
    return Lc * (z + (F / St if math.isfinite(St) else 0.0))


EFJC_GUARDS = [300.0, 500.0]  # 2 f Lp / kT: 1/sinh^2 is dropped from 300 on, coth is set to 1 from 500 on


def efjc_guard_force(thr, Lp, kT):
    """the force at which the argument 2 f Lp / kT of the eFJC's hyperbolic functions reaches `thr` — as the derivative
    code rounds it (f * (2 Lp / kT)) where a double does that exactly, else the nearest one"""
    x1 = 2.0 * Lp / kT
    f0 = thr / x1
    for cand in (f0, math.nextafter(f0, math.inf), math.nextafter(f0, -math.inf)):
        if cand * x1 == thr:
            return cand
    return f0


FORCE_KINDS = ["odijk_f", "ms_f", "ems_f", "offset_f"]  # independent variable d
DIST_KINDS = ["odijk_d", "ms_d", "ems_d", "efjc_d", "twlc_d", "offset_d"]  # independent variable f


def gen_tree(rng, indep, depth, counter, allow_inv=True):
    """random composition with the given independent variable"""
    def fresh():
        counter[0] += 1
        return ["DNA", "prot", "m3", "m4", "m5", "m6"][counter[0] - 1] if counter[0] <= 6 else f"m{counter[0]}"

    c = rng.randint(0, 9)
    if depth <= 0 or c <= 2:
        kinds = DIST_KINDS if indep == "f" else FORCE_KINDS
        kinds = [k for k in kinds if not k.startswith("offset")] if depth == case_depth_top(depth, counter) else kinds
        return ["base", rng.choice(kinds), fresh()]
    if c <= 6:
        l = gen_tree(rng, indep, depth - 1, counter, allow_inv)
        r = gen_tree(rng, indep, depth - 1, counter, allow_inv)
        return ["add", l, r]
    if c <= 8:
        return ["off", gen_tree(rng, indep, depth - 1, counter, allow_inv)]
    if allow_inv and indep == "d":
        # inverse of a distance model (monotone in the force): a force model
        k = rng.randint(0, 3)
        if k == 0:
            return ["efjc_f", fresh()]
        if k == 1:
            return ["twlc_f", fresh()]
        return ["inv", ["base", rng.choice(["odijk_d", "ems_d", "efjc_d", "twlc_d", "ms_d"]), fresh()]]
    return ["base", rng.choice(DIST_KINDS[:5] if indep == "f" else FORCE_KINDS[:3]), fresh()]


def case_depth_top(depth, counter):
    return -1  # offsets are allowed everywhere (an offset alone is a legal model)


def gen_tree_case(rng, depth=2, allow_inv=True, tree=None, kink=False, kT=None, efjc="mix", zero=None):
    indep = rng.choice(["f", "d"])
    for _ in range(20):
        t = tree or gen_tree(rng, indep, depth, [0], allow_inv)
        if not has_jacobian(t):
            if tree is not None:
                return None
            continue
        if tree is not None:
            indep = indep_of(t)
        ls = leaves(t)
        pd = {}
        for l in ls:
            for n, v in gen_params(rng, l[1], l[2], efjc, zero).items():
                pd.setdefault(n, v)
        # offset parameters of off nodes
        def add_off(tr):
            if tr[0] == "off":
                v = snap0(float(rng.uniform(-0.05, 0.05)), 0.05) * (1.0 if indep_of(tr[1]) == "d" else 10.0)
                if zero is not None:
                    v = 0.0 if zero else (v or 0.01)
                pd[f"{tree_name(tr[1])}/{indep_of(tr[1])}_offset"] = v
            for s in tr[1:]:
                if isinstance(s, list):
                    add_off(s)

        add_off(t)
        if kT is not None and "kT" in pd:
            pd["kT"] = float(kT)
        # abscissa: from the first non-offset leaf of the outermost level that shares the independent variable
        x = pick_x(rng, t, pd)
        if kink:
            x = kink_abscissa(rng, t, pd)
        if x is None or not math.isfinite(x):
            continue
        return {"op": "tree", "tree": t, "x": float(x), "params": pd}
    return None


def unshift(x, off):
    """y with y - off == x in floating point where such a y exists (so that an abscissa chosen ON a regime boundary of
    the wrapped model is still on it after the offset model has subtracted its offset), else the nearest one"""
    y = x + off
    for cand in (y, math.nextafter(y, math.inf), math.nextafter(y, -math.inf)):
        if cand - off == x:
            return cand
    return y


def twlc_paths(tree, offs=()):
    """(leaf name, names of the offsets subtracted from the abscissa on the way down) of the twistable-WLC leaves that
    are evaluated at the composition's own abscissa (not under an inversion)"""
    t = tree[0]
    if t == "base":
        return [(tree[2], offs)] if tree[1] == "twlc_d" else []
    if t == "add":
        return twlc_paths(tree[1], offs) + twlc_paths(tree[2], offs)
    if t == "off":
        return twlc_paths(tree[1], offs + (f"{tree_name(tree[1])}/{indep_of(tree[1])}_offset",))
    return []


def on_kink(tree, x, pd):
    """some twistable-WLC leaf of the composition is evaluated exactly at its critical force"""
    for name, offs in twlc_paths(tree):
        v = x
        for o in offs:
            v = v - pd[o]
        if v == pd[f"{name}/Fc"]:
            return True
    return False


def near_kink(tree, x, pd, rel):
    for name, offs in twlc_paths(tree):
        v = x
        for o in offs:
            v = v - pd[o]
        if abs(v - pd[f"{name}/Fc"]) <= rel * abs(pd[f"{name}/Fc"]):
            return True
    return False


def kink_abscissa(rng, tree, pd):
    """an abscissa at which one twistable-WLC leaf of the composition is evaluated EXACTLY at its critical force (None
    if the tree has no such leaf / no float does it)"""
    paths = twlc_paths(tree)
    if not paths:
        return None
    name, offs = rng.choice(paths)
    x = pd[f"{name}/Fc"]
    for o in reversed(offs):
        x = unshift(x, pd[o])
    return float(x) if on_kink(tree, x, pd) else None


def pick_x(rng, t, pd):
    """an abscissa that is inside the validity range of every part of the composition"""
    kind = t[0]
    if kind == "base":
        return gen_x(rng, t[1], pd, t[2])
    if kind in ("efjc_f", "twlc_f", "inv"):
        sub = t[1] if kind == "inv" else ["base", "efjc_d" if kind == "efjc_f" else "twlc_d", t[1]]
        for _ in range(8):
            # under an inversion a force (almost) on the regime boundary of a twistable leaf makes EVERY derivative
            # of the inverse one-sided (each parameter moves the solved force across it): nothing to judge there
            F = pick_x(rng, sub, pd)
            if F is None or not near_kink(sub, F, pd, 1.0e-4):
                break
        if F is None:
            return None
        try:
            return spec_eval(sub, F, pd)
        except Exception:
            return None
    if kind == "off":
        x = pick_x(rng, t[1], pd)
        return None if x is None else unshift(x, pd[f"{tree_name(t[1])}/{indep_of(t[1])}_offset"])
    if kind == "add":
        # both parts must be valid at the same abscissa: use a force/distance valid for the more restrictive part
        xs = [pick_x(rng, s, pd) for s in t[1:]]
        if any(v is None for v in xs):
            return None
        if indep_of(t) == "f":
            return min(xs)
        # distances: every inextensible part needs d < its L_c; take the smallest candidate
        return min(xs)
    return None


def valid_everywhere(t, x, pd, base_ok=False):
    """conservative validity test of an abscissa for every leaf (used after pick_x for sums)"""
    try:
        if t[0] == "base":
            k, n = t[1], t[2]
            g = lambda a: pd[a if a == "kT" else f"{n}/{a}"]
            if k.startswith("offset"):
                return True
            if k in CUBIC and not base_ok:
                if in_band(k, x, [g(a) for a in KINDS[k][2]], margin=10.0) or amplification(k, x, [g(a) for a in KINDS[k][2]]) > 1.0e4:
                    return False
            if KINDS[k][1] == "f":
                if x < 0.04:
                    return False
                if k == "twlc_d":
                    return x < 0.85 * (-g("g0") + math.sqrt(g("St") * g("C"))) / g("g1")
                return x < 80.0
            if k == "ms_f":
                return 0.02 * g("Lc") < x < 0.97 * g("Lc")
            if k == "ems_f":
                return 0.02 * g("Lc") < x < 1.03 * g("Lc")
            if k == "odijk_f":
                return 0.3 * g("Lc") < x < 1.04 * g("Lc")
            return True
        if t[0] == "add":
            return all(valid_everywhere(s, x, pd, base_ok) for s in t[1:])
        if t[0] == "off":
            return valid_everywhere(t[1], x - pd[f"{tree_name(t[1])}/{indep_of(t[1])}_offset"], pd, base_ok)
        sub = t[1] if t[0] == "inv" else ["base", "efjc_d" if t[0] == "efjc_f" else "twlc_d", t[1]]
        F = bisect(lambda F_: spec_eval(sub, F_, pd) - x, *bracket(sub, pd))
        return valid_everywhere(sub, F, pd, base_ok)
    except Exception:
        return False


def other_abscissa(rng, t, pd):
    """another abscissa inside the validity range of the composition at the same parameters"""
    for _ in range(6):
        try:
            x = pick_x(rng, t, pd)
        except Exception:
            x = None
        if x is not None and math.isfinite(x) and valid_everywhere(t, x, pd, base_ok=True):
            return float(x)
    return None


HISTORY_STYLES = ["call-same-length", "jac-same-length", "der-same-length", "call-other-parameters-same-abscissa",
                  "vector-call-same-length", "call-other-length"]


def add_history(rng, c, t, pd, names=None, style=None):
    """make the case a call on a model object WITH A PAST: other abscissas in the same vectorised call (`also`/`pos`)
    and / or earlier calls of the model function, the Jacobian or the derivative on the same object (`before`) — on
    other abscissas (same number of points as the observed call, or another number) with the same parameter values,
    or with other parameter values (then on the same or on other abscissas).  `style` = one fixed past of
    HISTORY_STYLES (small scope), None = random.  `names` = order of the parameter list of a base case (its steps carry
    lists, those of a composition dictionaries).  Returns False if no valid other abscissa was found."""
    def others(n):
        xs = [other_abscissa(rng, t, pd) for _ in range(n)]
        return None if any(v is None for v in xs) else xs

    def params(same):
        if same:
            return None
        q = {k: float(v * rng.uniform(0.97, 1.03)) for k, v in pd.items()}
        return q if names is None else [q[n] for n in names]

    def observed():
        also = c.get("also", [])
        pos = c.get("pos", 0)
        return also[:pos] + [c["x"]] + also[pos:]

    if style is not None:
        if style == "vector-call-same-length":
            also = others(2)
            if also is None:
                return False
            c["also"], c["pos"] = also, 1
        n = len(observed())
        if style == "call-other-parameters-same-abscissa":
            c["before"] = [["call", observed(), params(False)]]
            return True
        xs = others(n + 1 if style == "call-other-length" else n)
        if xs is None:
            return False
        c["before"] = [[style.split("-")[0], xs, None]]
        return True
    if rng.chance(0.5):
        also = others(rng.randint(1, 3))
        if also is not None:
            c["also"], c["pos"] = also, rng.randint(0, len(also))
    n = len(observed())
    steps = []
    for _ in range(rng.randint(1, 3)):
        meth = rng.choice(["call", "call", "jac", "der"])
        same_p = rng.chance(0.7)
        if not same_p and rng.chance(0.5):
            xs = observed()
        else:
            xs = others(n if rng.chance(0.7) else rng.choice([k for k in (1, 2, 3, 4) if k != n]))
        if xs is None:
            continue
        steps.append([meth, xs, params(same_p)])
    if steps:
        c["before"] = steps
    return bool(steps) or "also" in c


def gen_fit_pre(rng):
    """what the same fit was asked before the observed Jacobian: the residual at the same parameter vector (what an
    optimiser does), or a short random sequence of residual / Jacobian evaluations at the same / a nearby vector"""
    if rng.chance(0.5):
        return [["res", 1.0]]
    return [[rng.choice(["res", "jac"]), 1.0 if rng.chance(0.6) else float(rng.uniform(0.98, 1.02))] for _ in range(rng.randint(1, 3))]


def gen_inv_tree(rng, counter):
    """a force model that contains a numerical inversion: efjc_force / twlc_force / invert() of a distance model or of a
    sum of two, alone, plus a force offset or another force model, or behind an independent offset"""
    def fresh():
        counter[0] += 1
        return ["DNA", "prot", "m3", "m4", "m5", "m6"][counter[0] - 1] if counter[0] <= 6 else f"m{counter[0]}"

    k = rng.randint(0, 11)  # (twlc_force is rare: it has no derivative, its inversions are by far the slowest)
    if k == 0:
        core = ["twlc_f", fresh()]
    elif k <= 2:
        core = ["efjc_f", fresh()]
    elif k <= 4:
        core = ["inv", ["add", ["base", rng.choice(["odijk_d", "ems_d"]), fresh()], ["base", rng.choice(["efjc_d", "odijk_d"]), fresh()]]]
    else:
        core = ["inv", ["base", rng.choice(["odijk_d", "ems_d", "efjc_d", "twlc_d", "ms_d"]), fresh()]]
    w = rng.randint(0, 5)
    if w == 0:
        return ["add", core, ["base", "offset_f", fresh()]]
    if w == 1:
        return ["add", core, ["base", rng.choice(FORCE_KINDS[:3]), fresh()]]
    if w == 2 and has_derivative(core):
        return ["off", core]
    return core


def has_offset_param(tree):
    """the composition has a parameter that is an offset (an offset leaf, or an independent-variable offset node)"""
    return tree[0] == "off" or (tree[0] == "base" and tree[1].startswith("offset")) or any(
        has_offset_param(s_) for s_ in tree[1:] if isinstance(s_, list))


def condition_patterns(n):
    """every way n data sets of one model can share simulation conditions, as restricted-growth strings (the condition
    label of each data set, labels numbered by first occurrence): n = 3 -> 000 001 010 011 012.  The code groups data
    sets by condition, so the patterns in which a label comes back after another one (010) are the layouts where the
    order the data sets were added in differs from the order they are simulated in."""
    out = [[0]]
    for _ in range(n - 1):
        out = [q + [k] for q in out for k in range(max(q) + 2)]
    return out


def cond_key(pn, trans):
    tr = dict((n, v) for n, v in trans)
    return "|".join(str(tr.get(n, n)) for n in pn)


def same_kind_groups(pn):
    """the model parameters that denote the same physical quantity of different parts of a composition (DNA/Lp,
    prot/Lp ...): the groups with at least two members, in order of first appearance"""
    by_kind = {}
    for n in pn:
        if n != "kT":
            by_kind.setdefault(n.split("/")[-1], []).append(n)
    return [(k, g) for k, g in by_kind.items() if len(g) > 1]


def gen_trans(rng, pn, params, values, tag, allow_dups=True):
    """a random parameter transformation (of one data set, or of one condition shared by several): each model
    parameter is kept, renamed to a fresh name, renamed to a name shared with others, pinned to a number (offsets often
    to exactly 0), merged
    with another parameter of the same physical kind (renamed ONTO that parameter's name), or — a quarter of the
    transformations of a composition — two or more parameters of the same physical kind are renamed to one common NEW
    name (of this data set / condition only, or the same name in every data set and model of the fit)"""
    common = {}
    groups = same_kind_groups(pn)
    if allow_dups and groups and rng.chance(0.25):
        picked = rng.sample(groups, rng.randint(1, len(groups)))
        for kind, g in picked:
            new = f"common/{kind}" if rng.chance(0.5) else f"common_{tag}/{kind}"
            for n in rng.sample(g, rng.randint(2, len(g))):
                common[n] = new
    trans = []
    for n in pn:
        if n in common:
            trans.append([n, common[n]])
            values.setdefault(common[n], float(params[n] * rng.uniform(0.95, 1.05)))
            continue
        c = rng.randint(0, 11)
        if n == "kT" and c < 9:
            continue
        if c <= 5:
            continue
        if c == 6:  # fresh name for this data set / condition
            new = f"{n}_{tag}"
        elif c == 7:  # a name shared with other data sets
            new = f"{n}_s"
        elif c == 8:  # pinned to a number; an offset in 40 % of the cases to exactly 0 ("this data set has no offset")
            u = rng.uniform(0.9, 1.1)
            if is_offset(n) and u < 0.98:
                trans.append([n, 0.0])
            else:
                trans.append([n, float(params[n] * u) if params[n] != 0 else 0.01])
            continue
        elif c == 9 and allow_dups:  # merged with another parameter of the same model of the same physical kind
            same = [o for o in pn if o != n and o.split("/")[-1] == n.split("/")[-1]]
            if not same:
                continue
            new = rng.choice(same)
        else:
            continue
        trans.append([n, new])
        values.setdefault(new, float(params[n] * rng.uniform(0.95, 1.05)))
    return trans


def gen_fit_data(rng, t, pn, params, values, trans, npts, kink=False):
    """one data set: abscissas valid for the tree at the (local) parameter values of this data set, ordinates near
    the model value"""
    local = dict(params)
    for n, v in trans:
        local[n] = values[v] if isinstance(v, str) else v
    tr = dict((n, v) for n, v in trans)
    for n in pn:
        if n not in tr:
            local[n] = values[n]
    xs = []
    for _ in range(npts):
        for _ in range(10):
            x = pick_x(rng, t, local)
            if x is not None and math.isfinite(x) and valid_everywhere(t, x, local):
                xs.append(float(x))
                break
    if not xs:
        return None
    if kink:  # one sample exactly on the regime boundary of a twistable-WLC leaf (at this data set's parameters)
        xk = kink_abscissa(rng, t, local)
        if xk is not None and valid_everywhere(t, xk, local):
            xs[rng.randint(0, len(xs) - 1)] = xk
    ys = []
    for x in xs:
        try:
            y = spec_eval(t, x, local)
        except Exception:
            y = 1.0
        ys.append(float(y * rng.uniform(0.9, 1.1)) if math.isfinite(y) else 1.0)
    return {"xs": xs, "ys": ys, "trans": [list(e) for e in trans]}


def gen_fit_tree(rng, mi_, tree=None, inv=False, zero=None):
    """(tree, a parameter point of it) of the mi_-th model of a fit; `inv`: a model that contains an inversion"""
    indep = rng.choice(["f", "d"])
    for _ in range(30):
        cnt = [2 * mi_] if mi_ else [0]
        t = tree or (gen_inv_tree(rng, cnt) if inv else gen_tree(rng, indep, rng.choice([0, 1, 1, 2]), cnt, allow_inv=False))
        if t[0] == "base" and t[1].startswith("offset"):
            continue
        tc = gen_tree_case(rng, tree=t, zero=zero)
        if tc is None:
            continue
        if not valid_everywhere(t, tc["x"], tc["params"]):
            continue
        return t, tc
    return None, None


def gen_fit_case(rng, allow_dups=True, by_pattern=None, inv=False):
    """a random fit layout.  Half of the cases draw one transformation per DATA SET independently (data sets then
    almost never share a condition unless both are untransformed); the other half first draw how the data sets share
    conditions (a pattern of `condition_patterns`, all equally likely) and then one transformation per CONDITION, so
    that shared conditions in every order of appearance (AAB, ABA, ABB ...) are produced on purpose.  `inv`: the first
    model contains a numerical inversion (data sets of a model that share a condition are then evaluated one after the
    other on the same inverted model with the same parameter values; half of those layouts give all data sets of the
    model the same number of points)"""
    nm = rng.choice([1, 1, 1, 2])
    models = []
    values = {}
    for mi_ in range(nm):
        t, tc = gen_fit_tree(rng, mi_, inv=inv and mi_ == 0)
        if t is None:
            return None
        pn = list(obj_of(t).parameter_names)
        for n, v in tc["params"].items():
            values.setdefault(n, v)
        nd = rng.choice([1, 2, 2, 3])
        if rng.chance(0.5) if by_pattern is None else by_pattern:
            pattern = rng.choice(condition_patterns(nd))
            per_label, keys = [], set()
            for lab in range(max(pattern) + 1):
                for attempt in range(30):
                    tr = gen_trans(rng, pn, tc["params"], values, f"{mi_}c{lab}", allow_dups)
                    if attempt == 29:  # make it differ from every other condition by a fresh name
                        free = [n for n in pn if n not in dict((a, b) for a, b in tr)] or pn[:1]
                        n = rng.choice(free)
                        tr = [e for e in tr if e[0] != n] + [[n, f"{n}_{mi_}c{lab}"]]
                        values.setdefault(f"{n}_{mi_}c{lab}", float(tc["params"][n] * rng.uniform(0.95, 1.05)))
                    if cond_key(pn, tr) not in keys:
                        break
                keys.add(cond_key(pn, tr))
                per_label.append(tr)
            all_trans = [per_label[lab] for lab in pattern]
        else:
            all_trans = [gen_trans(rng, pn, tc["params"], values, f"{mi_}{di}", allow_dups) for di in range(nd)]
        data = []
        most = 2 if inv else 3  # (every residual evaluation of an inverted model solves an inversion per point)
        equal_len = rng.randint(1, most) if rng.chance(0.5) else None
        for trans in all_trans:
            d = gen_fit_data(rng, t, pn, tc["params"], values, trans, equal_len or rng.randint(1, most), kink=rng.chance(0.3))
            if d is None:
                return None
            data.append(d)
        models.append({"tree": t, "data": data})
    case = {"op": "fit", "models": models, "values": values}
    if rng.chance(0.6):
        case["pre"] = gen_fit_pre(rng)
    if rng.chance(0.5) and has_integral_pin(case):
        case["int_pins"] = True
    return case


def has_integral_pin(case):
    return any(not isinstance(v, str) and float(v).is_integer() for m in case["models"] for d in m["data"] for _, v in d["trans"])


def pin_value(case, v):
    """a pinned value as it is handed to `add_data(params={name: value})`: a float, or — case key "int_pins" — a Python
    int where the value is integral (`params={"DNA/d_offset": 0}`; the documented type of a constant is int)"""
    if isinstance(v, str):
        return v
    return int(v) if case.get("int_pins") and float(v).is_integer() else float(v)


# small scope of fit layouts: how the conditions of a pattern differ from each other
#   (style of label 0, style of the labels >= 1): "id" = untransformed, "rename" = one parameter gets a name of its
#   own, "pin" = one parameter is fixed to a number
SCOPE_STYLES = [("id", "rename"), ("id", "pin"), ("rename", "rename")]
#   compositions with several parameters of the same physical kind (DNA/Lp, prot/Lp ...) additionally: "mergeOld" = the
#   others of one kind are renamed ONTO the first one's name, "mergeNew" = all of one kind are renamed to one common NEW
#   name, "mergeTwo" = two kinds are each renamed to a common new name; the kind rotates with the condition label
MERGE_STYLES = [("mergeNew", "id"), ("mergeOld", "id"), ("id", "mergeNew"), ("mergeNew", "mergeNew"), ("mergeOld", "mergeNew"),
                ("mergeTwo", "rename"), ("mergeNew", "pin")]


def scope_trans(pn, params, values, lab, styles, tag):
    style = styles[0] if lab == 0 else styles[1]
    own = [n for n in pn if n != "kT"]
    if style == "id":
        return []
    if style.startswith("merge"):
        groups = same_kind_groups(pn)
        if not groups:
            return []
        trans = []
        for j in range(2 if style == "mergeTwo" else 1):
            kind, g = groups[(lab + j) % len(groups)]
            if style == "mergeOld":
                trans += [[o, g[0]] for o in g[1:]]
                continue
            new = f"common_{tag}c{lab}/{kind}"
            values.setdefault(new, float(params[g[0]] * (1.0 - 0.02 * (lab + 1))))
            trans += [[o, new] for o in g if o not in dict((a, b) for a, b in trans)]
        order = {n: i for i, n in enumerate(pn)}
        return sorted(trans, key=lambda e: order[e[0]])
    n = own[-1] if lab == 0 else own[(lab - 1) % max(len(own) - 1, 1)]
    if style == "pin0":  # an offset of the model (the lab-th one, cyclically) is fixed to exactly 0 in this condition
        offs = [o for o in own if is_offset(o)]
        if offs:
            return [[offs[lab % len(offs)], 0.0]]
        style = "pin"
    if style.endswith("Fc"):  # the critical force of the (first) twistable leaf itself is renamed / pinned
        n = [o for o in own if o.endswith("/Fc")][0]
        style = style[:-2]
    if style == "pin":
        return [[n, float(params[n] * (1.0 + 0.03 * lab))]]
    new = f"{n}_{tag}c{lab}"
    values.setdefault(new, float(params[n] * (1.0 - 0.02 * (lab + 1))))
    return [[n, new]]


def scope_fit_case(rng, trees, patterns, styles, lengths, kink=False, zero=None):
    """the fit whose i-th model is trees[i] with data sets sharing conditions as patterns[i] says; the data set added
    j-th has lengths[j] points (counted over the whole fit, so that blocks of different sizes meet); `zero` = True: the
    fit is evaluated where every offset parameter of the models is exactly 0 (the start of a fit 'from no offset')"""
    models, values = [], {}
    j = 0
    for mi_, (tree, pattern) in enumerate(zip(trees, patterns)):
        t, tc = gen_fit_tree(rng, mi_, tree=tree, zero=zero)
        if t is None:
            return None
        pn = list(obj_of(t).parameter_names)
        for n, v in tc["params"].items():
            values.setdefault(n, v)
        data = []
        for lab in pattern:
            trans = scope_trans(pn, tc["params"], values, lab, styles, f"m{mi_}")
            d = gen_fit_data(rng, t, pn, tc["params"], values, trans, lengths[j % len(lengths)], kink=kink)
            j += 1
            if d is None or len(d["xs"]) != lengths[(j - 1) % len(lengths)]:
                return None
            data.append(d)
        models.append({"tree": t, "data": data})
    return {"op": "fit", "models": models, "values": values}


def pattern_of(m):
    """the condition pattern of one model of a fit case, e.g. '010'"""
    pn = list(obj_of(m["tree"]).parameter_names)
    keys = [cond_key(pn, d["trans"]) for d in m["data"]]
    order = []
    for k in keys:
        if k not in order:
            order.append(k)
    return "".join(str(order.index(k)) for k in keys)


def noncontiguous(pat):
    """a condition comes back after a different one: the data sets are not simulated in the order they were added"""
    return any(pat[i] != pat[i - 1] and pat[i] in pat[: i - 1] for i in range(2, len(pat)))


def fit_on_kink(case):
    """some data point of the fit is exactly on f == Fc of a twistable leaf at that data set's parameter values"""
    for m in case["models"]:
        pn = list(obj_of(m["tree"]).parameter_names)
        for d in m["data"]:
            tr = dict((n, v) for n, v in d["trans"])
            local = {}
            for n in pn:
                v = tr.get(n, n)
                local[n] = case["values"][v] if isinstance(v, str) else v
            if any(on_kink(m["tree"], x, local) for x in d["xs"]):
                return True
    return False


def has_dup(case):
    for m in case["models"]:
        pn = list(obj_of(m["tree"]).parameter_names)
        for d in m["data"]:
            tr = dict(d["trans"])
            strs = [tr.get(n, n) for n in pn if isinstance(tr.get(n, n), str)]
            if len(set(strs)) != len(strs):
                return True
    return False


def dup_styles(case):
    """how the data sets that map two model parameters to one fit parameter do it: 'onto-model-parameter' (the common
    name is the name of one of the merged parameters, which keeps it) / 'new-common-name' (every merged parameter is
    renamed)"""
    out = set()
    for m in case["models"]:
        pn = list(obj_of(m["tree"]).parameter_names)
        for d in m["data"]:
            tr = dict(d["trans"])
            targets = [(n, tr.get(n, n)) for n in pn if isinstance(tr.get(n, n), str)]
            for v in {v for _, v in targets}:
                srcs = [n for n, w in targets if w == v]
                if len(srcs) > 1:
                    out.add("onto-model-parameter" if v in srcs else "new-common-name")
    return out


def corpus():
    import glob
    import json
    import os

    here = os.path.dirname(os.path.dirname(os.path.abspath(__file__)))
    for p in sorted(glob.glob(os.path.join(here, "corpus", "C13", "*.json"))):
        c = json.load(open(p))
        c["stream"] = "corpus"
        yield c


def cases(tier, rng):
    _quiet()
    quick = tier == "quick"
    for c in corpus():
        yield c

    # ---- small scope: every built-in model on a grid of abscissas x parameter corners
    grid_x = {"f": [0.05, 0.3, 1.0, 5.0, 15.0, 30.0, 55.0], "d": [0.35, 0.6, 0.8, 0.9, 0.96, 1.0, 1.02]}
    scales = [0.5, 1.0, 1.5] if not quick else [0.7, 1.3]
    kts = [1.0, 1.2] if quick else [0.92, 1.0, 1.3]  # kT is a parameter like the others: the default 4.11 and away from it
    for kind, (_, indep, args) in KINDS.items():
        if kind.startswith("offset"):
            for x in (0.5, 2.0):
                for o in (-0.05, 0.0, 0.07):
                    yield {"stream": "small-scope", "op": "base", "kind": kind, "x": x, "p": [o]}
            continue
        # the eFJC at an ssDNA-like L_p (1 nm) and at the library's default (40 nm, stiff: the overflow guards are passed)
        lp_bases = [1.0, DEFAULTS["Lp"]] if kind == "efjc_d" else [DEFAULTS["Lp"]]
        for sLp, sSt, skT, lp_base in [(a_, b_, c_, d_) for d_ in lp_bases for a_ in scales for b_ in scales for c_ in kts]:
                for Lc in ((0.5, 16.0) if quick else (0.3, 2.7, 16.0, 30.0)):
                    p = []
                    for a in args:
                        v = DEFAULTS[a]
                        if a == "Lp":
                            v = lp_base * sLp
                        if a == "St":
                            v *= sSt
                        if a == "kT":
                            v *= skT
                        if a == "Lc":
                            v = Lc
                        p.append(v)
                    grid = list(grid_x[indep])
                    if kind == "twlc_d":
                        # the boundary between the two coupling regimes: exactly on it (both comparisons of the code
                        # see f == Fc), one ulp and 1e-9 to either side
                        Fc = DEFAULTS["Fc"]
                        grid += [Fc, math.nextafter(Fc, math.inf), math.nextafter(Fc, 0.0), Fc * (1 + 1e-9), Fc * (1 - 1e-9)]
                    if kind == "efjc_d":
                        # the forces at which 2 f Lp / kT crosses an overflow guard: on it, one ulp and 1e-9 beside it
                        for thr in EFJC_GUARDS:
                            f0 = efjc_guard_force(thr, p[args.index("Lp")], p[args.index("kT")])
                            if 0.05 <= f0 <= 60.0:
                                grid += [f0, math.nextafter(f0, math.inf), math.nextafter(f0, 0.0), f0 * (1 + 1e-9), f0 * (1 - 1e-9)]
                    for gx in grid:
                        x = gx if indep == "f" else gx * Lc
                        if kind == "ms_f" and gx >= 0.97:
                            continue
                        if kind == "ms_d" and gx > 30:
                            continue
                        if kind == "odijk_f" and gx < 0.6:
                            continue
                        yield {"stream": "small-scope", "op": "base", "kind": kind, "x": float(x), "p": [float(v) for v in p]}

    # ---- malformed / out-of-domain stream: non-positive parameters, zero / negative / non-finite abscissas
    bad_x = [0.0, -1.0, float("inf"), float("nan")]
    for kind, (_, indep, args) in KINDS.items():
        if kind.startswith("offset"):
            continue
        base = [DEFAULTS[a] if not (a == "Lp" and kind == "efjc_d") else 1.0 for a in args]
        for bx in bad_x:
            yield {"stream": "malformed", "op": "base", "kind": kind, "x": bx, "p": base}
        for i in range(len(args)):
            for bv in (-1.0, float("nan")):
                p = list(base)
                p[i] = bv
                yield {"stream": "malformed", "op": "base", "kind": kind, "x": 5.0 if indep == "f" else 0.9 * 16.0, "p": p}

    # ---- small scope of compositions: every pair sum, offset of every model, inverse of every distance model
    r0 = rng.fork("c13-scope")
    dist = ["odijk_d", "ms_d", "ems_d", "efjc_d", "twlc_d"]
    force = ["odijk_f", "ms_f", "ems_f"]
    trees = []
    for group in (dist + ["offset_d"], force + ["offset_f"]):
        for i, a in enumerate(group):
            for b in group[i:]:
                if a.startswith("offset") and b.startswith("offset"):
                    continue
                trees.append(["add", ["base", a, "DNA"], ["base", b, "prot"]])
    for k in dist + force:
        trees.append(["off", ["base", k, "DNA"]])
    for k in dist:
        trees.append(["inv", ["base", k, "DNA"]])
        trees.append(["off", ["inv", ["base", k, "DNA"]]])
        trees.append(["add", ["inv", ["base", k, "DNA"]], ["base", "offset_f", "o"]])
    trees.append(["efjc_f", "ss"])
    trees.append(["add", ["efjc_f", "ss"], ["base", "odijk_f", "DNA"]])
    trees.append(["add", ["add", ["base", "odijk_d", "DNA"], ["base", "efjc_d", "ss"]], ["base", "offset_d", "o"]])
    trees.append(["off", ["add", ["base", "odijk_d", "DNA"], ["base", "odijk_d", "prot"]]])
    trees.append(["add", ["off", ["base", "odijk_d", "DNA"]], ["off", ["base", "ems_d", "prot"]]])
    trees.append(["inv", ["add", ["base", "odijk_d", "DNA"], ["base", "efjc_d", "ss"]]])
    trees.append(["twlc_f", "DNA"])
    trees.append(["add", ["twlc_f", "DNA"], ["base", "offset_f", "o"]])
    trees.append(["add", ["twlc_f", "DNA"], ["base", "odijk_f", "prot"]])
    reps = 1 if quick else 4
    for t in trees:
        # compositions with an eFJC leaf: once with an ssDNA-like and once with a stiff chain (overflow guards passed)
        for efjc in (("ss", "stiff") if "efjc" in repr(t) else ("mix",)):
            for j in range(reps):
                for attempt in range(4):
                    sub = r0.fork(repr(t) + str(j) + ("" if attempt == 0 else f".{attempt}") + ("" if efjc != "stiff" else "stiff"))
                    c = gen_tree_case(sub, tree=t, efjc=efjc)
                    if c is None or not valid_everywhere(t, c["x"], c["params"]):
                        continue
                    c["stream"] = "small-scope"
                    yield c
                    break
    # the inverted models (built-in efjc_force / twlc_force and Model.invert() of every distance model) at the default
    # thermal energy and away from it: kT reaches the forward value, the forward Jacobian and the forward derivative
    # through separate arguments
    for t in [["efjc_f", "ss"], ["twlc_f", "DNA"]] + [["inv", ["base", k, "DNA"]] for k in dist]:
        for skT in kts:
            for attempt in range(4):
                c = gen_tree_case(r0.fork("kT" + repr(t) + f"{skT}.{attempt}"), tree=t, kT=DEFAULTS["kT"] * skT)
                if c is None or not valid_everywhere(t, c["x"], c["params"]):
                    continue
                c["stream"] = "small-scope"
                yield c
                break
    # a model object with a past: every composition that contains an inversion (and a few that do not) asked for its
    # Jacobian / derivative after the SAME object evaluated the model function / the Jacobian / the derivative on other
    # abscissas (as many as in the observed call, or one more) with the same parameter values, or on the same abscissas
    # with other parameter values; alone and inside a vectorised call of three abscissas
    past_trees = [t for t in trees if count_inv(t)] + [
        ["base", "odijk_f", "DNA"], ["add", ["base", "odijk_d", "DNA"], ["base", "efjc_d", "ss"]], ["off", ["base", "ems_d", "DNA"]]]
    for ti, t in enumerate(past_trees):
        styles = HISTORY_STYLES if not quick else [HISTORY_STYLES[(ti + ti // 3) % len(HISTORY_STYLES)]]
        for style in styles:
            for attempt in range(4):
                sub = r0.fork("past" + repr(t) + style + f".{attempt}")
                c = gen_tree_case(sub, tree=t)
                if c is None or not valid_everywhere(t, c["x"], c["params"]):
                    continue
                if not add_history(sub, c, t, c["params"], style=style):
                    continue
                c["stream"] = "small-scope"
                yield c
                break
    # the same compositions of the twistable model with the abscissa placed so that the leaf is evaluated exactly on
    # its regime boundary f == Fc (through the offsets)
    kink_trees = [
        ["off", ["base", "twlc_d", "DNA"]],
        ["off", ["off", ["base", "twlc_d", "DNA"]]],
        ["add", ["base", "twlc_d", "DNA"], ["base", "offset_d", "o"]],
        ["add", ["base", "twlc_d", "DNA"], ["base", "efjc_d", "ss"]],
        ["add", ["off", ["base", "twlc_d", "DNA"]], ["base", "odijk_d", "prot"]],
        ["add", ["base", "twlc_d", "DNA"], ["base", "twlc_d", "prot"]],
    ]
    for t in kink_trees:
        for j in range(2 * reps):
            for attempt in range(4):
                c = gen_tree_case(r0.fork("kink" + repr(t) + f"{j}.{attempt}"), tree=t, kink=True)
                if c is None or not valid_everywhere(t, c["x"], c["params"]):
                    continue
                c["stream"] = "small-scope"
                yield c
                break

    # every composition of the scope that has an offset parameter (offset leaf in a sum, independent-variable offset) once
    # more at "no offset": every offset parameter exactly 0.0 (the one value inside an offset's range that is falsy / at
    # which a shift is a no-op)
    for t in [t_ for t_ in trees if has_offset_param(t_)]:
        for j in range(reps):
            for attempt in range(4):
                c = gen_tree_case(r0.fork("zero" + repr(t) + f"{j}.{attempt}"), tree=t, zero=True)
                if c is None or not valid_everywhere(t, c["x"], c["params"]):
                    continue
                c["stream"] = "small-scope"
                yield c
                break

    # ---- small scope of fit layouts: every way 1-3 data sets of a model can share conditions (in every order of
    #      appearance), x how the conditions differ, x blocks of equal / different lengths; then two-model fits
    rf = rng.fork("c13-fit-scope")
    fit_trees = [["base", "odijk_d", "DNA"], ["add", ["base", "odijk_f", "DNA"], ["base", "offset_f", "o"]]]
    if not quick:
        fit_trees += [["base", "ms_f", "DNA"], ["add", ["off", ["base", "odijk_d", "DNA"]], ["base", "efjc_d", "ss"]]]
    profiles = [[1, 1, 1], [2, 1, 3]] if quick else [[1, 1, 1], [2, 1, 3], [3, 2, 1], [1, 3, 1]]
    layouts = []
    for t in fit_trees:
        for nd in (1, 2, 3):
            for pat in condition_patterns(nd):
                for styles in SCOPE_STYLES:
                    if max(pat) == 0 and styles[0] == "id" and styles != SCOPE_STYLES[0]:
                        continue  # a single untransformed condition: the style of the others does not matter
                    for prof in profiles:
                        layouts.append(([t], [pat], styles, prof, False))
    # fits of the twistable model in which every data set has one sample exactly on the regime boundary f == Fc (Fc
    # untransformed, renamed, pinned)
    for t in (["base", "twlc_d", "DNA"], ["add", ["off", ["base", "twlc_d", "DNA"]], ["base", "offset_d", "o"]]):
        for pat in ([0], [0, 1], [0, 1, 0]):
            for styles in SCOPE_STYLES + [("id", "pinFc"), ("renameFc", "rename")]:
                layouts.append(([t], [pat], styles, [2, 1, 3], True))
    # compositions with parameters of the same physical kind in several parts: data sets that rename two (three) of
    # them onto one of them / to one common new name (the column of that fit parameter is the SUM of the sensitivities)
    merge_trees = [
        ["add", ["base", "odijk_d", "DNA"], ["base", "odijk_d", "prot"]],
        ["add", ["add", ["base", "odijk_d", "DNA"], ["base", "ems_d", "prot"]], ["base", "efjc_d", "ss"]],
    ]
    if not quick:
        merge_trees += [["add", ["base", "odijk_f", "DNA"], ["base", "ems_f", "prot"]],
                        ["add", ["off", ["base", "odijk_d", "DNA"]], ["off", ["base", "twlc_d", "prot"]]]]
    for t in merge_trees:
        for pat in ([0], [0, 1], [0, 1, 0]):
            for styles in MERGE_STYLES:
                if max(pat) == 0 and styles[0] == "id":
                    continue
                layouts.append(([t], [pat], styles, [2, 1, 3], False))
    two = [["base", "odijk_d", "DNA"], ["base", "odijk_f", "prot"]]
    for pats in ([[0, 1, 0], [0, 1, 0]], [[0, 1], [0, 1, 0]], [[0, 1, 0], [0]], [[0, 0, 1], [0, 1, 1]]):
        for styles in SCOPE_STYLES:
            layouts.append((two, pats, styles, [2, 1, 3, 1, 2], False))
    # fits of models that contain a numerical inversion (invert(), efjc_force, alone / in a sum / behind an offset):
    # the data sets of one condition are evaluated one after the other on the same inverted model with the same
    # parameter values — with equally many points each ([2, 2, 2], [1, 1, 1]) and with different numbers; asked for the
    # Jacobian on a fresh fit, after the residual (what an optimiser does), and after residual + Jacobian elsewhere
    inv_trees = [["inv", ["base", "odijk_d", "DNA"]], ["efjc_f", "ss"]]
    inv_pats = [[0, 0], [0, 1, 0]]
    inv_profiles = [[2, 2, 2], [2, 1, 3]]
    if not quick:
        inv_trees += [["inv", ["base", "ems_d", "DNA"]], ["add", ["inv", ["base", "efjc_d", "ss"]], ["base", "offset_f", "o"]],
                      ["off", ["inv", ["base", "odijk_d", "DNA"]]], ["twlc_f", "DNA"],
                      ["inv", ["add", ["base", "odijk_d", "DNA"], ["base", "efjc_d", "ss"]]]]
        inv_pats = [[0], [0, 0], [0, 1], [0, 0, 0], [0, 0, 1], [0, 1, 0], [0, 1, 1]]
    pres = [None, [["res", 1.0]], [["res", 1.01], ["jac", 1.01], ["res", 1.0]]]
    n_plain = len(layouts)
    for t in inv_trees:
        for pat in inv_pats:
            if t[0] == "twlc_f" and pat not in ([0, 0], [0, 1, 0]):
                continue  # (no derivative: its inversions are by far the slowest)
            for prof in inv_profiles + ([[1, 1, 1]] if not quick and pat == [0, 0] else []):
                layouts.append(([t], [pat], SCOPE_STYLES[len(layouts) % len(SCOPE_STYLES)] if max(pat) else SCOPE_STYLES[0], prof, False))
    for li, (ts, pats, styles, prof, kink) in enumerate(layouts):
        for attempt in range(5):
            c = scope_fit_case(rf.fork(f"{li}.{attempt}"), ts, pats, styles, prof, kink=kink)
            if c is not None:
                c["stream"] = "small-scope"
                if li >= n_plain and pres[(li - n_plain) % len(pres)]:
                    c["pre"] = pres[(li - n_plain) % len(pres)]
                yield c
                break

    # fits of models with an offset (force / distance offset in a sum, independent-variable offset) in which "no offset"
    # occurs the two ways a user says it: a data set FIXES the offset to the number 0 (params={"DNA/d_offset": 0}, as int
    # and as float; alone, next to untransformed / renamed conditions, in every order of appearance), or the offset is a
    # fit parameter whose value is exactly 0 where the Jacobian is asked (a fit started from no offset)
    zero_trees = [["add", ["base", "odijk_f", "DNA"], ["base", "offset_f", "o"]], ["off", ["base", "odijk_f", "DNA"]],
                  ["add", ["base", "odijk_d", "DNA"], ["base", "offset_d", "DNA"]]]
    if not quick:
        zero_trees += [["add", ["off", ["base", "odijk_d", "DNA"]], ["base", "efjc_d", "ss"]], ["off", ["base", "twlc_d", "DNA"]],
                       ["add", ["off", ["base", "ems_f", "DNA"]], ["base", "offset_f", "o"]], ["off", ["inv", ["base", "odijk_d", "DNA"]]]]
    zero_layouts = []
    for t in zero_trees:
        for pat in ([0], [0, 1], [0, 1, 0]) + (() if quick else ([0, 0, 1], [0, 1, 1], [0, 1, 2])):
            for styles, zero in ((("pin0", "rename"), None), (("id", "pin0"), None), (("rename", "pin0"), None), (("id", "rename"), True),
                                 (("pin0", "id"), True)):
                if max(pat) == 0 and styles[0] == "id" and not zero:
                    continue
                if count_inv(t) and len(pat) > 2:
                    continue
                zero_layouts.append((t, pat, styles, zero))
    for li, (t, pat, styles, zero) in enumerate(zero_layouts):
        for attempt in range(5):
            c = scope_fit_case(rf.fork(f"zero{li}.{attempt}"), [t], [pat], styles, [2, 1, 3] if not count_inv(t) else [2, 1, 2], zero=zero)
            if c is not None:
                c["stream"] = "small-scope"
                if li % 2 and has_integral_pin(c):
                    c["int_pins"] = True
                if li % 3 == 2:
                    c["pre"] = [["res", 1.0]]
                yield c
                break

    # ---- seeded random: base models over the property's box
    N = 700 if quick else 12000
    r = rng.fork("c13-base")
    kinds = [k for k in KINDS]
    for i in range(N):
        sub = r.fork(i)
        kind = sub.choice(kinds)
        pd = gen_params(sub, kind, "m")
        try:
            x = gen_x(sub, kind, pd, "m")
        except Exception:
            continue
        if not valid_everywhere(["base", kind, "m"], x, pd, base_ok=True):
            continue
        c = {"stream": "random", "op": "base", "kind": kind, "x": float(x), "p": [pd[n] for n in leaf_names(kind, "m")], "subseed": i}
        if sub.chance(0.3):  # the (shared) model object has a past
            add_history(sub, c, ["base", kind, "m"], pd, names=leaf_names(kind, "m"))
        yield c

    # ---- raw cubics, exhaustive small scope (deepening round D): every cubic with three distinct non-zero integer roots in -3..3
    # (det < 0: trigonometric branch, theorem trig_chain_eq_implicit) and every cubic with a non-zero real root in -2..2 and a
    # complex pair re +- i im, re in -1..1, im in 1..2 (det > 0: Cardano branch), each for all three root indices; the
    # coefficients are exact integers, so the branch is decided without rounding.  Roots are non-zero: a root that is
    # exactly 0 is returned as a rounding residue (1e-16) of which no digit is determined, so neither the model
    # comparison nor the oracle (both relative) says anything about it
    nz = [v for v in range(-3, 4) if v != 0]
    for r1 in nz:
        for r2 in [v for v in nz if v > r1]:
            for r3_ in [v for v in nz if v > r2]:
                for k_ in range(3):
                    yield {"stream": "small-scope", "op": "cubic", "a": float(-(r1 + r2 + r3_)), "b": float(r1 * r2 + r1 * r3_ + r2 * r3_),
                           "c": float(-r1 * r2 * r3_), "k": k_}
    for r0_ in (-2, -1, 1, 2):
        for re_ in range(-1, 2):
            for im_ in (1, 2):
                for k_ in range(3):
                    yield {"stream": "small-scope", "op": "cubic", "a": float(-(r0_ + 2 * re_)), "b": float(2 * r0_ * re_ + re_ * re_ + im_ * im_),
                           "c": float(-r0_ * (re_ * re_ + im_ * im_)), "k": k_}

    # ---- raw cubics: all three root indices, both branches (from chosen roots, so that the branch is controlled)
    N = 300 if quick else 6000
    r = rng.fork("c13-cubic")
    for i in range(N):
        sub = r.fork(i)
        sc = sub.loguniform(0.1, 1000.0)
        if sub.chance(0.5):  # three real roots -> det < 0 (trigonometric branch)
            rs = [sub.uniform(-1.0, 1.0) * sc for _ in range(3)]
            a_, b_, c_ = -(rs[0] + rs[1] + rs[2]), rs[0] * rs[1] + rs[0] * rs[2] + rs[1] * rs[2], -rs[0] * rs[1] * rs[2]
        else:  # one real root and a complex pair -> det > 0 (Cardano branch)
            r0, re, im = sub.uniform(-1.0, 1.0) * sc, sub.uniform(-1.0, 1.0) * sc, sub.loguniform(1e-3, 1.0) * sc
            a_, b_, c_ = -(r0 + 2 * re), 2 * r0 * re + re * re + im * im, -r0 * (re * re + im * im)
        yield {"stream": "random", "op": "cubic", "a": float(a_), "b": float(b_), "c": float(c_), "k": sub.randint(0, 2), "subseed": i}

    # ---- seeded random compositions
    N = 120 if quick else 2500
    r = rng.fork("c13-tree")
    for i in range(N):
        sub = r.fork(i)
        c = gen_tree_case(sub, depth=sub.choice([1, 2, 2, 3]), allow_inv=sub.chance(0.5))
        if c is None or not valid_everywhere(c["tree"], c["x"], c["params"]):
            continue
        if sub.chance(0.5):  # the model object has a past
            add_history(sub, c, c["tree"], c["params"])
        c["stream"] = "random"
        c["subseed"] = i
        yield c

    # ---- seeded random fit layouts (quick: a tenth, thorough: 6 % with a model that contains a numerical inversion)
    N = 60 if quick else 1200
    r = rng.fork("c13-fit")
    for i in range(N):
        sub = r.fork(i)
        c = gen_fit_case(sub, allow_dups=True, inv=sub.chance(0.1 if quick else 0.06))
        if c is None:
            continue
        c["stream"] = "random"
        c["subseed"] = i
        yield c


def leaf_name_lists(tree):
    t = tree[0]
    if t == "base":
        return [leaf_names(tree[1], tree[2])]
    if t in ("efjc_f", "twlc_f"):
        return [leaf_names("efjc_d" if t == "efjc_f" else "twlc_d", tree[1])]
    return [l_ for sub in tree[1:] if isinstance(sub, list) for l_ in leaf_name_lists(sub)]


def deepening_coverage(results):
    """which hypotheses / branches of the theorems added in deepening round D the cases of this run fall under"""
    kb, side, wf, scope = {}, {"f < Fc": 0, "f > Fc": 0, "f == Fc (outside twlc_distance_jac)": 0}, [0, 0], {"trig": 0, "cardano": 0}
    rows = {"data sets mapping their parameters to DISTINCT fit parameters (code row = accumulating row: fit_row_code_eq_accumulating)": 0,
            "data sets with two parameters on one fit parameter (F16 layout)": 0}
    efjc = {"2 f Lp / kT < 300 (efjc_distance_jac applies)": 0, ">= 300 (guards active, outside the theorem)": 0}
    for r in results:
        c = r["case"]
        try:
            if c["op"] == "base" and c.get("stream") != "malformed":
                if c["kind"] in CUBIC and len(r["model"]) > 1 and " " in r["model"][1]:
                    key = c["kind"] + "/" + r["model"][1].split(" ")[0].split(":")[0]
                    kb[key] = kb.get(key, 0) + 1
                if c["kind"] == "twlc_d":
                    f_, Fc_ = c["x"], c["p"][6]
                    side["f < Fc" if f_ < Fc_ else "f > Fc" if f_ > Fc_ else "f == Fc (outside twlc_distance_jac)"] += 1
                if c["kind"] == "efjc_d":
                    efjc[list(efjc)[0 if 2.0 * c["x"] * c["p"][0] / c["p"][3] < 300 else 1]] += 1
            if c["op"] == "cubic" and c.get("stream") == "small-scope":
                a_, b_, c_ = c["a"], c["b"], c["c"]
                p_ = b_ - a_ * a_ / 3.0
                q_ = 2.0 * a_**3 / 27.0 - a_ * b_ / 3.0 + c_
                scope["trig" if q_ * q_ / 4.0 + p_**3 / 27.0 < 0 else "cardano"] += 1
            if c["op"] == "tree":
                wf[1] += 1
                if all(len(set(l_)) == len(l_) for l_ in leaf_name_lists(c["tree"])):
                    wf[0] += 1
            if c["op"] == "fit":
                for m in c["models"]:
                    pn = list(obj_of(m["tree"]).parameter_names)
                    for d in m["data"]:
                        tr = dict(d["trans"])
                        strs = [tr.get(n, n) for n in pn if isinstance(tr.get(n, n), str)]
                        rows[list(rows)[0 if len(set(strs)) == len(strs) else 1]] += 1
        except Exception:
            pass
    return {
        "cubic models on the grid / box, by kind and branch+band (jac_*_hasDerivAt / der_hasDerivAt apply to CN and TN)": kb,
        "raw cubics of the exhaustive integer-root scope (3 root indices each)": scope,
        "twlc_d base cases by side of the regime boundary (twlc_distance_jac: either side)": side,
        "efjc_d base cases by overflow-guard regime": efjc,
        "compositions whose leaves have distinct parameter names (hypothesis WF of composite/offset_jacobian_end_to_end)": f"{wf[0]}/{wf[1]}",
        "fit rows by hypothesis of fit_row_code_eq_accumulating": rows,
    }


def extra_coverage(results):
    kinds, branches, skipped, fit_layout = {}, {}, {}, {"datasets": {}, "models": {}, "dup_global_in_dataset": 0, "pinned": 0, "renamed": 0,
                                                "condition_patterns": {}, "shared_condition_not_contiguous": 0}
    tree_shapes = {"add": 0, "off": 0, "inv": 0}
    boundary = {"base": 0, "tree": 0, "fit": 0}  # cases with a sample exactly on f == Fc of a twistable leaf
    kt_off_default = {}  # per kind: cases whose kT differs from the default 4.11
    efjc_arg = {"base: 2fLp/kT < 300": 0, "base: 300 <= 2fLp/kT < 500 (1/sinh^2 dropped)": 0, "base: 2fLp/kT >= 500 (coth = 1)": 0,
                "compositions with a stiff eFJC leaf (Lp >= 20)": 0}
    dup_style = {"onto-model-parameter": 0, "new-common-name": 0}
    past = {"base/tree cases whose model object was asked something before the observed call": 0,
            "... the model function / Jacobian / derivative at OTHER abscissas, same number of points, same parameter values": 0,
            "... of those on a composition with a numerical inversion": 0,
            "... at the same abscissas with other parameter values": 0,
            "observed abscissa inside a vectorised call of 2-4 abscissas": 0,
            "fits with a model that contains a numerical inversion": 0,
            "... with two data sets of one condition and equally many points (evaluated back to back at the same parameter values)": 0,
            "fits asked for the residual / Jacobian before the observed Jacobian": 0}
    pk = list(past)
    zero = {"base/tree cases with an offset parameter exactly 0": 0, "fits asked for the Jacobian where a fit parameter that is an offset is exactly 0": 0,
            "data sets that fix an offset to the number 0 (passed as float)": 0, "... passed as int": 0}
    zk = list(zero)
    pub = {"1": 0, "0": 0, "?": 0}
    for r in results:
        c = r["case"]
        if c["op"] == "fit" and len(r["impl"]) > 1 and " | V" in r["impl"][1]:
            flag = r["impl"][1].split(" | V")[-1].strip()
            pub[flag if flag in pub else "?"] += 1
        try:
            if c["op"] in ("base", "tree"):
                n_obs = 1 + len(c.get("also", []))
                obs = xvec(c)[0].tolist()
                if c.get("before"):
                    past[pk[0]] += 1
                    if any(pd is None and len(xs) == n_obs and list(xs) != obs for _, xs, pd in c["before"]):
                        past[pk[1]] += 1
                        if c["op"] == "tree" and count_inv(c["tree"]):
                            past[pk[2]] += 1
                    if any(pd is not None and list(xs) == obs for _, xs, pd in c["before"]):
                        past[pk[3]] += 1
                if c.get("also"):
                    past[pk[4]] += 1
            if c["op"] == "fit":
                if fit_has_inv(c):
                    past[pk[5]] += 1
                    for m in c["models"]:
                        if count_inv(m["tree"]):
                            pn = list(obj_of(m["tree"]).parameter_names)
                            seen = set()
                            for d in m["data"]:
                                key = (cond_key(pn, d["trans"]), len(d["xs"]))
                                if key in seen:
                                    past[pk[6]] += 1
                                    break
                                seen.add(key)
                if c.get("pre"):
                    past[pk[7]] += 1
        except Exception:
            pass
        try:
            if c["op"] == "base" and c["kind"].startswith("offset") and c["p"][0] == 0:
                zero[zk[0]] += 1
            if c["op"] == "tree" and any(is_offset(n) and v == 0 for n, v in c["params"].items()):
                zero[zk[0]] += 1
            if c["op"] == "fit":
                if any(isinstance(v, str) and is_offset(n) and c["values"].get(v) == 0
                       for m in c["models"] for d in m["data"] for n, v in zip(obj_of(m["tree"]).parameter_names, local_targets(m, d))):
                    zero[zk[1]] += 1
                for m in c["models"]:
                    for d in m["data"]:
                        for n, v in d["trans"]:
                            if not isinstance(v, str) and v == 0:
                                zero[zk[3 if c.get("int_pins") else 2]] += 1
        except Exception:
            pass
        try:
            if c["op"] == "base" and c["kind"] == "twlc_d" and c.get("stream") != "malformed" and c["x"] == c["p"][6]:
                boundary["base"] += 1
            if c["op"] == "tree" and on_kink(c["tree"], c["x"], c["params"]):
                boundary["tree"] += 1
            if c["op"] == "fit" and fit_on_kink(c):
                boundary["fit"] += 1
            if c["op"] == "base" and "kT" in KINDS[c["kind"]][2] and c.get("stream") != "malformed":
                if c["p"][KINDS[c["kind"]][2].index("kT")] != DEFAULTS["kT"]:
                    kt_off_default[c["kind"]] = kt_off_default.get(c["kind"], 0) + 1
            if c["op"] == "base" and c["kind"] == "efjc_d" and c.get("stream") != "malformed":
                x2 = 2.0 * c["x"] * c["p"][0] / c["p"][3]
                efjc_arg[[k_ for k_ in efjc_arg][0 if x2 < 300 else 1 if x2 < 500 else 2]] += 1
            if c["op"] == "tree" and any(l_[1] == "efjc_d" and c["params"][f"{l_[2]}/Lp"] >= 20 for l_ in leaves(c["tree"])):
                efjc_arg["compositions with a stiff eFJC leaf (Lp >= 20)"] += 1
            if c["op"] == "fit":
                for st in dup_styles(c):
                    dup_style[st] += 1
            if c["op"] == "tree" and c["params"].get("kT", DEFAULTS["kT"]) != DEFAULTS["kT"]:
                for key in {"inv" if l_ == "inv" else l_ for l_ in ("efjc_f", "twlc_f", "inv") if f"'{l_}'" in repr(c["tree"])}:
                    kt_off_default[key] = kt_off_default.get(key, 0) + 1
        except Exception:
            pass
        key = c["op"] + ("/" + c["kind"] if "kind" in c else "")
        kinds[key] = kinds.get(key, 0) + 1
        for s in c.get("_skipped", []):
            skipped[s] = skipped.get(s, 0) + 1
        if c["op"] == "cubic" and " " in r["model"][0]:
            b = "cubic-root%d/" % c["k"] + r["model"][0].split(" ")[0].split(":")[0]
            branches[b] = branches.get(b, 0) + 1
        if c["op"] == "base" and len(r["model"]) > 1 and " " in r["model"][1]:
            b = r["model"][1].split(" ")[0].split(":")[0]
            branches[b] = branches.get(b, 0) + 1
        if c["op"] == "tree":
            s = repr(c["tree"])
            for k in tree_shapes:
                if f"'{k}'" in s or ("inv" == k and ("efjc_f" in s or "twlc_f" in s)):
                    tree_shapes[k] += 1
        if c["op"] == "fit":
            nd = sum(len(m["data"]) for m in c["models"])
            fit_layout["datasets"][nd] = fit_layout["datasets"].get(nd, 0) + 1
            fit_layout["models"][len(c["models"])] = fit_layout["models"].get(len(c["models"]), 0) + 1
            if has_dup(c):
                fit_layout["dup_global_in_dataset"] += 1
            pats = [pattern_of(m) for m in c["models"]]
            for pat in pats:
                fit_layout["condition_patterns"][pat] = fit_layout["condition_patterns"].get(pat, 0) + 1
            if any(noncontiguous(pat) for pat in pats):
                fit_layout["shared_condition_not_contiguous"] += 1
            for m in c["models"]:
                for d in m["data"]:
                    for n, v in d["trans"]:
                        fit_layout["pinned" if not isinstance(v, str) else "renamed"] += 1
    deep = deepening_coverage(results)
    return {
        "deepening_round_D": deep,
        "case_kinds": kinds,
        "cubic_branch_and_band": branches,
        "cubic_branch_legend": "C = Cardano chain rule (det > 0), T = trigonometric (det <= 0); R = inside the regularised band, N = outside; '-' = closed form",
        "oracle_derivative_entries": {"compared_or_abstained": JUDGED[0], "abstained_not_converged": JUDGED[1]},
        "oracle_abstentions": skipped,
        "public_fit_twin": {"Fit.verify_jacobian accepts": pub["1"], "rejects": pub["0"],
                            "not asked (no parameter / numerical inversion / raised)": pub["?"],
                            "call": f"verify_jacobian(params, verbose=False, dx={VERIFY_DX:g}, rtol={VERIFY_RTOL:g}, atol={VERIFY_ATOL:g} x largest ordinate)"},
        "private_observation_points_unreachable": dict(UNREACHABLE),
        "oracle_abstention_note": "the numerical derivative is used only when its Richardson table converges (error estimate < 1e-7 of the value) and the left and right difference quotients agree; entries where it does not (kink of the twistable model, regularised band, non-finite values) are dropped from the oracle, not from the model comparison",
        "tree_shapes": tree_shapes,
        "samples_exactly_on_twlc_regime_boundary": boundary,
        "cases_with_kT_off_default": kt_off_default,
        "efjc_overflow_guard_regimes": efjc_arg,
        "fit_layouts_two_parameters_one_fit_parameter": dup_style,
        "objects_with_a_past": past,
        "offsets_exactly_zero": zero,
        "fit_layouts": fit_layout,
        "exhaustive": False,
    }


RULE = (
    "corpus (F16 inputs) + small scope (every built-in model on a grid of 7 abscissas x parameter corners: L_p, S_t "
    "x{0.5,1,1.5}, kT x{0.92,1,1.3}, L_c in {0.3,2.7,16,30}; the twistable model additionally exactly ON its regime "
    "boundary f == F_c, one ulp and 1e-9 to either side; the eFJC at an ssDNA-like L_p (1 nm) AND at the library's "
    "default L_p = 40 nm (stiff chain), there also on / one ulp / 1e-9 beside the forces at which 2 f L_p / kT "
    "crosses the overflow guards 300 (1/sinh^2 dropped) and 500 (coth = 1) of the code; every pairwise sum, the offset of every model, the inverse of "
    "every distance model, efjc_force and twlc_force alone and in sums, each inverted model at the default kT and away "
    "from it, nested examples, every composition with an eFJC leaf once ssDNA-like and once stiff; compositions and fits of the twistable model with a sample placed exactly on f == F_c "
    "through the offsets) + raw cubics (a, b, c) built from chosen roots (three real roots = trigonometric branch, "
    "one real root = Cardano branch; scale 0.1-1000; all three root indices) + seeded random over the property's box (parameters +-50 % of the defaults, twist "
    "parameters +-10 %, eFJC: half ssDNA-like L_p 0.5-2 nm, half 40 nm +-50 % with two fifths of the forces on / beside an overflow guard, L_c 0.3-30 um log-uniform, forces 0.05 pN .. 80 % of the validity limit (twistable model: a fifth of the forces on / one ulp beside / "
    "within 1e-12..1e-2 of F_c), distances obtained from such forces; random compositions of depth <= 3 with up to 6 leaves; fit layouts with 1-2 models, 1-3 data "
    "sets each, 1-3 points, parameters renamed per data set / shared across data sets / merged inside a data set (renamed "
    "onto another model parameter of the same kind, or two or more of them renamed to one common NEW name) / "
    "pinned to numbers; half of the layouts draw the condition-sharing pattern of the data sets first and one "
    "transformation per condition) + small scope of fit layouts (every way 1-3 data sets of a model share conditions, "
    "in every order of appearance: 0 00 01 000 001 010 011 012, x conditions differing by a renamed / a pinned "
    "parameter, x data sets of equal / different lengths; two-model fits with such patterns in both models; sums of "
    "two / three models with parameters of the same physical kind, whose data sets rename them onto one of them / to "
    "one common new name / two kinds at once, alone and next to untransformed, renamed, pinned conditions) "
    "+ an out-of-domain stream (zero, negative, NaN, infinite abscissas and parameters). "
    "Offsets exactly 0 (round H; the only parameters whose range contains 0): a quarter of all random offset values (offset "
    "leaves, independent-variable offsets; hence also fit parameters that are offsets) are exactly 0.0, 40 % of the offsets "
    "a random data set pins are pinned to 0 (half of those fits pass integral constants as int); small scope: every "
    "composition of the scope with an offset parameter once more with every offset 0, and fits of odijk_force + force "
    "offset / odijk_force(d - offset) / odijk_distance + distance offset (thorough: four more, one with an inversion) x "
    "patterns 0, 01, 010 (thorough all of 3 data sets) x {offset fixed to 0 in the first / in the other conditions, next to "
    "untransformed / renamed ones; every offset a fit parameter of value 0; both} x int / float constants. "
    "Objects with a past (the harness is a caller with memory; model objects are shared between cases): every composition "
    "with a numerical inversion (and three without) is asked for its Jacobian / derivative after the SAME object evaluated "
    "the model function / the Jacobian / the derivative on other abscissas — as many as in the observed call, or one "
    "more — with the same parameter values, or on the same abscissas with other parameter values, alone and inside a "
    "vectorised call of three abscissas (quick: one such past per composition, thorough: all six); half of the random "
    "compositions and a third of the random base cases carry a random past of 1-3 such calls and / or 1-3 other abscissas "
    "in the same call. Fits contain inverted models like any other: small scope invert(Odijk) and efjc_force (thorough: "
    "also invert(eWLC), invert(eFJC) + force offset, offset of invert(Odijk), twlc_force, invert of a sum) x data sets "
    "sharing / not sharing a condition x equally many points per data set ([2,2,2]; thorough also [1,1,1]) / different "
    "numbers ([2,1,3]) x Jacobian asked on a fresh fit / after the residual / after residual + Jacobian at another vector "
    "+ residual; a tenth (thorough 6 %) of the random fits has such a model, 60 % of all random fits are asked for residuals "
    "/ Jacobians before the observed Jacobian, half of them give all data sets of a model equally many points. "
    "Non-trivial: base = a derivative was returned; tree = a genuine composition; fit = more than one data set or a "
    "transformation; raw cubic = always."
)
TRUSTED = [
    "model and oracle are stateless functions of (abscissa, parameter values): whatever a model object or a fit was asked "
    "before the observed call (case keys before / also / pre) is replayed on the implementation only",
    "fits with inverted models: the values the numerical inversions return per point are inputs of the model (as for "
    "compositions); the oracle differentiates the implementation's own residual vector and compares on the scale of the "
    "row's largest sensitivity with the tolerance 1e-5 + 200 x the measured inversion error",
    "RealLike formulas are executed at Float and proved at R; rounding is not modelled (comparison: rel 1e-9 for closed "
    "forms and the trigonometric branch, rel 2e-6 where the Cardano chain rule is involved, 1e-7 through numerical inversions)",
    "np.abs(t)**(2/3) of calc_first_root is modelled as cbrt(|t|)^2; x**(-2) as 1/(x*x); x**3 as x*x*x",
    "the model executes ONE association of each floating-point formula (the one the code had when it was transcribed); "
    "an algebraically identical reformulation re-rolls the rounding: inside the validity range the comparison allows "
    "that on the scale of the formula's own conditioning (1e-9; Cardano chain rule max(2e-6, 1e-12 x the amplification "
    "of det and of the cube-root arguments, reported by the model)); out of domain (non-finite / zero / negative inputs) "
    "a NaN — IEEE's answer to an indeterminate form inf/inf, inf-inf, 0 inf, which only some associations run into — is "
    "matched by NaN or an infinity of either sign, two infinities need the same sign, finite entries stay compared",
    "fit tie through the public API: Fit.verify_jacobian(dx=3e-5, rtol=1e-3, atol=3e-5 x largest ordinate) must accept "
    "wherever every entry agrees with the converged numerical derivative; it is all that is left of the fit tie if "
    "Fit._calculate_jacobian / _calculate_residual are renamed (then not judged within 1e-3 of a tWLC regime boundary)",
    "the numerical inversions (scipy least_squares) are not modelled: the value F they return is an input of the model's "
    "inversion rule",
    "oracle: Richardson-extrapolated central differences in double precision, accepted only when converged AND the "
    "one-sided difference quotients agree (jump_estimate): on a regime boundary (f == F_c of the twistable model) only "
    "the directions in which the model is differentiable are judged (not F_c, not d/df, not parameters that move the "
    "force at which the leaf is evaluated); the model correspondence compares every entry there too",
]
ASSUMPTIONS = [
    "positive parameters (hypotheses of the HasDerivAt theorems); d < L_c for the inextensible Marko-Siggia force",
    "cubic models: the theorems are about any differentiable branch of simple roots (P'(y) != 0) with the implicit-"
    "function root derivatives; that the Cardano/trigonometric chain rule of the code equals them off the regularised "
    "band is tied by the c13.jac correspondence and the oracle, not proved (DESIGN ext item)",
    "parameter names of one model / one data set target are distinct in the routing theorems (F16 is the case where they are not)",
]
